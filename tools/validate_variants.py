"""dev tool: which breaking variants of the self-validation corpus keep the pinned test suite green?
(run in the background: vp run -- /venv/bin/python -B tools/validate_variants.py)"""
import os, sys, shutil, subprocess, concurrent.futures, json
sys.path.insert(0, os.path.dirname(os.path.dirname(os.path.abspath(__file__))))
from sa.variants import VARIANTS
from sa.selftest import variant_overlay
ROOT = '/tmp/varval'

def job(vid):
    ov = variant_overlay('/repo', VARIANTS[vid])
    if ov is None:
        return vid, 'inapplicable', ''
    d = os.path.join(ROOT, vid)
    shutil.rmtree(d, ignore_errors=True)
    shutil.copytree('/repo', d, ignore=shutil.ignore_patterns('.git', '__pycache__', 'docs', 'experiments'))
    for rel, src in ov.items():
        open(os.path.join(d, rel), 'w').write(src)
    env = dict(os.environ, PYTHONPATH=d)
    try:
        r = subprocess.run(['/venv/bin/python', '-m', 'pytest', '-q', '-x', '-p', 'no:cacheprovider', '--timeout=300', 'tests'],
                           cwd=d, env=env, capture_output=True, text=True, timeout=900)
        rc, tail = r.returncode, (r.stdout.strip().splitlines() or [''])[-1]
    except subprocess.TimeoutExpired:
        rc, tail = 124, 'timeout'
    shutil.rmtree(d, ignore_errors=True)
    return vid, 'tests-pass' if rc == 0 else 'tests-fail', tail

if __name__ == '__main__':
    ids = [v for v, d in VARIANTS.items() if d['kind'] == 'break']
    os.makedirs(ROOT, exist_ok=True)
    res = {}
    with concurrent.futures.ThreadPoolExecutor(max_workers=6) as ex:
        for vid, st, tail in ex.map(job, ids):
            res[vid] = st
            print('%-40s %-12s %s' % (vid, st, tail), flush=True)
    shutil.rmtree(ROOT, ignore_errors=True)
    n = len(res)
    print('SUMMARY', n, 'variants;', sum(1 for v in res.values() if v == 'tests-pass'), 'keep the suite green;',
          sum(1 for v in res.values() if v == 'tests-fail'), 'break a test;', sum(1 for v in res.values() if v == 'inapplicable'), 'inapplicable')
    json.dump(res, open('variants_vs_tests.json', 'w'), indent=1)
