"""dev tool: behaviour-preserving refactorings written by independent sub-agents.
   python -B tools/benign.py import /tmp/wt3   -> confirm (tests pass, differential test passes) and copy to /verif/benign/<id>/
   python -B tools/benign.py run               -> every check must stay silent (exit 0) on every refactoring"""
import json, os, shutil, subprocess, sys, re, concurrent.futures
VERIF = os.path.dirname(os.path.dirname(os.path.abspath(__file__)))
BEN = os.path.join(VERIF, 'benign')
SCR = '/tmp/benval'
PY = '/venv/bin/python'

def scratch(name, with_orig=False):
    d = os.path.join(SCR, name)
    shutil.rmtree(d, ignore_errors=True)
    shutil.copytree('/repo', d, ignore=shutil.ignore_patterns('.git', '__pycache__', 'experiments', 'DNASpiderWeb.egg-info', 'docs'))
    if with_orig:
        shutil.copytree(os.path.join(d, 'dsw'), os.path.join(d, 'dsw_orig'))
        for fn in os.listdir(os.path.join(d, 'dsw_orig')):
            if fn.endswith('.py'):
                p = os.path.join(d, 'dsw_orig', fn)
                s = open(p).read()
                s = re.sub(r'from dsw\.', 'from dsw_orig.', s)
                s = re.sub(r'(?m)^from dsw import', 'from dsw_orig import', s)
                s = re.sub(r'(?m)^import dsw\b', 'import dsw_orig', s)
                open(p, 'w').write(s)
    return d

def run(cmd, cwd, env=None, timeout=900):
    e = dict(os.environ); e.update(env or {})
    try:
        r = subprocess.run(cmd, cwd=cwd, env=e, capture_output=True, text=True, timeout=timeout)
        return r.returncode, r.stdout + r.stderr
    except subprocess.TimeoutExpired:
        return 124, 'timeout'

def confirm(src):
    d = scratch(src.strip('/').replace('/', '_'), with_orig=True)
    obs = {}
    rc, out = run(['patch', '-p1', '--no-backup-if-mismatch', '-i', os.path.join(src, 'patch.diff')], d)
    obs['patch_applies'] = rc == 0
    if rc == 0:
        rc, out = run([PY, '-m', 'pytest', '-q', '-p', 'no:cacheprovider', '--timeout=900', 'tests'], d, {'PYTHONPATH': d}, 1200)
        obs['tests_exit'] = rc
        rc, out = run([PY, os.path.join(src, 'equiv.py')], d, {'PYTHONPATH': d}, 300)
        obs['equiv_exit'] = rc
        obs['equiv_tail'] = (out.strip().splitlines() or [''])[-1][:200]
    shutil.rmtree(d, ignore_errors=True)
    obs['confirmed'] = obs.get('patch_applies') and obs.get('tests_exit') == 0 and obs.get('equiv_exit') == 0
    return obs

def do_import(root):
    os.makedirs(BEN, exist_ok=True)
    jobs = []
    for b in sorted(os.listdir(root)):
        out = os.path.join(root, b, 'out')
        if not os.path.isdir(out):
            continue
        for k in sorted(os.listdir(out)):
            src = os.path.join(out, k)
            if os.path.isdir(src) and all(os.path.exists(os.path.join(src, f)) for f in ('patch.diff', 'equiv.py', 'meta.json')):
                dst = os.path.join(BEN, '%s-%s' % (b, k))
                if not os.path.exists(dst):
                    jobs.append((src, dst))
    with concurrent.futures.ThreadPoolExecutor(max_workers=6) as ex:
        for (src, dst), obs in zip(jobs, ex.map(lambda j: confirm(j[0]), jobs)):
            print(os.path.basename(dst), 'CONFIRMED' if obs.get('confirmed') else 'REJECTED', obs)
            if obs.get('confirmed'):
                os.makedirs(dst)
                for fn in ('patch.diff', 'equiv.py'):
                    shutil.copy(os.path.join(src, fn), os.path.join(dst, fn))
                try:
                    meta = json.load(open(os.path.join(src, 'meta.json')))
                except Exception:
                    meta = {}
                meta['confirmed_by_main_session'] = obs
                json.dump(meta, open(os.path.join(dst, 'meta.json'), 'w'), indent=1)

def check_one(bid):
    sys.path.insert(0, VERIF)
    from sa.props import PROPERTIES
    src = os.path.join(BEN, bid)
    d = scratch('run_' + bid)
    rc, out = run(['patch', '-p1', '--no-backup-if-mismatch', '-i', os.path.join(src, 'patch.diff')], d)
    res = {}
    if rc != 0:
        shutil.rmtree(d, ignore_errors=True)
        return bid, {'patch': 'does not apply'}
    for p in sorted(PROPERTIES):
        rc, out = run([os.path.join(VERIF, 'check'), p, '--repo', d, '--no-write'], VERIF, timeout=300)
        if rc != 0:
            lines = [l for l in out.splitlines() if 'rule=' in l or 'ANALYSIS-ERROR' in l]
            res[p] = (rc, lines[:3])
    shutil.rmtree(d, ignore_errors=True)
    return bid, res

def do_run(only=None):
    ids = sorted(x for x in os.listdir(BEN) if os.path.isdir(os.path.join(BEN, x)) and (only is None or only in x))
    tot = {'silent': 0, 'alarm': 0, 'undecided': 0}
    with concurrent.futures.ThreadPoolExecutor(max_workers=8) as ex:
        for bid, res in ex.map(check_one, ids):
            alarms = {p: r for p, r in res.items() if isinstance(r, tuple) and r[0] == 1}
            und = {p: r for p, r in res.items() if isinstance(r, tuple) and r[0] == 2}
            st = 'FALSE-ALARM' if alarms else ('undecided' if und else 'silent')
            tot['alarm' if alarms else ('undecided' if und else 'silent')] += 1
            print('%-8s %-12s %s' % (bid, st, {p: r[1][:1] for p, r in list(alarms.items())[:3]} or {p: r[1][:1] for p, r in list(und.items())[:2]} or ''))
    print(tot)

if __name__ == '__main__':
    os.makedirs(SCR, exist_ok=True)
    if sys.argv[1] == 'show':
        bid, prop = sys.argv[2], sys.argv[3]
        base = BEN if os.path.isdir(os.path.join(BEN, bid)) else os.path.join(VERIF, 'seeded')
        d = scratch('show_' + bid)
        run(['patch', '-p1', '--no-backup-if-mismatch', '-i', os.path.join(base, bid, 'patch.diff')], d)
        rc, out = run([os.path.join(VERIF, 'check'), prop, '--repo', d, '--no-write'] + sys.argv[4:], VERIF)
        print(out)
        print('kept scratch copy at', d)
        sys.exit(0)
    if sys.argv[1] == 'import':
        do_import(sys.argv[2])
    else:
        do_run(sys.argv[2] if len(sys.argv) > 2 else None)
    shutil.rmtree(SCR, ignore_errors=True)
