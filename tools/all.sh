#!/bin/sh
# run every quick check; print only what is not OK
cd "$(dirname "$0")/.."
for i in 01 02 03 04 05 06 07 08 09 10 11 12 13 14 16 18 19 20; do ./check C$i --no-write | tail -1; done 2>&1 | grep -v "^OK"
echo "all checks run"
