"""dev tool: every benign twin / benign variant must keep the pinned test suite green (run on scratch copies outside /repo)"""
import os, sys, shutil, subprocess, concurrent.futures
sys.path.insert(0, os.path.dirname(os.path.dirname(os.path.abspath(__file__))))
from sa.variants import VARIANTS
from sa.selftest import variant_overlay
ROOT = '/tmp/twinval'

def job(vid):
    ov = variant_overlay('/repo', VARIANTS[vid])
    if ov is None:
        return vid, 'inapplicable', ''
    d = os.path.join(ROOT, vid)
    shutil.rmtree(d, ignore_errors=True)
    shutil.copytree('/repo', d, ignore=shutil.ignore_patterns('.git', '__pycache__', 'docs', 'experiments'))
    for rel, src in ov.items():
        open(os.path.join(d, rel), 'w').write(src)
    env = dict(os.environ, PYTHONPATH=d)
    r = subprocess.run(['/venv/bin/python', '-m', 'pytest', '-q', '-x', '-p', 'no:cacheprovider', '--timeout=900', 'tests'],
                       cwd=d, env=env, capture_output=True, text=True)
    tail = r.stdout.strip().splitlines()[-1] if r.stdout.strip() else r.stderr[-200:]
    shutil.rmtree(d, ignore_errors=True)
    return vid, 'pass' if r.returncode == 0 else 'FAIL', tail

if __name__ == '__main__':
    ids = [v for v, d in VARIANTS.items() if d['kind'] == 'benign']
    os.makedirs(ROOT, exist_ok=True)
    with concurrent.futures.ThreadPoolExecutor(max_workers=6) as ex:
        for vid, st, tail in ex.map(job, ids):
            print('%-34s %-12s %s' % (vid, st, tail))
    shutil.rmtree(ROOT, ignore_errors=True)
