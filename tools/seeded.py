"""dev tool: confirm seeded changes produced by independent sub-agents and run the checks against them.
usage: python -B tools/seeded.py import   (copy confirmed ones from /tmp/wt/*/out/* into /verif/seeded/)
       python -B tools/seeded.py run      (run every claimed check against every seeded change; print the matrix)"""
import json, os, shutil, subprocess, sys, concurrent.futures
VERIF = os.path.dirname(os.path.dirname(os.path.abspath(__file__)))
SEEDED = os.path.join(VERIF, 'seeded')
SCR = '/tmp/seedval'
PY = '/venv/bin/python'

def scratch(name):
    d = os.path.join(SCR, name)
    shutil.rmtree(d, ignore_errors=True)
    shutil.copytree('/repo', d, ignore=shutil.ignore_patterns('.git', '__pycache__', 'experiments', 'DNASpiderWeb.egg-info'))
    return d

def run(cmd, cwd, env=None, timeout=900):
    e = dict(os.environ)
    e.update(env or {})
    try:
        r = subprocess.run(cmd, cwd=cwd, env=e, capture_output=True, text=True, timeout=timeout)
        return r.returncode, (r.stdout + r.stderr)
    except subprocess.TimeoutExpired:
        return 124, 'timeout'

def confirm(src):
    """src: directory with patch.diff demo.py meta.json -> dict of observations"""
    name = src.strip('/').replace('/', '_')
    d = scratch(name)
    env = {'PYTHONPATH': d}
    obs = {}
    rc, out = run([PY, os.path.join(src, 'demo.py')], d, env, 180)
    obs['demo_without_patch_exit'] = rc
    rc, out = run(['patch', '-p1', '--no-backup-if-mismatch', '-i', os.path.join(src, 'patch.diff')], d)
    obs['patch_applies'] = rc == 0
    if rc != 0:
        obs['patch_output'] = out[-300:]
        shutil.rmtree(d, ignore_errors=True)
        return obs
    rc, out = run([PY, '-m', 'pytest', '-q', '-p', 'no:cacheprovider', '--timeout=900', 'tests'], d, env, 1200)
    obs['tests_exit'] = rc
    obs['tests_tail'] = out.strip().splitlines()[-1] if out.strip() else ''
    rc, out = run([PY, os.path.join(src, 'demo.py')], d, env, 180)
    obs['demo_with_patch_exit'] = rc
    obs['demo_with_patch_tail'] = out.strip().splitlines()[-1][:200] if out.strip() else ''
    shutil.rmtree(d, ignore_errors=True)
    obs['confirmed'] = obs['demo_without_patch_exit'] == 0 and obs['tests_exit'] == 0 and obs['demo_with_patch_exit'] != 0
    return obs

def do_import(root='/tmp/wt', tag=''):
    os.makedirs(SEEDED, exist_ok=True)
    jobs = []
    for pid in sorted(os.listdir(root)):
        out = os.path.join(root, pid, 'out')
        if not os.path.isdir(out):
            continue
        for k in sorted(os.listdir(out)):
            src = os.path.join(out, k)
            if os.path.isdir(src) and all(os.path.exists(os.path.join(src, f)) for f in ('patch.diff', 'demo.py', 'meta.json')):
                dst = os.path.join(SEEDED, '%s-%s%s' % (pid, tag, k))
                if not os.path.exists(dst):
                    jobs.append((pid, k, src, dst))
    with concurrent.futures.ThreadPoolExecutor(max_workers=6) as ex:
        for (pid, k, src, dst), obs in zip(jobs, ex.map(lambda j: confirm(j[2]), jobs)):
            print(pid, k, 'CONFIRMED' if obs.get('confirmed') else 'REJECTED', {x: obs[x] for x in obs if x.endswith('exit') or x == 'patch_applies'})
            if obs.get('confirmed'):
                os.makedirs(dst)
                for fn in ('patch.diff', 'demo.py'):
                    shutil.copy(os.path.join(src, fn), os.path.join(dst, fn))
                try:
                    meta = json.load(open(os.path.join(src, 'meta.json')))
                except Exception:
                    meta = {}
                meta['property'] = pid
                meta['confirmed_by_main_session'] = obs
                meta['what_was_run'] = ('scratch copy of /repo HEAD; demo.py without the patch (exit 0); patch applied; pinned pytest command '
                                        'on tests/ (30 passed); demo.py with the patch (non-zero exit)')
                json.dump(meta, open(os.path.join(dst, 'meta.json'), 'w'), indent=1)

def check_one(args):
    sid, props = args
    src = os.path.join(SEEDED, sid)
    d = scratch('run_' + sid)
    rc, out = run(['patch', '-p1', '--no-backup-if-mismatch', '-i', os.path.join(src, 'patch.diff')], d)
    res = {}
    if rc != 0:
        shutil.rmtree(d, ignore_errors=True)
        return sid, {'patch': 'does not apply'}
    for p in props:
        rc, out = run([os.path.join(VERIF, 'check'), p, '--repo', d, '--no-write'], VERIF, timeout=300)
        rules = sorted({l.split('rule=')[1].split(' ')[0] for l in out.splitlines() if 'rule=' in l})
        res[p] = (rc, rules)
    shutil.rmtree(d, ignore_errors=True)
    return sid, res

def do_run(only=None):
    sys.path.insert(0, VERIF)
    from sa.props import PROPERTIES
    props = sorted(PROPERTIES)
    ids = sorted(x for x in os.listdir(SEEDED) if os.path.isdir(os.path.join(SEEDED, x)) and (only is None or only in x))
    matrix = {}
    with concurrent.futures.ThreadPoolExecutor(max_workers=8) as ex:
        for sid, res in ex.map(check_one, [(i, props) for i in ids]):
            matrix[sid] = res
            own = sid.split('-')[0]
            det = {p: r for p, r in res.items() if isinstance(r, tuple) and r[0] == 1}
            und = [p for p, r in res.items() if isinstance(r, tuple) and r[0] == 2]
            o = res.get(own)
            print('%-8s own-check=%s  detected-by=%s  undecided=%s' % (
                sid, {0: 'MISSED', 1: 'DETECTED', 2: 'UNDECIDED'}.get(o[0]) if isinstance(o, tuple) else o,
                {p: r[1] for p, r in det.items()}, und))
    json.dump({k: {p: list(r) if isinstance(r, tuple) else r for p, r in v.items()} for k, v in matrix.items()},
              open(os.path.join(SEEDED, 'matrix.json'), 'w'), indent=1)

if __name__ == '__main__':
    os.makedirs(SCR, exist_ok=True)
    if sys.argv[1] == 'import':
        do_import(*(sys.argv[2:4]))
    else:
        do_run(sys.argv[2] if len(sys.argv) > 2 else None)
    shutil.rmtree(SCR, ignore_errors=True)
