"""dev tool: run the self-validation corpus for properties and print one line per variant
usage: python -B tools/st.py C05 [C01 ...] [--only substr] [--show]"""
import sys, os, concurrent.futures
sys.path.insert(0, os.path.dirname(os.path.dirname(os.path.abspath(__file__))))
sys.setrecursionlimit(10000)
from sa.selftest import _job
from sa.variants import VARIANTS

def main():
    args = [a for a in sys.argv[1:] if not a.startswith('--')]
    only = None
    if '--only' in sys.argv:
        only = sys.argv[sys.argv.index('--only') + 1]
        args = [a for a in args if a != only]
    show = '--show' in sys.argv
    repo = os.environ.get('DSW_REPO', '/repo')
    jobs = []
    for prop in args:
        for vid, v in VARIANTS.items():
            if prop in v['props'] and (only is None or only in vid):
                jobs.append((prop, repo, vid))
    bad = 0
    with concurrent.futures.ProcessPoolExecutor(max_workers=16) as ex:
        for (prop, _, _), (vid, status, code, lines) in zip(jobs, ex.map(_job, jobs, chunksize=1)):
            v = VARIANTS[vid]
            if status == 'inapplicable':
                verdict = 'INAPPLICABLE'
            elif v['kind'] == 'benign':
                verdict = 'ok-silent' if code == 0 else 'FALSE-ALARM(%s)' % code
            else:
                verdict = {1: 'detected', 0: 'MISSED', 2: 'UNDECIDED'}[code]
                if code == 1 and v.get('rule') and not any(('rule=' + r) in l for l in lines for r in v['rule'].split('|')):
                    verdict = 'detected-by-other-rule'
            flag = verdict.isupper() or verdict.startswith('FALSE') or verdict.startswith('MISSED')
            if flag: bad += 1
            print('%-4s %-40s %-24s %s' % (prop, vid, verdict, v.get('rule') or ''))
            if show or flag or verdict == 'detected-by-other-rule':
                for l in lines[:6]:
                    print('       ' + l[:230])
    print('variants: %d  attention: %d' % (len(jobs), bad))

if __name__ == '__main__':
    main()
