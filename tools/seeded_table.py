"""write /verif/seeded/MATRIX.md from the meta.json files and the last matrix.json"""
import json, os
S = os.path.join(os.path.dirname(os.path.dirname(os.path.abspath(__file__))), 'seeded')
m = json.load(open(os.path.join(S, 'matrix.json')))
rows = []
for sid in sorted(m):
    meta = json.load(open(os.path.join(S, sid, 'meta.json')))
    own = sid.split('-')[0]
    res = m[sid]
    o = res.get(own)
    verdict = {0: 'MISSED', 1: 'detected', 2: 'undecided (exit 2)'}.get(o[0]) if isinstance(o, list) else str(o)
    own_rules = ', '.join(o[1]) if isinstance(o, list) else ''
    others = sorted(p for p, r in res.items() if p != own and isinstance(r, list) and r[0] == 1)
    summ = (meta.get('summary') or '').replace('|', '/').replace('\n', ' ')
    if len(summ) > 230:
        summ = summ[:227] + '...'
    rows.append('| %s | %s | %s | %s | %s |' % (sid, summ, verdict, own_rules, ' '.join(others)))
with open(os.path.join(S, 'MATRIX.md'), 'w') as fh:
    fh.write('# Independently seeded breaking changes and the checks that report them\n\n'
             'Each row is a change written by a fresh sub-agent that saw only the property text and its own scratch worktree; '
             'it keeps the 30 tests green and comes with a demo that fails with the change and passes without it '
             '(confirmed by the main session, see meta.json). `own check` is the quick check of the property the change was '
             'written against; `also reported by` lists the other properties whose check exits 1 on it. Regenerate with '
             '`python -B tools/seeded.py run && python -B tools/seeded_table.py`.\n\n'
             '| id | change | own check | rules | also reported by |\n|---|---|---|---|---|\n' + '\n'.join(rows) + '\n')
det = sum(1 for r in rows if '| detected |' in r)
print(len(rows), 'rows;', det, 'detected by own check')
