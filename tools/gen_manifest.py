"""regenerate /verif/MANIFEST.json from the table below (only properties with a built check are claimed)"""
import json, os, sys
sys.path.insert(0, os.path.dirname(os.path.dirname(os.path.abspath(__file__))))
from sa.props import PROPERTIES

TECH = ("repo-specific static analysis: AST + statement CFG, reaching definitions / SSA-style term reconstruction, "
        "guard tables over finite abstract domains (out-degree, entry class, orderings), gated path-wise value "
        "reconstruction, effect/alias and exception-escape analysis")
TEXT = {
 'C01': ("Encoder and decoder agree, per mode and out-degree, on the live-arc predicate, the dispatch table, the digit<->arc selection and its inverse, radix, digit order and alphabet; every walk step follows a live arc; look-ahead on the message cursor is guarded; the check is taken over the emitted strand and is defined for the empty strand. The round-trip equality itself is not executed or proved.",
         "calculus_* helpers exact (C15, not decided); numpy where/argsort semantics; analyser tables", "4 C01"),
 'C02': ("Mask = filter verdict for all 4^k k-mers; arcs only between accepted vertices in the column of the appended letter; the encoder only follows stored live arcs, so every window of start k-mer + strand is an accepted vertex; ordering table of the built-in filter's constructor; for the built-in filter the structural necessary conditions of sentence 2 (all windows enumerated, every check reads the selected string, no rule skipped); no state survives a call in the closure. The equivalence whole-sequence <=> window conjunction on strings is not evaluated.",
         "filter verdict is a function of its argument; successor closed forms (R-SHIFT)", "4 C02"),
 'C03': ("Only ValueError escapes graph generation (incl. networkx), the mask is never written, the observed length is plumbed to every neighbour computation, keep-iff->=t in both trimmers, both trimming loops feed their result back and stop only on no change, the pruning loop's exit is not decided from one arbitrary cycle, the cycle-search graph holds only out-degree-1 arcs and is rebuilt after every removal, the cascade clears the arcs of the right predecessors, remove_useless keeps only surviving keys, the vertex description is recomputed after the last removal, no state survives a call. Maximality and monotonicity are fixed-point semantics over run-time data and are not decided.",
         "networkx find_cycle contract (one cycle or NetworkXNoCycle)", "4 C03"),
 'C04': ("The strand is a walk; the out-degree error is raised only at dead vertices (and out-degree 3 in fast mode); every branching step strictly decreases the loop variant, which is written only in the information arm. Termination on out-degree-1 chains and the length bounds depend on the generated graph (C03's undecided part) and are not decided.",
         "C03's semantic guarantee for out-degree-1 chains", "4 C04"),
 'C05': ("The constructs that determine the strand format have the documented normal forms: live predicate, d-th live arc / d-th smallest table entry restricted to live arcs, radix = out-degree, remainder-first emission and reversed Horner, two bits most-significant-first / one bit, alphabet order, width argument; decided per mode x out-degree x table flag on every path of the four coder loops. Equality with a reference coder on concrete inputs is not evaluated.",
         "C15 exactness of the decimal-string helpers; numpy where/argsort semantics", "4 C05"),
 'C06': ("Every transition of decode is guarded by membership of the symbol among the live letters with ValueError on the other arm; a dead vertex raises ValueError; the check comparison dominates decoding; no other exception type escapes explicitly; the result has exactly the requested length. Implicit index errors on malformed graphs are not modelled.",
         "well-formed accessor and start vertex; explicit raises only", "4 C06"),
 'C07': ("First symbol = sum of values mod 4; the rest = sum of 0-based ascent positions mod 4^(n-1) rendered at width n-1; integer-typed for the empty strand; exactly n symbols. The edit-detection consequence is the arithmetic corollary and is not evaluated on strings.",
         "number_to_dna pads and never truncates (R-CONV)", "4 C07"),
 'C08': ("The offsets of trim / chunk / look-back / resume / step tile the strand and align the recalled vertex with the substituted position for every k >= 1; substitution candidates do not depend on has_indel; candidates are appended only after their tail walk stayed on live arcs. Presence of the original among the candidates is a semantic claim over graphs and edit sets and is not decided.",
         "-", "4 C08"),
 'C09': ("Every returned list is sorted and duplicate-free by construction; when a check is supplied every candidate on both return paths passed the comparison with set_vt(candidate, len(vt_check)). 'A clean strand is returned unchanged' is not decided.",
         "-", "4 C09"),
 'C10': ("No recursion in the closure of repair_dna, every for iterates a collection its body does not extend, every path of every while advances its variant, the candidate product is dominated by the heap guard, no explicit raise is reachable. Implicit exceptions and the polynomial degree are not decided.",
         "numpy and str primitives terminate", "4 C10"),
 'C11': ("The filter is called through its documented interface for every index; mask entry = verdict on that index's k-mer; ValueError iff none accepted; valid-graph arcs only between marked vertices in the column of the successor; ValueError on an empty mask.",
         "filter determinism", "4 C11"),
 'C12': ("only_last only selects the judged string; the reverse complement is the reversed Watson-Crick complement; the forbidden run has length r+1; all windows are enumerated; GC bounds are inclusive; the short-string arm uses hi*k and (1-lo)*k. The equivalence with the documented predicate on strings and floating-point products are not decided.",
         "-", "4 C12"),
 'C13': ("Successor / predecessor closed forms equal shift-append / shift-prepend for all (vertex, letter, k); the observed length in scope is plumbed to every neighbour computation; every accessor store puts the j-th successor or -1 in column j; alphabet ACGT; radix 4 with left pad A.",
         "-", "4 C13"),
 'C14': ("All converters and queries use the exact live predicate; latter map -> column = successor mod 4; the matrix row comprehension is position-preserving; an illegal matrix raises ValueError before any store; both arms of the leaf query iterate the same depth over live successors. Round-trip equality is not evaluated.",
         "-", "4 C14"),
 'C16': ("The string and integer code paths of each conversion, and each inverse pair, use the same radix, digit order, pad symbol and side, and width. Exactness rests on C15 and is not decided.",
         "C15", "4 C16"),
 'C18': ("Rows start as the identity, are only permuted, every draw follows seed(random_seed), shape 4^k x 4, no effect except on the global generator; the restricted argsort makes digits <-> live arcs a bijection.",
         "numpy.random.shuffle permutes in place and is a function of the generator state", "4 C18"),
 'C19': ("One -1 store into the accessor per call, the same arc removed from the latter map, the emptied entry deleted; score stores only on existing arcs, in the accessor's shape. Maximality of the removed arc's score is not decided.",
         "-", "4 C19"),
 'C20': ("No write effect reaches any argument (the documented in-place pair excepted), no module state, the global RNG is touched only by the two randomised calls, hash-ordered sets reach results only through sorted, verbose influences only print / monitor calls whose arguments are well typed. Other exceptions inside print / monitor are not decided.",
         "effect tables for numpy / builtins (listed in the evidence)", "4 C20"),
}
NA = {
 'C15': "string big-number exactness is a loop invariant over digit/carry values on unbounded strings: needs inductive numeric reasoning or execution, no clause of it is visible in the shape of the code (DESIGN.md section 5)",
 'C17': "convergence and the 1e-4 bound of a floating-point power iteration are numerical behaviour; no structural clause beyond the trivial arc-less early return (DESIGN.md section 5)",
}

def main():
    checks = []
    for pid in sorted(PROPERTIES):
        text, note, ref = TEXT[pid]
        checks.append({
            'property_id': pid,
            'quick_cmd': './check %s --tier quick' % pid,
            'thorough_cmd': './check %s --tier thorough' % pid,
            'evidence_file': '/verif/evidence/%s.json' % pid,
            'replay_cmd_template': './check %s --replay {path}' % pid,
            'engine': 'sa',
            'level_claimed': {'category': 'other', 'text': text, 'design_ref': 'DESIGN.md section ' + ref},
            'level_note': note,
            'technique': TECH,
        })
    na = [{'property_id': k, 'reason': v} for k, v in sorted(NA.items())]
    for pid in sorted(TEXT):
        if pid not in PROPERTIES:
            na.append({'property_id': pid, 'reason': 'check not built yet in this round (planned: DESIGN.md section 4 %s)' % pid})
    na.sort(key=lambda d: d['property_id'])
    m = {
        'version': 1,
        'setup_cmd': 'cd /verif && (if [ -x /venv/bin/python ]; then /venv/bin/python -B -m sa.setup; else python3 -B -m sa.setup; fi)',
        'hooks': {'guard': 'DSW_VERIF_HOOKS', 'enable': 'no hooks: the analyser only reads /repo source; nothing in /repo is instrumented',
                  'baseline_off_cmd': 'cd /repo && /venv/bin/python -m pytest -ra -q -p no:cacheprovider --timeout=900 --continue-on-collection-errors',
                  'source_commits': [], 'add_only': True},
        'engines': [{'name': 'sa', 'path': '/verif/sa', 'serves_properties': sorted(PROPERTIES),
                     'kind_free_text': 'custom static analyser for the dsw package (stdlib ast only; nothing in /repo is imported or executed)'}],
        'checks': checks,
        'not_applicable': na,
        'notes': 'exit 0 = every static obligation discharged (KNOWN-FINDING lines for listed findings); exit 1 = VIOLATION with a structural witness; exit 2 = ANALYSIS-ERROR (construct left the decidable fragment / anchor lost) - never a violation. known findings: /verif/known_findings.json',
    }
    with open(os.path.join(os.path.dirname(os.path.dirname(os.path.abspath(__file__))), 'MANIFEST.json'), 'w') as fh:
        json.dump(m, fh, indent=1)
    print('claimed', sorted(PROPERTIES), 'not_applicable', [d['property_id'] for d in na])

main()
