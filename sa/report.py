"""Obligations, verdict policy (exit 0 / 1 / 2), evidence and replay files, known findings."""
import json
import os
import sys
import time

from .core import AnalysisError

VERIF = os.path.dirname(os.path.dirname(os.path.abspath(__file__)))
EVIDENCE_DIR = os.path.join(VERIF, 'evidence')
KNOWN_FILE = os.path.join(VERIF, 'known_findings.json')


class Ob:
    __slots__ = ('rule', 'func', 'role', 'where', 'verdict', 'detail', 'extracted', 'expected', 'nontrivial',
                 'inputs')

    def __init__(self, rule, func, role, where, verdict, detail='', extracted=None, expected=None,
                 nontrivial=True, inputs=None):
        self.rule, self.func, self.role, self.where, self.verdict = rule, func, role, where, verdict
        self.detail, self.extracted, self.expected, self.nontrivial, self.inputs = \
            detail, extracted, expected, nontrivial, inputs

    @property
    def key(self):
        return '%s:%s:%s' % (self.rule, self.func, self.role)

    def as_dict(self):
        d = {'rule': self.rule, 'function': self.func, 'role': self.role, 'where': self.where,
             'verdict': self.verdict, 'key': self.key}
        if self.detail:
            d['detail'] = self.detail
        if self.extracted is not None:
            d['extracted'] = self.extracted
        if self.expected is not None:
            d['expected'] = self.expected
        if self.inputs:
            d['affected_inputs'] = self.inputs
        return d


class Run:
    """collects the obligations of one property check"""

    def __init__(self, prop, tier='quick'):
        self.prop, self.tier = prop, tier
        self.obs = []
        self.notes = []
        self.errors = []
        self.rules_applied = {}       # rule -> one-line statement of what it decides
        self.counters = {'functions': 0, 'call_sites': 0, 'paths': 0, 'cases': 0}
        self.trusted = set()
        self.assumptions = []
        self.t0 = time.time()

    # ------------------------------------------------------------------ recording
    def rule(self, name, what):
        self.rules_applied[name] = what

    def _add(self, verdict, rule, func, role, where, detail, **kw):
        fq = func if isinstance(func, str) else func.fq
        if not isinstance(where, str):
            where = func.where(where) if not isinstance(func, str) else str(where)
        ob = Ob(rule, fq, role, where, verdict, detail, **kw)
        self.obs.append(ob)
        return ob

    def ok(self, rule, func, role, where, detail='', **kw):
        return self._add('ok', rule, func, role, where, detail, **kw)

    def refute(self, rule, func, role, where, detail='', **kw):
        return self._add('refuted', rule, func, role, where, detail, **kw)

    def undecided(self, rule, func, role, where, detail='', **kw):
        return self._add('undecided', rule, func, role, where, detail, **kw)

    def check(self, cond, rule, func, role, where, detail='', bad_detail=None, **kw):
        if cond:
            return self.ok(rule, func, role, where, detail, **kw)
        return self.refute(rule, func, role, where, bad_detail or detail, **kw)

    def count(self, what, n=1):
        self.counters[what] = self.counters.get(what, 0) + n

    def floor(self, rule, what, found, minimum):
        """a rule that matches fewer instances than confirmed by hand has lost its anchor"""
        if found < minimum:
            raise AnalysisError("rule %s lost its anchor: %s - found %d, floor %d" % (rule, what, found, minimum))


def load_known():
    if not os.path.exists(KNOWN_FILE):
        return []
    with open(KNOWN_FILE, encoding='utf-8') as fh:
        return json.load(fh).get('findings', [])


def finish(run, project, error=None, seed=0, selftest=None, write=True, quiet=False, only_key=None):
    """print the verdict lines, write evidence + replay files, return the exit code"""
    known = {(k['property'], k['key']): k for k in load_known() if k.get('status') == 'known'}
    refuted = [o for o in run.obs if o.verdict == 'refuted']
    undecided = [o for o in run.obs if o.verdict == 'undecided']
    okays = [o for o in run.obs if o.verdict == 'ok']
    if only_key is not None:
        refuted = [o for o in refuted if o.key == only_key]
    new, listed = [], []
    for o in refuted:
        (listed if (run.prop, o.key) in known else new).append(o)
    out = []
    seen = set()
    for o in listed:
        if o.key in seen:
            continue
        seen.add(o.key)
        out.append("KNOWN-FINDING: property=%s %s [%s at %s]" % (run.prop, known[(run.prop, o.key)]['what'],
                                                                 o.key, o.where))
    replay_paths = []
    if new and write:
        os.makedirs(os.path.join(EVIDENCE_DIR, 'replay'), exist_ok=True)
    for i, o in enumerate(new):
        path = os.path.join(EVIDENCE_DIR, 'replay', '%s-%d.json' % (run.prop, i))
        if write:
            units = {u['file']: u['sha256'] for u in project.units()} if project else {}
            with open(path, 'w', encoding='utf-8') as fh:
                json.dump({'property': run.prop, 'obligation': o.as_dict(), 'units': units}, fh, indent=1)
        replay_paths.append(path)
        out.append("VIOLATION property=%s replay=%s" % (run.prop, path))
        out.append("  rule=%s function=%s role=%s at %s" % (o.rule, o.func, o.role, o.where))
        if o.detail:
            out.append("  %s" % o.detail)
        if o.inputs:
            out.append("  affected inputs: %s" % o.inputs)
    code = 0
    if new:
        code = 1
    elif error is not None or undecided:
        code = 2
    if error is not None:
        out.append("ANALYSIS-ERROR property=%s %s" % (run.prop, error))
    for o in undecided:
        out.append("ANALYSIS-ERROR property=%s undecidable obligation %s at %s: %s"
                   % (run.prop, o.key, o.where, o.detail))
    if code == 0:
        out.append("OK property=%s obligations=%d discharged=%d known_findings=%d"
                   % (run.prop, len(run.obs), len(okays), len(seen)))
    if not quiet:
        print('\n'.join(out))
        sys.stdout.flush()
    if write:
        write_evidence(run, project, okays, refuted, undecided, listed, error, seed, selftest)
    return code, out


def write_evidence(run, project, okays, refuted, undecided, listed, error, seed, selftest):
    os.makedirs(EVIDENCE_DIR, exist_ok=True)
    nontrivial = {(o.rule, o.func, o.role) for o in run.obs if o.nontrivial}
    samples = [o.as_dict() for o in run.obs]
    cov = {
        'explanation': "Static analysis of /repo's current source (ast, statement CFG, reaching definitions, "
                       "term reconstruction, finite-domain guard tables). Nothing in /repo is imported or run. "
                       "Rules applied: " + '; '.join('%s - %s' % kv for kv in sorted(run.rules_applied.items())),
        'obligations': len(run.obs),
        'discharged': len(okays) + len(listed),
        'evaluations': max(len(run.obs), 1),
        'distinct_nontrivial': len(nontrivial),
        'rule': "one obligation per (rule, function, role) instance found by data-flow role recovery on the "
                "current tree; non-trivial = the obligation involved a guard table, a term comparison, a path "
                "enumeration or an effect/escape computation (mere presence checks are not counted)",
        'samples': samples,
        'units': project.units() if project else [],
        'functions': run.counters.get('functions', 0),
        'call_sites': run.counters.get('call_sites', 0),
        'paths': run.counters.get('paths', 0),
        'abstract_cases': run.counters.get('cases', 0),
        'checker_cmd': './check %s --tier %s' % (run.prop, run.tier),
        'trusted_base': sorted(run.trusted) + ["the analyser under /verif/sa (unverified Python)",
                                               "CPython's ast module as the grammar of the analysed tree"],
        'refuted': [o.as_dict() for o in refuted],
        'undecided': [o.as_dict() for o in undecided],
        'known_findings_matched': sorted({o.key for o in listed}),
        'exhaustive': False,
    }
    if error is not None:
        cov['analysis_error'] = str(error)
    if selftest is not None:
        cov['selftest'] = selftest
    if run.notes:
        cov['notes'] = run.notes
    ev = {
        'property_id': run.prop,
        'tier': run.tier,
        'seed': int(seed),
        'level': 'other',
        'coverage': cov,
        'assumptions': run.assumptions,
        'violations': len(refuted) - len(listed),
        'wall_s': round(time.time() - run.t0, 3),
    }
    path = os.path.join(EVIDENCE_DIR, '%s.json' % run.prop)
    tmp = path + '.tmp'
    with open(tmp, 'w', encoding='utf-8') as fh:
        json.dump(ev, fh, indent=1, default=str)
    os.replace(tmp, path)
