"""E7: evaluation of guard terms over finite abstract domains (no execution of repository code).

``feval(term, atom)`` evaluates a term with Python semantics where ``atom(term)`` supplies the value
of abstract atoms (an out-degree, an accessor entry class, a boolean mode flag ...).  Anything that
cannot be evaluated is UNKNOWN; and/or/not are three-valued.
"""
import operator

UNKNOWN = type('Unknown', (), {'__repr__': lambda s: 'UNKNOWN', '__bool__': lambda s: False})()

_CMP = {'==': operator.eq, '!=': operator.ne, '<': operator.lt, '<=': operator.le, '>': operator.gt,
        '>=': operator.ge, 'is': operator.is_, 'is not': operator.is_not,
        'in': lambda a, b: a in b, 'not in': lambda a, b: a not in b}
_BIN = {'+': operator.add, '-': operator.sub, '*': operator.mul, '//': operator.floordiv, '%': operator.mod,
        '**': operator.pow, '/': operator.truediv, '<<': operator.lshift, '>>': operator.rshift,
        '&': operator.and_, '|': operator.or_, '^': operator.xor}


def feval(t, atom):
    v = atom(t)
    if v is not UNKNOWN:
        return v
    k = t[0]
    if k == 'c':
        return t[1]
    if k == 'cmp':
        l, r = feval(t[2], atom), feval(t[3], atom)
        if l is UNKNOWN or r is UNKNOWN:
            return UNKNOWN
        try:
            return bool(_CMP[t[1]](l, r))
        except Exception:
            return UNKNOWN
    if k == 'bool':
        vals = [feval(x, atom) for x in t[2:]]
        if t[1] == 'and':
            if any(v is not UNKNOWN and not v for v in vals):
                return False
            if all(v is not UNKNOWN for v in vals):
                return True
            return UNKNOWN
        if any(v is not UNKNOWN and v for v in vals):
            return True
        if all(v is not UNKNOWN for v in vals):
            return False
        return UNKNOWN
    if k == 'un':
        x = feval(t[2], atom)
        if x is UNKNOWN:
            return UNKNOWN
        if t[1] == 'not':
            return not x
        if t[1] == '-':
            try:
                return -x
            except Exception:
                return UNKNOWN
        return UNKNOWN
    if k == 'bin':
        l, r = feval(t[2], atom), feval(t[3], atom)
        if l is UNKNOWN or r is UNKNOWN or t[1] not in _BIN:
            return UNKNOWN
        try:
            return _BIN[t[1]](l, r)
        except Exception:
            return UNKNOWN
    if k == 'call' and t[1][0] == 'attr' and t[1][2] == 'get' and 1 <= len(t[2]) <= 2 and not t[3]:
        base = feval(t[1][1], atom)
        args = [feval(a, atom) for a in t[2]]
        if base is UNKNOWN or not isinstance(base, dict) or any(a is UNKNOWN for a in args):
            return UNKNOWN
        return base.get(*args)
    if k == 'call':
        fn = t[1]
        if fn[0] == 'g' and fn[1] in ('builtins.int', 'builtins.bool', 'builtins.len', 'builtins.abs',
                                      'builtins.str', 'numpy.abs') and len(t[2]) == 1 and not t[3]:
            if fn[1] == 'builtins.len' and t[2][0][0] in ('list', 'tuple') and not any(x[0] == 'star' for x in t[2][0][1:]):
                return len(t[2][0]) - 1          # the length of a display does not depend on its items
            x = feval(t[2][0], atom)
            if x is UNKNOWN:
                return UNKNOWN
            try:
                return {'builtins.int': int, 'builtins.bool': bool, 'builtins.len': len, 'builtins.abs': abs,
                        'builtins.str': str, 'numpy.abs': abs}[fn[1]](x)
            except Exception:
                return UNKNOWN
        if fn[0] == 'g' and fn[1] in ('builtins.round', 'numpy.round', 'numpy.around') and 1 <= len(t[2]) <= 2 and not t[3]:
            vals = [feval(a, atom) for a in t[2]]
            if any(v is UNKNOWN for v in vals):
                return UNKNOWN
            try:
                return round(*vals)
            except Exception:
                return UNKNOWN
        if fn[0] == 'g' and fn[1] in ('math.floor', 'math.ceil', 'math.trunc') and len(t[2]) == 1 and not t[3]:
            import math
            x = feval(t[2][0], atom)
            if x is UNKNOWN:
                return UNKNOWN
            try:
                return getattr(math, fn[1].split('.')[1])(x)
            except Exception:
                return UNKNOWN
        if fn[0] == 'g' and fn[1] == 'builtins.range' and 1 <= len(t[2]) <= 3 and not t[3]:
            vals = [feval(a, atom) for a in t[2]]
            if any(v is UNKNOWN or not isinstance(v, int) for v in vals) or (len(vals) == 3 and vals[2] == 0):
                return UNKNOWN
            r = range(*vals)
            return list(r) if len(r) <= 4096 else UNKNOWN
        if fn[0] == 'g' and fn[1] in ('builtins.list', 'builtins.tuple', 'builtins.sorted') and len(t[2]) == 1 and not t[3]:
            x = feval(t[2][0], atom)
            if x is UNKNOWN or not isinstance(x, (list, tuple)):
                return UNKNOWN
            return sorted(x) if fn[1] == 'builtins.sorted' else list(x)
        # x.astype(bool|int)
        if fn[0] == 'attr' and fn[2] == 'astype' and len(t[2]) == 1:
            x = feval(fn[1], atom)
            if x is UNKNOWN:
                return UNKNOWN
            ty = t[2][0]
            if ty == ('g', 'builtins.bool'):
                return bool(x)
            if ty == ('g', 'builtins.int'):
                return int(x)
            return UNKNOWN
        return UNKNOWN
    if k == 'ifexp':
        c = feval(t[1], atom)
        if c is UNKNOWN:
            return UNKNOWN
        return feval(t[2] if c else t[3], atom)
    if k in ('tuple', 'list'):
        vals = [feval(x, atom) for x in t[1:]]
        if any(v is UNKNOWN for v in vals):
            return UNKNOWN
        return tuple(vals) if k == 'tuple' else list(vals)
    if k == 'dict':
        out = {}
        for kv in t[1:]:
            if not (isinstance(kv, tuple) and len(kv) == 2):
                return UNKNOWN
            a, b = feval(kv[0], atom), feval(kv[1], atom)
            if a is UNKNOWN or b is UNKNOWN:
                return UNKNOWN
            try:
                out[a] = b
            except TypeError:
                return UNKNOWN
        return out
    if k == 'sub':
        base, idx = feval(t[1], atom), feval(t[2], atom)
        if base is UNKNOWN or idx is UNKNOWN or not isinstance(base, (dict, tuple, list, str)):
            return UNKNOWN
        try:
            return base[idx]
        except Exception:
            return UNKNOWN          # a KeyError / IndexError path is not a value
    return UNKNOWN


def table(t, atom_term_pred, domain):
    """decision table of term t when the atom recognised by atom_term_pred ranges over domain"""
    out = []
    for val in domain:
        out.append(feval(t, lambda x, val=val: val if atom_term_pred(x) else UNKNOWN))
    return out
