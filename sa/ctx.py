"""Analysis context shared by the rules: project, kinds, call graph, normalised path conditions,
loop-body path enumeration."""
import ast

from .core import AnalysisError, Project, TermBuilder, walk_term, call_name, show, is_call
from .kinds import Kinds


class Ctx:
    def __init__(self, project, run):
        self.p, self.run = project, run
        for f in project.funcs.values():
            f.build()
        self.kinds = Kinds(project)
        self.kinds.ctx = self
        for f in project.funcs.values():
            self.kinds.row_names(f)
        self._calls = None
        run.counters['functions'] = len(project.funcs)

    # ------------------------------------------------------------------ expressions of a node
    @staticmethod
    def roots(nd):
        st = nd.stmt
        if nd.kind in ('test', 'while'):
            return [nd.ast]
        if nd.kind == 'for':
            return [st.iter]
        if nd.kind == 'with':
            return [it.context_expr for it in st.items]
        if nd.kind != 'stmt':
            return []
        if isinstance(st, ast.Assign):
            out = [st.value]
            for t in st.targets:
                out += [s for s in ast.walk(t) if isinstance(s, (ast.Subscript, ast.Attribute))
                        and isinstance(s.ctx, ast.Store)]
            return out
        if isinstance(st, ast.AugAssign):
            return [st.value, st.target]
        if isinstance(st, ast.AnnAssign):
            return [st.value] if st.value is not None else []
        if isinstance(st, (ast.Expr, ast.Return)):
            return [st.value] if st.value is not None else []
        if isinstance(st, ast.Raise):
            return [x for x in (st.exc, st.cause) if x is not None]
        if isinstance(st, ast.Assert):
            return [st.test]
        if isinstance(st, ast.Delete):
            return list(st.targets)
        return []

    def root_terms(self, f):
        """(node, ast root, term) for every root expression of every CFG node of f"""
        cache = getattr(f, '_root_terms', None)
        if cache is None:
            cache = []
            for nd in f.nodes:
                for r in self.roots(nd):
                    cache.append((nd, r, self._store_term(f, r, nd)))
            f._root_terms = cache
        return cache

    @staticmethod
    def _store_term(f, r, nd):
        if isinstance(r, (ast.Subscript, ast.Attribute)) and isinstance(r.ctx, (ast.Store, ast.Del)):
            # evaluate the store target as if it were a load, at the node's IN state
            return f.term(_as_load(r), nd)
        return f.term(r, nd)

    def all_subterms(self, f):
        """(node, subterm) for every sub-term occurrence, first occurrence first"""
        for nd, r, t in self.root_terms(f):
            for s in walk_term(t):
                yield nd, s

    # ------------------------------------------------------------------ call graph
    def calls(self):
        """fq -> list of (node, ast.Call, callee Func or None, qualified name or None)"""
        if self._calls is None:
            self._calls = {}
            for fq, f in self.p.funcs.items():
                lst = []
                for nd in f.nodes:
                    for r in self.roots(nd):
                        for c in ast.walk(r):
                            if isinstance(c, ast.Call):
                                q, callee = self.resolve_call(f, c)
                                lst.append((nd, c, callee, q))
                self._calls[fq] = lst
            self.run.counters['call_sites'] = sum(len(v) for v in self._calls.values())
        return self._calls

    def resolve_call(self, f, c):
        fn = c.func
        if isinstance(fn, ast.Name):
            if fn.id in f.locals:
                return None, None
            q = f.module.resolve_global(fn.id)
            return q, self.p.resolve_func(q)
        if isinstance(fn, ast.Attribute):
            # module.attr
            if isinstance(fn.value, ast.Name) and fn.value.id not in f.locals:
                base = f.module.resolve_global(fn.value.id)
                q = base + '.' + fn.attr
                return q, self.p.resolve_func(q)
            # self.method
            if isinstance(fn.value, ast.Name) and fn.value.id == 'self' and f.cls is not None:
                q = f.module.name + '.' + f.cls.name + '.' + fn.attr
                return q, self.p.funcs.get(q)
            if isinstance(fn.value, ast.Call) and isinstance(fn.value.func, ast.Name) and fn.value.func.id == 'super':
                return 'super.' + fn.attr, None
            return '.' + fn.attr, None
        return None, None

    def param_values(self, callee, pname):
        """constant values passed for parameter `pname` at the remaining call sites of a (private) dsw function"""
        vals, unknown = set(), False
        for fq, lst in self.calls().items():
            for nd, c, cal, q in lst:
                if cal is not callee:
                    continue
                f = self.p.funcs[fq]
                a = None
                if pname in callee.positional:
                    i = callee.positional.index(pname)
                    if i < len(c.args):
                        a = c.args[i]
                for k in c.keywords:
                    if k.arg == pname:
                        a = k.value
                if a is None:
                    d = callee.defaults.get(pname)
                    if isinstance(d, ast.Constant):
                        vals.add(d.value)
                    else:
                        unknown = True
                    continue
                t = f.term(a, nd)
                if t[0] == 'c':
                    vals.add(t[1])
                else:
                    unknown = True
        return vals, unknown

    def param_arg_terms(self, callee, pname):
        """(caller, node, term) of the argument passed for `pname` at every resolved call site of a dsw function"""
        out = []
        for fq, lst in self.calls().items():
            for nd, c, cal, q in lst:
                if cal is not callee:
                    continue
                f = self.p.funcs[fq]
                a = None
                if pname in callee.positional:
                    i = callee.positional.index(pname)
                    if callee.cls is not None and callee.positional and callee.positional[0] == 'self':
                        i -= 1
                    if 0 <= i < len(c.args):
                        a = c.args[i]
                for k in c.keywords:
                    if k.arg == pname:
                        a = k.value
                if a is not None:
                    out.append((f, nd, f.term(a, nd)))
        return out

    def closure(self, *fqs):
        """functions reachable from the given entry points through resolved dsw calls"""
        calls = self.calls()
        seen, stack = set(), [q for q in fqs]
        while stack:
            q = stack.pop()
            if q in seen or q not in self.p.funcs:
                continue
            seen.add(q)
            for nd, c, callee, _ in calls[q]:
                if callee is not None:
                    stack.append(callee.fq)
                    # instantiating a class runs __init__ / calling an instance runs __call__
            for nd, c, callee, qn in calls[q]:
                if callee is None and qn:
                    for suffix in ('.__init__', '.__call__'):
                        if qn + suffix in self.p.funcs:
                            stack.append(qn + suffix)
        return seen

    def reachable(self):
        """functions that the public API can still reach (private helpers whose every call was inlined are not)"""
        if getattr(self, '_reachable', None) is None:
            roots = []
            for local, q in self.p.exports.items():
                fn = self.p.resolve_func(q)
                if fn is not None:
                    roots.append(fn.fq)
            for fq, f in self.p.funcs.items():
                if f.cls is not None and (not f.name.startswith('_') or f.name.startswith('__')):
                    roots.append(fq)
            clo = self.closure(*roots)
            # methods called through self. are reached through their class
            for fq, f in self.p.funcs.items():
                if f.cls is not None:
                    for nd, c, callee, q in self.calls().get(fq, []):
                        if callee is not None:
                            clo |= self.closure(callee.fq)
            self._reachable = clo | set(roots)
        return self._reachable

    def check_acyclic(self):
        calls = self.calls()
        color = {}

        def dfs(q, path):
            color[q] = 1
            for nd, c, callee, _ in calls.get(q, []):
                if callee is None:
                    continue
                r = callee.fq
                if color.get(r) == 1:
                    return path + [q, r]
                if r not in color:
                    x = dfs(r, path + [q])
                    if x:
                        return x
            color[q] = 2
            return None
        for q in self.p.funcs:
            if q not in color:
                cyc = dfs(q, [])
                if cyc:
                    return cyc
        return None

    # ------------------------------------------------------------------ path conditions
    def conds(self, f, nd):
        """normalised path conditions of node nd: list of (atom term, polarity)"""
        out = []
        for test, pol, nid in nd.conds:
            t = f.term(test, f.nodes[nid])
            out.extend(flatten_cond(t, pol))
        return out

    def simplify_under(self, f, t, nd, extra=()):
        """conditional expressions in t whose test is decided by the path conditions of nd are replaced by the arm taken"""
        def norm(atom, pol):
            if atom[0] == 'cmp' and atom[1] == 'is not':
                return ('cmp', 'is', atom[2], atom[3]), not pol
            if atom[0] == 'cmp' and atom[1] == '!=':
                return ('cmp', '==', atom[2], atom[3]), not pol
            return atom, pol
        here = dict(norm(a, p) for a, p in list(self.conds(f, nd)) + list(extra))

        def rec(x):
            if not isinstance(x, tuple):
                return x
            if x and x[0] == 'ifexp' and len(x) == 4:
                fl = flatten_cond(x[1], True)
                if len(fl) == 1:
                    a, p = norm(*fl[0])
                    if a in here:
                        return rec(x[2] if here[a] == p else x[3])
            return tuple(rec(y) for y in x)
        return rec(t)

    def feasible_alternatives(self, f, t, nd, extra=()):
        """definitions of the versioned symbol t that can be the one read at nd: a definition made under a test of
        never-rebound parameters whose opposite holds at nd is left out.  [(Def, term)] or None"""
        alts = f.alternatives(t)
        if alts is None:
            return None

        def norm(atom, pol):
            if atom[0] == 'cmp' and atom[1] == 'is not':
                return ('cmp', 'is', atom[2], atom[3]), not pol
            if atom[0] == 'cmp' and atom[1] == '!=':
                return ('cmp', '==', atom[2], atom[3]), not pol
            return atom, pol

        def stable(atom):
            return all(x[2] == 'P' for x in walk_term(atom) if x[0] == 'v')
        here = {}
        for a, p in list(self.conds(f, nd)) + list(extra):
            a, p = norm(a, p)
            if stable(a):
                here[a] = p
        out = []
        for d, term in alts:
            dead = False
            for a, p in self.conds(f, f.nodes[d.node]):
                a, p = norm(a, p)
                if stable(a) and a in here and here[a] != p:
                    dead = True
            if not dead:
                out.append((d, term))
        return out

    # ------------------------------------------------------------------ loop paths
    def body_paths(self, f, header, limit=20000):
        """simple paths from loop header `header` through its body.
        returns list of (path node ids, exit kind) with exit in back/break/return/raise/fall"""
        hid = header.id if not isinstance(header, int) else header
        body = {n.id for n in f.nodes if hid in n.loops}
        results = []
        first = [s for s in f.nodes[hid].succ if s in body]

        def rec(nid, path):
            if len(results) > limit:
                raise AnalysisError("%s: too many paths through loop at line %d" % (f.fq, f.nodes[hid].lineno))
            path = path + [nid]
            nd = f.nodes[nid]
            succs = nd.succ
            if not succs:
                results.append((path, 'dead'))
                return
            for s in succs:
                if s == hid:
                    results.append((path, 'back'))
                elif s == f.exit.id:
                    results.append((path, 'return'))
                elif s == f.raise_exit.id:
                    results.append((path, 'raise'))
                elif s not in body:
                    st = nd.stmt
                    if isinstance(st, ast.Break):
                        results.append((path, 'break'))
                    elif f.nodes[s].kind == 'except':
                        continue        # may-raise edge out of the loop: not a normal path
                    else:
                        results.append((path, 'fall'))
                elif s in path:
                    # inner loop back edge: the inner header is already on the path; leave the inner loop
                    continue
                else:
                    if f.nodes[s].kind == 'except' and not isinstance(nd.stmt, ast.Raise) and not _has_index_call(nd):
                        continue        # implicit exceptions are not path-enumerated (except X.index(y): ValueError)
                    rec(s, path)
        for s in first:
            rec(s, [])
        self.run.count('paths', len(results))
        return results


def tail_paths(f, limit=4000):
    """simple paths through the loop-free tail of f (the nodes after the last loop) that end in a return.
    -> list of paths (node ids); [] when the tail is not a clean region"""
    headers = [n.id for n in f.nodes if n.kind in ('for', 'while')]
    tail = set()
    for n in f.nodes:
        if n.loops or n.kind in ('for', 'while') or n.id in (f.exit.id, f.raise_exit.id):
            continue
        if not (f.reachable_from(n.id) & set(headers)):
            tail.add(n.id)
    entries = [i for i in sorted(tail) if any(p not in tail for p in f.nodes[i].pred) or not f.nodes[i].pred]
    out = []

    def rec(i, path):
        if len(out) > limit:
            raise AnalysisError("%s: too many paths through the tail" % f.fq)
        path = path + [i]
        for s in f.nodes[i].succ:
            if s == f.exit.id:
                out.append(path)
            elif s in tail and s not in path and f.nodes[s].kind != 'except':
                rec(s, path)
    for e in entries:
        # only entries every path into which comes from outside the tail region start a path
        rec(e, [])
    return out


def paths_between(f, src, dst, avoid=(), limit=2000):
    """simple CFG paths src .. dst (node ids, both included) that stay out of `avoid`; implicit-exception edges are not followed"""
    out = []
    avoid = set(avoid)

    def rec(i, path):
        if len(out) > limit:
            raise AnalysisError("%s: too many paths between lines %d and %d" % (f.fq, f.nodes[src].lineno, f.nodes[dst].lineno))
        path = path + [i]
        if i == dst:
            out.append(path)
            return
        for s in f.nodes[i].succ:
            if s in path or s in avoid or s in (f.exit.id, f.raise_exit.id) or f.nodes[s].kind == 'except':
                continue
            rec(s, path)
    rec(src, [])
    return out


def path_feasible(f, path, atom=None, given=()):
    """evaluate the branch tests met on `path` with the values the path itself establishes
    -> False (some test contradicts the path), True (all tests agree), None (some test is not evaluable)"""
    from .finite import feval, UNKNOWN
    events, env = walk_path(f, path)
    unknown = False
    for e in events:
        if e.kind == 'test' and e.extra is not None:
            v = feval(e.term, atom or (lambda x: UNKNOWN))
            if v is UNKNOWN:
                unknown = unknown or e.node.id not in given      # tests in `given` are the premise of the path
            elif bool(v) != e.extra:
                return False
    return None if unknown else True


def loop_vars(f, loop):
    """terms of the target names of a for loop: {name: term}"""
    out = {}
    for d in f.defs:
        if d.node == loop.id and d.kind == 'for':
            out[d.name] = TermBuilder(f, d.node).def_term(d.id)
    return out


def _has_index_call(nd):
    st = nd.stmt
    if st is None or nd.kind not in ('stmt', 'test'):
        return False
    root = nd.ast if nd.kind == 'test' else st
    for x in ast.walk(root):
        if isinstance(x, ast.Call) and isinstance(x.func, ast.Attribute) and x.func.attr == 'index':
            return True
    return False


def _as_load(node):
    class L(ast.NodeTransformer):
        def visit_Subscript(self, n):
            self.generic_visit(n)
            return ast.copy_location(ast.Subscript(n.value, n.slice, ast.Load()), n)

        def visit_Attribute(self, n):
            self.generic_visit(n)
            return ast.copy_location(ast.Attribute(n.value, n.attr, ast.Load()), n)
    import copy
    return ast.fix_missing_locations(L().visit(copy.deepcopy(node)))


_NEG = {'==': '!=', '!=': '==', '<': '>=', '>=': '<', '>': '<=', '<=': '>', 'in': 'not in', 'not in': 'in',
        'is': 'is not', 'is not': 'is'}
_CANON_POS = {'==', '<', '<=', '>', '>=', 'in', 'is'}


def flatten_cond(t, pol):
    """split a condition into atoms with polarity; negative comparison operators are flipped so
    that every atom uses one of == < <= > >= in is"""
    if t[0] == 'un' and t[1] == 'not':
        return flatten_cond(t[2], not pol)
    if t[0] == 'bool':
        if (t[1] == 'and' and pol) or (t[1] == 'or' and not pol):
            out = []
            for x in t[2:]:
                out.extend(flatten_cond(x, pol))
            return out
        return [(t, pol)]
    if t[0] == 'cmp' and t[1] not in _CANON_POS:
        return [(('cmp', _NEG[t[1]], t[2], t[3]), not pol)]
    return [(t, pol)]


# ----------------------------------------------------------------------------------------------
# gated value reconstruction along one path (no solver: names are substituted in order)
# ----------------------------------------------------------------------------------------------
class Event:
    __slots__ = ('kind', 'node', 'name', 'term', 'extra')

    def __init__(self, kind, node, name=None, term=None, extra=None):
        self.kind, self.node, self.name, self.term, self.extra = kind, node, name, term, extra

    def __repr__(self):
        return 'Event(%s %s %s L%d)' % (self.kind, self.name, show(self.term) if self.term else '', self.node.lineno)


def path_decisions(f, path, exit_kind=None):
    """[(test node, polarity)] for the branch tests met on a path"""
    out = []
    for i, nid in enumerate(path):
        nd = f.nodes[nid]
        if nd.kind not in ('test', 'while'):
            continue
        if i + 1 < len(path):
            nxt = f.nodes[path[i + 1]]
            pol = False
            for test, p, tid in nxt.conds:
                if tid == nid:
                    pol = p
                    break
            else:
                # body entry of a while carries (test, True); an `if` without else falls through on False
                pol = False
            out.append((nd, pol))
        elif exit_kind in ('back', 'fall') and nd.kind == 'test' and isinstance(nd.stmt, ast.If) and not nd.stmt.orelse:
            out.append((nd, False))     # the path leaves through the test of an if without else: the test was false
        else:
            out.append((nd, None))
    return out


def _self_increment(t, name, tb):
    """when the value term t is  <previous value of `name`> + e  with e free of `name`: the term e, else None"""
    if not (t[0] == 'bin' and t[1] in ('+', '-')):
        return None
    try:
        prev = tb.var(name)
    except Exception:
        return None
    from .rules.repair import affine, aff_sub
    a = affine(t)
    if not a or a.get(prev) != 1:
        return None
    rest = {k: v for k, v in a.items() if k != prev and not (k == 1 and v == 0)}
    if any(any(x[0] == 'v' and x[1] == name for x in walk_term(k)) for k in rest if k != 1):
        return None
    # rebuild e as a term: sum of coefficient * symbol (+ constant)
    e = None
    for k, v in sorted(rest.items(), key=lambda kv: repr(kv[0])):
        part = ('c', v) if k == 1 else (k if v == 1 else ('bin', '*', k, ('c', v)))
        e = part if e is None else ('bin', '+', e, part)
    return e if e is not None else ('c', 0)


def walk_path(f, path, env=None):
    """substitute names in order along `path`; returns (events, env).
    events: def / append / store / raise / return / expr / test"""
    env = dict(env or {})
    events = []
    decisions = dict((nd.id, pol) for nd, pol in path_decisions(f, path))
    for nid in path:
        nd = f.nodes[nid]
        tb = TermBuilder(f, nid, False, env)
        st = nd.stmt
        if nd.kind in ('test', 'while'):
            events.append(Event('test', nd, None, tb.build(nd.ast), decisions.get(nid)))
            continue
        if nd.kind == 'for':
            it = tb.build(st.iter)
            from .core import target_names, item
            from .core import mk_iter
            base = mk_iter(it, nid)
            for nm, p, _ in target_names(st.target):
                t = base
                for i in p:
                    t = item(t, i)
                env[nm] = t
                events.append(Event('def', nd, nm, t))
            continue
        if nd.kind != 'stmt':
            continue
        if isinstance(st, ast.Assign):
            new = {}
            for d in nd.defs:
                if d.kind == 'assign' and d.value is not None:
                    t = tb.build(d.value)
                    from .core import item
                    for i in d.path:
                        t = item(t, i)
                    new[d.name] = t
                    inc = _self_increment(t, d.name, tb)
                    if inc is not None:
                        # x = <x + e written through temporaries> (begin = x + 1; x = begin + k): an advance of x by e
                        events.append(Event('aug', nd, d.name, t, inc))
                    else:
                        events.append(Event('def', nd, d.name, t))
                elif d.kind == 'aug' and d.value is not None:
                    from .core import fold_bin, _BINOPS
                    val = tb.build(d.value)
                    t = fold_bin(_BINOPS[type(d.extra)], tb.var(d.name), val)
                    new[d.name] = t
                    events.append(Event('aug', nd, d.name, t, val))
                elif d.kind == 'mutate' and isinstance(d.extra, (ast.Subscript, ast.Attribute)):
                    v = d.value
                    if isinstance(v, ast.BinOp) and isinstance(v.op, ast.Add) and \
                            ast.dump(_as_load(d.extra)) == ast.dump(v.left):
                        # t[i] = t[i] + e   is   t[i] += e
                        events.append(Event('augstore', nd, d.name, tb.build(v.right), tb.build(_as_load(d.extra))))
                    else:
                        events.append(Event('store', nd, d.name, tb.build(d.value) if d.value is not None else None,
                                            tb.build(_as_load(d.extra))))
            for c in _calls_in(st.value):
                _call_event(events, nd, tb, c, env)
            env.update(new)
        elif isinstance(st, ast.AugAssign):
            from .core import fold_bin, _BINOPS
            val = tb.build(st.value)
            if isinstance(st.target, ast.Name):
                t = fold_bin(_BINOPS[type(st.op)], tb.var(st.target.id), val)
                env[st.target.id] = t
                events.append(Event('aug', nd, st.target.id, t, val))
            else:
                events.append(Event('augstore', nd, base_name_of(st.target), val, tb.build(_as_load(st.target))))
            for c in _calls_in(st.value):
                _call_event(events, nd, tb, c, env)
        elif isinstance(st, ast.Expr):
            events.append(Event('expr', nd, None, tb.build(st.value)))
            for c in _calls_in(st.value):
                _call_event(events, nd, tb, c, env)
        elif isinstance(st, ast.Return):
            events.append(Event('return', nd, None, tb.build(st.value) if st.value is not None else ('c', None)))
        elif isinstance(st, ast.Raise):
            events.append(Event('raise', nd, None, tb.build(st.exc) if st.exc is not None else None))
        elif isinstance(st, ast.Delete):
            for t in st.targets:
                if isinstance(t, ast.Name):
                    env.pop(t.id, None)
                else:
                    events.append(Event('delete', nd, base_name_of(t), tb.build(_as_load(t))))
        elif isinstance(st, (ast.Break, ast.Continue, ast.Pass)):
            events.append(Event(type(st).__name__.lower(), nd))
    return events, env


def base_name_of(t):
    from .core import base_name
    return base_name(t)


def _calls_in(expr):
    return [c for c in ast.walk(expr) if isinstance(c, ast.Call)]


def _call_event(events, nd, tb, c, env=None):
    fn = c.func
    if isinstance(fn, ast.Attribute) and fn.attr in ('append', 'add', 'insert', 'extend'):
        b = base_name_of(fn.value)
        if b is not None:
            args = tuple(tb.build(a) for a in c.args)
            events.append(Event(fn.attr, nd, b, args, tb.build(fn.value)))
            # a list display built up on this path keeps its items:  xs = [a]; xs.append(b)  ->  [a, b]
            cur = env.get(b) if env is not None and isinstance(fn.value, ast.Name) else None
            if fn.attr == 'append' and len(args) == 1 and cur is not None and cur[0] == 'list':
                env[b] = cur + (args[0],)
