"""Source-level normalisation: calls of private helpers (module-level functions that dsw/__init__.py does not export,
and methods called through ``self.``) are inlined into their callers before the analysis, so that extracting a helper or
splitting a function does not move a construct out of the function in which the rules look for it.

Only what can be inlined soundly is inlined: the call must sit where it is evaluated exactly once per execution of its
statement (not in a loop test, comprehension, lambda, boolean short-circuit or conditional expression), and the helper's
returns must all be in tail position of if/else chains (no return inside a loop, try or with).  Everything else is left
as a call.
"""
import ast
import copy
import itertools

MAX_DEPTH = 4
MAX_BODY = 60


class NotInlinable(Exception):
    pass


def contains_return(st):
    for n in ast.walk(st):
        if isinstance(n, ast.Return):
            return True
    return False


def _has_nested_scope_return(st):
    return False


def single_exit(stmts, res):
    """rewrite a statement list whose returns are in tail position into one that assigns `res` instead"""
    out = []
    for i, st in enumerate(stmts):
        if isinstance(st, ast.Return):
            val = st.value if st.value is not None else ast.Constant(None)
            out.append(ast.copy_location(ast.Assign([ast.Name(res, ast.Store())], val), st))
            return out, True
        if isinstance(st, ast.Raise):
            out.append(st)          # the path ends here: nothing falls through to a later `res = None`
            return out, True
        if isinstance(st, (ast.FunctionDef, ast.ClassDef, ast.AsyncFunctionDef)):
            raise NotInlinable('nested definition')
        if contains_return(st) and isinstance(st, (ast.For, ast.While)) and not st.orelse:
            # a search loop:  for ..: if c: return e        ->   done = False; for ..: if c: res = e; done = True; break
            #                 <rest>                             if not done: <rest>
            done = '%s_done%d' % (res, len(out))
            body = _returns_to_breaks(st.body, res, done)
            new_loop = copy.copy(st)
            new_loop.body = body
            out.append(ast.copy_location(ast.Assign([ast.Name(done, ast.Store())], ast.Constant(False)), st))
            out.append(new_loop)
            cont, c_ret = single_exit(stmts[i + 1:], res)
            if not c_ret:
                cont = cont + [ast.copy_location(ast.Assign([ast.Name(res, ast.Store())], ast.Constant(None)), st)]
            out.append(ast.copy_location(ast.If(ast.UnaryOp(ast.Not(), ast.Name(done, ast.Load())), cont or [ast.Pass()], []), st))
            return out, True
        if contains_return(st):
            if not isinstance(st, ast.If):
                raise NotInlinable('return inside %s' % type(st).__name__)
            rest = stmts[i + 1:]
            body, b_ret = single_exit(st.body, res)
            orelse, o_ret = single_exit(st.orelse, res)
            if not b_ret:
                cont, b_ret = single_exit(copy.deepcopy(rest), res)
                body = body + cont
            if not o_ret:
                cont, o_ret = single_exit(copy.deepcopy(rest), res)
                orelse = orelse + cont
            out.append(ast.copy_location(ast.If(st.test, body or [ast.Pass()], orelse), st))
            return out, (b_ret and o_ret)
        out.append(st)
    return out, False


def _returns_to_breaks(body, res, done):
    """inside ONE loop level: `return e` -> res = e; done = True; break   (returns in nested loops are not supported)"""
    out = []
    for st in body:
        if isinstance(st, ast.Return):
            val = st.value if st.value is not None else ast.Constant(None)
            out.append(ast.copy_location(ast.Assign([ast.Name(res, ast.Store())], val), st))
            out.append(ast.copy_location(ast.Assign([ast.Name(done, ast.Store())], ast.Constant(True)), st))
            out.append(ast.copy_location(ast.Break(), st))
            return out
        if isinstance(st, (ast.For, ast.While, ast.Try, ast.With)) and contains_return(st):
            raise NotInlinable('return in a nested loop')
        if isinstance(st, ast.If) and contains_return(st):
            st = copy.copy(st)
            st.body = _returns_to_breaks(st.body, res, done)
            st.orelse = _returns_to_breaks(st.orelse, res, done)
        out.append(st)
    return out


class _Rename(ast.NodeTransformer):
    def __init__(self, mapping):
        self.m = mapping

    def visit_Name(self, n):
        if n.id in self.m:
            return ast.copy_location(ast.Name(self.m[n.id], n.ctx), n)
        return n

    def visit_arg(self, n):
        if n.arg in self.m:
            n.arg = self.m[n.arg]
        return n


def _local_names(fn):
    names = {a.arg for a in fn.args.posonlyargs + fn.args.args + fn.args.kwonlyargs}
    for n in ast.walk(fn):
        if isinstance(n, ast.Name) and isinstance(n.ctx, (ast.Store, ast.Del)):
            names.add(n.id)
        elif isinstance(n, ast.ExceptHandler) and n.name:
            names.add(n.name)
    return names


class Inliner:
    def __init__(self, helpers, methods):
        self.helpers = helpers          # name visible in a module -> FunctionDef   (per module dict)
        self.methods = methods          # class name -> {method name: FunctionDef}
        self.counter = itertools.count(1)
        self.inlined = 0

    # ------------------------------------------------------------------ expansion of one call
    def expand(self, call, fn, res, self_expr=None):
        """statements that bind the parameters, run the body and leave the result in `res`"""
        if fn.args.vararg or fn.args.kwarg or fn.decorator_list:
            raise NotInlinable('signature')
        if any(isinstance(a, ast.Starred) for a in call.args) or any(k.arg is None for k in call.keywords):
            raise NotInlinable('star arguments')
        body = fn.body
        if body and isinstance(body[0], ast.Expr) and isinstance(body[0].value, ast.Constant) and isinstance(body[0].value.value, str):
            body = body[1:]
        if len(list(ast.walk(ast.Module(body, [])))) > 4000 or len(body) > MAX_BODY:
            raise NotInlinable('too large')
        for n in ast.walk(ast.Module(body, [])):
            if isinstance(n, (ast.Yield, ast.YieldFrom, ast.Await, ast.Global, ast.Nonlocal)):
                raise NotInlinable('generator / global')
        k = next(self.counter)
        params = [a.arg for a in fn.args.posonlyargs + fn.args.args]
        if self_expr is not None:
            if not params:
                raise NotInlinable('method without self')
            params = params[1:]
        binding = {}
        for p, a in zip(params, call.args):
            binding[p] = a
        if len(call.args) > len(params):
            raise NotInlinable('too many arguments')
        for kw in call.keywords:
            if kw.arg not in params + [a.arg for a in fn.args.kwonlyargs] or kw.arg in binding:
                raise NotInlinable('keyword')
            binding[kw.arg] = kw.value
        pos = fn.args.posonlyargs + fn.args.args
        defaults = dict(zip([a.arg for a in pos[len(pos) - len(fn.args.defaults):]], fn.args.defaults))
        for a, d in zip(fn.args.kwonlyargs, fn.args.kw_defaults):
            if d is not None:
                defaults[a.arg] = d
        for p in params + [a.arg for a in fn.args.kwonlyargs]:
            if p not in binding:
                if p in defaults:
                    binding[p] = copy.deepcopy(defaults[p])
                else:
                    raise NotInlinable('missing argument %s' % p)
        mapping = {n: '_i%d_%s' % (k, n) for n in _local_names(fn)}
        if self_expr is not None:
            mapping.pop(fn.args.args[0].arg if fn.args.args else 'self', None)
        # a parameter that the helper never rebinds and that receives a plain variable IS that variable (no alias is introduced)
        rebound = {n.id for st in body for n in ast.walk(st) if isinstance(n, ast.Name) and isinstance(n.ctx, (ast.Store, ast.Del))}
        direct = set()
        for p, a in binding.items():
            if isinstance(a, ast.Name) and p not in rebound and p in mapping and a.id not in mapping.values():
                mapping[p] = a.id
                direct.add(p)
        new_body = [_Rename(mapping).visit(copy.deepcopy(st)) for st in body]
        if self_expr is not None:
            selfname = (fn.args.posonlyargs + fn.args.args)[0].arg
            if selfname != 'self':
                new_body = [_Rename({selfname: 'self'}).visit(st) for st in new_body]
        stmts = []
        for p, a in binding.items():
            if p in direct:
                continue
            stmts.append(ast.copy_location(ast.Assign([ast.Name(mapping.get(p, p), ast.Store())], a), call))
        conv, returned = single_exit(new_body, res)
        if not returned:
            conv = conv + [ast.copy_location(ast.Assign([ast.Name(res, ast.Store())], ast.Constant(None)), call)] \
                if not _always_assigns(conv, res) else conv
        return stmts + conv

    # ------------------------------------------------------------------ statements
    def resolve(self, call, modname, clsname):
        f = call.func
        if isinstance(f, ast.Name):
            fn = getattr(self, 'local_defs', {}).get(f.id)      # a function defined inside the function being processed
            if fn is not None:
                return fn, None
            fn = self.helpers.get(modname, {}).get(f.id)
            if fn is not None:
                return fn, None
        if isinstance(f, ast.Attribute) and isinstance(f.value, ast.Name) and f.value.id == 'self' and clsname:
            fn = self.methods.get((modname, clsname), {}).get(f.attr)
            if fn is not None and f.attr.startswith('_') and not f.attr.startswith('__'):
                return fn, f.value
        return None, None

    def hoistable_calls(self, expr, modname, clsname):
        """helper calls in `expr` that are evaluated exactly once, innermost first"""
        found = []

        def rec(n, ok):
            if isinstance(n, (ast.ListComp, ast.SetComp, ast.DictComp, ast.GeneratorExp)):
                # only the first iterable of a comprehension is evaluated (once, in the enclosing scope) where it is written;
                # a generator expression evaluates it eagerly too
                rec(n.generators[0].iter, ok)
                return
            if isinstance(n, ast.Lambda):
                return
            if isinstance(n, ast.BoolOp):
                rec(n.values[0], ok)
                for v in n.values[1:]:
                    rec(v, False)
                return
            if isinstance(n, ast.IfExp):
                rec(n.test, ok)
                rec(n.body, False)
                rec(n.orelse, False)
                return
            for c in ast.iter_child_nodes(n):
                rec(c, ok)
            if ok and isinstance(n, ast.Call):
                fn, slf = self.resolve(n, modname, clsname)
                if fn is not None:
                    found.append((n, fn, slf))
        rec(expr, True)
        return found

    def block(self, body, modname, clsname, depth, current):
        out = []
        for st in body:
            out.extend(self.stmt(st, modname, clsname, depth, current))
        return out

    def stmt(self, st, modname, clsname, depth, current):
        # `if A and helper(..): S` without else: split the conjunction so that the helper call is evaluated exactly once per
        # execution of an (inner) if statement and can be inlined
        if isinstance(st, ast.If) and not st.orelse and isinstance(st.test, ast.BoolOp) and isinstance(st.test.op, ast.And) \
                and len(st.test.values) >= 2 and any(
                    isinstance(c, ast.Call) and self.resolve(c, modname, clsname)[0] is not None
                    for v in st.test.values[1:] for c in ast.walk(v)):
            inner = ast.copy_location(ast.If(st.test.values[-1] if len(st.test.values) == 2 else
                                             ast.BoolOp(ast.And(), st.test.values[1:]), st.body, []), st)
            st = ast.copy_location(ast.If(st.test.values[0], [inner], []), st)
        # recurse into compound statements first
        for field in ('body', 'orelse', 'finalbody'):
            b = getattr(st, field, None)
            if isinstance(b, list) and b and isinstance(b[0], ast.stmt) and not isinstance(st, (ast.FunctionDef, ast.ClassDef)):
                setattr(st, field, self.block(b, modname, clsname, depth, current))
        if isinstance(st, ast.Try):
            for h in st.handlers:
                h.body = self.block(h.body, modname, clsname, depth, current)
        if depth >= MAX_DEPTH or isinstance(st, (ast.FunctionDef, ast.ClassDef)):
            return [st]
        # expressions evaluated once per execution of the statement
        roots = []
        if isinstance(st, (ast.Assign, ast.AugAssign, ast.AnnAssign, ast.Return, ast.Expr)):
            if getattr(st, 'value', None) is not None:
                roots.append(st.value)
        elif isinstance(st, ast.If):
            roots.append(st.test)
        elif isinstance(st, ast.For):
            roots.append(st.iter)
        elif isinstance(st, ast.Raise) and st.exc is not None:
            roots.append(st.exc)
        pre = []
        for r in roots:
            for call, fn, slf in self.hoistable_calls(r, modname, clsname):
                if fn is current:
                    continue
                res = '_r%d' % next(self.counter)
                try:
                    exp = self.expand(call, fn, res, slf)
                except NotInlinable:
                    continue
                self.inlined += 1
                owner_cls = clsname if slf is not None else None
                exp = self.block(exp, modname, owner_cls, depth + 1, fn)
                pre.extend(exp)
                _replace(st, call, ast.copy_location(ast.Name(res, ast.Load()), call))
        return pre + [st]


def _always_assigns(stmts, name):
    return False


def _replace(root, old, new):
    for parent in ast.walk(root):
        for field, value in ast.iter_fields(parent):
            if value is old:
                setattr(parent, field, new)
                return True
            if isinstance(value, list):
                for i, v in enumerate(value):
                    if v is old:
                        value[i] = new
                        return True
    return False


def _mentions(node, name):
    return any(isinstance(n, ast.Name) and n.id == name for n in ast.walk(node))


def _append_arg(st, name):
    """st is `name.append(e)` with e free of name -> e"""
    if isinstance(st, ast.Expr) and isinstance(st.value, ast.Call):
        c = st.value
        if isinstance(c.func, ast.Attribute) and c.func.attr == 'append' and isinstance(c.func.value, ast.Name) \
                and c.func.value.id == name and len(c.args) == 1 and not c.keywords and not _mentions(c.args[0], name):
            return c.args[0]
    return None


def _loop_as_element(stmts, name):
    """the body of `for t in it:` appends exactly one element per (selected) iteration -> (element, [filters]) or None
       xs.append(e)                                  -> e
       if c: xs.append(a)  else: xs.append(b)        -> a if c else b
       if c: xs.append(a)                            -> a, filter c
       if c: continue ; xs.append(a)                 -> a, filter not c"""
    if len(stmts) == 1:
        e = _append_arg(stmts[0], name)
        if e is not None:
            return e, []
        st = stmts[0]
        if isinstance(st, ast.If) and not _mentions(st.test, name) and len(st.body) == 1:
            a = _loop_as_element(st.body, name)
            if a is None:
                return None
            if not st.orelse:
                return a[0], [st.test] + a[1]
            b = _loop_as_element(st.orelse, name)
            if b is None or a[1] or b[1]:
                return None
            return ast.IfExp(st.test, a[0], b[0]), []
        return None
    if len(stmts) == 2 and isinstance(stmts[0], ast.If) and not stmts[0].orelse and len(stmts[0].body) == 1 and \
            isinstance(stmts[0].body[0], ast.Continue) and not _mentions(stmts[0].test, name):
        rest = _loop_as_element(stmts[1:], name)
        if rest is None:
            return None
        return rest[0], [ast.UnaryOp(ast.Not(), stmts[0].test)] + rest[1]
    return None


def split_conditional_statements(body):
    """x = A if c else B  ->  if c: x = A  else: x = B      (also `return A if c else B`, and `x += A if c else B`)
    The two forms evaluate the same expressions in the same order; the statement form gives the value its path condition."""
    out = []
    for st in body:
        for field in ('body', 'orelse', 'finalbody'):
            b = getattr(st, field, None)
            if isinstance(b, list) and b and isinstance(b[0], ast.stmt) and not isinstance(st, ast.ClassDef):
                setattr(st, field, split_conditional_statements(b))
        if isinstance(st, ast.Try):
            for h in st.handlers:
                h.body = split_conditional_statements(h.body)
        v = getattr(st, 'value', None)
        if isinstance(v, ast.IfExp) and isinstance(st, (ast.Assign, ast.Return, ast.AugAssign)) and not (
                isinstance(st, ast.Assign) and len(st.targets) != 1):
            a, b = copy.deepcopy(st), copy.deepcopy(st)
            a.value, b.value = v.body, v.orelse
            arms = [split_conditional_statements([a]), split_conditional_statements([b])]
            out.append(ast.copy_location(ast.If(v.test, arms[0], arms[1]), st))
            continue
        out.append(st)
    return out


def _const_items(node, globals_):
    """items of a literal tuple / list of constants (or of tuples of constants), directly or through a module constant"""
    if isinstance(node, ast.Name) and globals_ and node.id in globals_:
        node = globals_[node.id]
    if not isinstance(node, (ast.Tuple, ast.List)) or not 1 <= len(node.elts) <= 8:
        return None

    def const(e):
        return isinstance(e, ast.Constant) or (isinstance(e, (ast.Tuple, ast.List)) and all(const(x) for x in e.elts))
    return list(node.elts) if all(const(e) for e in node.elts) else None


def unroll_constant_loops(body, globals_):
    """for a, b in (("A", "t"), ("C", "g")): S   ->   a, b = "A", "t"; S; a, b = "C", "g"; S     (no break / continue in S)"""
    out = []
    for st in body:
        for field in ('body', 'orelse', 'finalbody'):
            b = getattr(st, field, None)
            if isinstance(b, list) and b and isinstance(b[0], ast.stmt) and not isinstance(st, ast.ClassDef):
                setattr(st, field, unroll_constant_loops(b, globals_))
        if isinstance(st, ast.Try):
            for h in st.handlers:
                h.body = unroll_constant_loops(h.body, globals_)
        if isinstance(st, ast.For) and not st.orelse:
            items = _const_items(st.iter, globals_)
            jumps = any(isinstance(n, (ast.Break, ast.Continue)) for s_ in st.body for n in ast.walk(s_))
            local_shadow = isinstance(st.iter, ast.Name) and any(
                isinstance(n, ast.Name) and n.id == st.iter.id and isinstance(n.ctx, ast.Store) for s_ in body for n in ast.walk(s_))
            if items is not None and not jumps and not local_shadow:
                for it in items:
                    out.append(ast.copy_location(ast.Assign([copy.deepcopy(st.target)], copy.deepcopy(it)), st))
                    out.extend(copy.deepcopy(st.body))
                continue
        out.append(st)
    return out


def recover_comprehensions(body):
    """xs = [] ; for t in it: xs.append(e)   ->   xs = [e for t in it]     (the loop body is exactly that append)"""
    out = []
    i = 0
    while i < len(body):
        st = body[i]
        for field in ('body', 'orelse', 'finalbody'):
            b = getattr(st, field, None)
            if isinstance(b, list) and b and isinstance(b[0], ast.stmt) and not isinstance(st, ast.ClassDef):
                setattr(st, field, recover_comprehensions(b))
        if isinstance(st, ast.Try):
            for h in st.handlers:
                h.body = recover_comprehensions(h.body)
        nxt = body[i + 1] if i + 1 < len(body) else None
        if isinstance(st, ast.Assign) and len(st.targets) == 1 and isinstance(st.targets[0], ast.Name) \
                and isinstance(st.value, ast.List) and not st.value.elts and isinstance(nxt, ast.For) and not nxt.orelse:
            name = st.targets[0].id
            el = _loop_as_element(nxt.body, name) if not _mentions(nxt.iter, name) else None
            # the loop variables must not be read after the loop (a comprehension does not leak them)
            tnames = {n.id for n in ast.walk(nxt.target) if isinstance(n, ast.Name)}
            later = any(isinstance(n, ast.Name) and n.id in tnames and isinstance(n.ctx, ast.Load)
                        for s_ in body[i + 2:] for n in ast.walk(s_))
            if el is not None and not later:
                comp = ast.ListComp(el[0], [ast.comprehension(nxt.target, nxt.iter, el[1], 0)])
                out.append(ast.copy_location(ast.Assign([ast.Name(name, ast.Store())], comp), st))
                i += 2
                continue
        out.append(st)
        i += 1
    return out


class _SplitTupleAssigns(ast.NodeTransformer):
    """`a, b = x, y` is `a = x; b = y` when no later value reads what an earlier target writes (all values of a tuple
    assignment are evaluated before the first target is bound)"""

    @staticmethod
    def _written(t):
        while isinstance(t, (ast.Subscript, ast.Attribute)):
            t = t.value
        return {t.id} if isinstance(t, ast.Name) else None

    def _split(self, st):
        if not (isinstance(st, ast.Assign) and len(st.targets) == 1 and isinstance(st.targets[0], (ast.Tuple, ast.List)) and
                isinstance(st.value, (ast.Tuple, ast.List)) and len(st.targets[0].elts) == len(st.value.elts) and
                not any(isinstance(x, ast.Starred) for x in st.targets[0].elts + st.value.elts)):
            return [st]
        ts, vs = st.targets[0].elts, st.value.elts
        written = set()
        for t, v in zip(ts, vs):
            reads = {n.id for n in ast.walk(v) if isinstance(n, ast.Name)}
            if reads & written:
                return [st]
            if isinstance(t, (ast.Tuple, ast.List)):
                w = set()
                for e in t.elts:
                    we = self._written(e)
                    if we is None:
                        return [st]
                    w |= we
            else:
                w = self._written(t)
                if w is None:
                    return [st]
            written |= w
        out = []
        for t, v in zip(ts, vs):
            out.extend(self._split(ast.copy_location(ast.Assign(targets=[t], value=v, type_comment=None), st)))
        return out

    def generic_visit(self, node):
        super().generic_visit(node)
        for field in ('body', 'orelse', 'finalbody'):
            b = getattr(node, field, None)
            if isinstance(b, list) and any(isinstance(s, ast.Assign) for s in b):
                nb = []
                for s in b:
                    nb.extend(self._split(s))
                setattr(node, field, nb)
        return node


class _WhileTrueBreak(ast.NodeTransformer):
    """`while True: if X: break; rest` is `while not X: rest` (no else clause on the loop)"""

    def visit_While(self, node):
        self.generic_visit(node)
        if isinstance(node.test, ast.Constant) and node.test.value is True and not node.orelse and len(node.body) >= 2 and \
                isinstance(node.body[0], ast.If) and not node.body[0].orelse and len(node.body[0].body) == 1 and \
                isinstance(node.body[0].body[0], ast.Break):
            x = node.body[0].test
            test = x.operand if isinstance(x, ast.UnaryOp) and isinstance(x.op, ast.Not) else \
                ast.copy_location(ast.UnaryOp(op=ast.Not(), operand=x), x)
            return ast.fix_missing_locations(ast.copy_location(ast.While(test=test, body=node.body[1:], orelse=[]), node))
        return node


class _MergeFlagIfs(ast.NodeTransformer):
    """`if C: f = True else: f = E` is (in truth value) `f = C or E`; likewise the three sibling forms.  Only for a plain name f."""

    def visit_If(self, node):
        self.generic_visit(node)
        if len(node.body) == 1 and len(node.orelse) == 1 and all(
                isinstance(s, ast.Assign) and len(s.targets) == 1 and isinstance(s.targets[0], ast.Name) for s in (node.body[0], node.orelse[0])) \
                and node.body[0].targets[0].id == node.orelse[0].targets[0].id:
            v1, v2, c = node.body[0].value, node.orelse[0].value, node.test
            const = lambda v: v.value if isinstance(v, ast.Constant) and isinstance(v.value, bool) else None
            neg = lambda e: e.operand if isinstance(e, ast.UnaryOp) and isinstance(e.op, ast.Not) else ast.UnaryOp(op=ast.Not(), operand=e)
            new = None
            if const(v1) is True and const(v2) is None:
                new = ast.BoolOp(op=ast.Or(), values=[c, v2])
            elif const(v1) is False and const(v2) is None:
                new = ast.BoolOp(op=ast.And(), values=[neg(c), v2])
            elif const(v2) is True and const(v1) is None:
                new = ast.BoolOp(op=ast.Or(), values=[neg(c), v1])
            elif const(v2) is False and const(v1) is None:
                new = ast.BoolOp(op=ast.And(), values=[c, v1])
            if new is not None and isinstance(v1 if const(v1) is None else v2, (ast.Compare, ast.BoolOp, ast.UnaryOp, ast.Name)):
                st = ast.Assign(targets=[ast.Name(id=node.body[0].targets[0].id, ctx=ast.Store())], value=new, type_comment=None)
                return ast.fix_missing_locations(ast.copy_location(st, node))
        return node


class _ChainedFlag(ast.NodeTransformer):
    """`f = A` directly followed by `if not f: f = B` is `f = A or B`; followed by `if f: f = B` it is `f = A and B` (A and B
    comparisons / boolean combinations, f a plain name)"""

    @staticmethod
    def _boolish(e):
        return isinstance(e, (ast.Compare, ast.BoolOp)) or (isinstance(e, ast.UnaryOp) and isinstance(e.op, ast.Not))

    def _block(self, body):
        out = []
        for st in body:
            prev = out[-1] if out else None
            if prev is not None and isinstance(prev, ast.Assign) and len(prev.targets) == 1 and isinstance(prev.targets[0], ast.Name) \
                    and self._boolish(prev.value) and isinstance(st, ast.If) and not st.orelse and len(st.body) == 1 and \
                    isinstance(st.body[0], ast.Assign) and len(st.body[0].targets) == 1 and \
                    isinstance(st.body[0].targets[0], ast.Name) and st.body[0].targets[0].id == prev.targets[0].id and \
                    self._boolish(st.body[0].value):
                f = prev.targets[0].id
                t = st.test
                op = None
                if isinstance(t, ast.Name) and t.id == f:
                    op = ast.And()
                elif isinstance(t, ast.UnaryOp) and isinstance(t.op, ast.Not) and isinstance(t.operand, ast.Name) and t.operand.id == f:
                    op = ast.Or()
                if op is not None and not any(isinstance(n, ast.Name) and n.id == f for n in ast.walk(st.body[0].value)):
                    new = ast.Assign(targets=[ast.Name(id=f, ctx=ast.Store())],
                                     value=ast.BoolOp(op=op, values=[prev.value, st.body[0].value]), type_comment=None)
                    out[-1] = ast.fix_missing_locations(ast.copy_location(new, prev))
                    continue
            out.append(st)
        return out

    def generic_visit(self, node):
        super().generic_visit(node)
        for fld in ('body', 'orelse', 'finalbody'):
            b = getattr(node, fld, None)
            if isinstance(b, list) and b and isinstance(b[0], ast.stmt):
                setattr(node, fld, self._block(b))
        return node


class _SliceInsert(ast.NodeTransformer):
    """for a local LIST L (bound to a list display, list(..) or a list comprehension somewhere in the function):
    `L[:0] = [x]` / `L[p:p] = [x]` is `L.insert(p, x)`, `L[len(L):] = X` is `L.extend(X)`"""

    def visit_FunctionDef(self, fn):
        lists = set()
        for n in ast.walk(fn):
            if isinstance(n, ast.Assign) and len(n.targets) == 1 and isinstance(n.targets[0], ast.Name) and \
                    (isinstance(n.value, (ast.List, ast.ListComp)) or
                     (isinstance(n.value, ast.Call) and isinstance(n.value.func, ast.Name) and n.value.func.id == 'list')):
                lists.add(n.targets[0].id)
        self.lists = lists
        self.generic_visit(fn)
        return fn

    def visit_Assign(self, st):
        if len(st.targets) == 1 and isinstance(st.targets[0], ast.Subscript) and isinstance(st.targets[0].value, ast.Name) and \
                st.targets[0].value.id in getattr(self, 'lists', ()) and isinstance(st.targets[0].slice, ast.Slice) and \
                st.targets[0].slice.step is None:
            L, sl = st.targets[0].value, st.targets[0].slice
            lo, hi = sl.lower, sl.upper
            zero = lambda e: e is None or (isinstance(e, ast.Constant) and e.value == 0)
            if isinstance(st.value, ast.List) and len(st.value.elts) == 1 and not isinstance(st.value.elts[0], ast.Starred) and \
                    hi is not None and ((zero(lo) and zero(hi)) or (lo is not None and ast.dump(lo) == ast.dump(hi))):
                pos = lo if lo is not None else ast.Constant(value=0)
                call = ast.Call(func=ast.Attribute(value=ast.Name(id=L.id, ctx=ast.Load()), attr='insert', ctx=ast.Load()),
                                args=[pos, st.value.elts[0]], keywords=[])
                return ast.fix_missing_locations(ast.copy_location(ast.Expr(value=call), st))
            if hi is None and isinstance(lo, ast.Call) and isinstance(lo.func, ast.Name) and lo.func.id == 'len' and len(lo.args) == 1 and \
                    isinstance(lo.args[0], ast.Name) and lo.args[0].id == L.id:
                call = ast.Call(func=ast.Attribute(value=ast.Name(id=L.id, ctx=ast.Load()), attr='extend', ctx=ast.Load()),
                                args=[st.value], keywords=[])
                return ast.fix_missing_locations(ast.copy_location(ast.Expr(value=call), st))
        return st


class _GuardContinue(ast.NodeTransformer):
    """in a loop body, `if C: continue` followed by the rest R of the body is `if not C: R`"""

    def _loop(self, node):
        self.generic_visit(node)
        node.body = self._rewrite(node.body)
        return node
    visit_For = visit_While = _loop

    def _rewrite(self, body):
        for k, st in enumerate(body):
            if isinstance(st, ast.If) and not st.orelse and len(st.body) == 1 and isinstance(st.body[0], ast.Continue) \
                    and k + 1 < len(body):
                rest = self._rewrite(body[k + 1:])
                test = st.test.operand if isinstance(st.test, ast.UnaryOp) and isinstance(st.test.op, ast.Not) \
                    else ast.copy_location(ast.UnaryOp(op=ast.Not(), operand=st.test), st.test)
                return body[:k] + [ast.copy_location(ast.If(test=test, body=rest, orelse=[]), st)]
        return body


class _ShiftedRange(ast.NodeTransformer):
    """`for x in range(c, E): B` with an integer constant c != 0 (unit step) is `for x0 in range(E - c): x = x0 + c; B`: the
    loop is counted from zero, as everywhere in the package, and the shift is an ordinary definition the terms fold away"""
    counter = 0

    def visit_For(self, node):
        self.generic_visit(node)
        it = node.iter
        if not (isinstance(node.target, ast.Name) and isinstance(it, ast.Call) and isinstance(it.func, ast.Name) and
                it.func.id == 'range' and not it.keywords and len(it.args) in (2, 3) and not node.orelse):
            return node
        if len(it.args) == 3 and not (isinstance(it.args[2], ast.Constant) and it.args[2].value == 1):
            return node
        c = it.args[0]
        if isinstance(c, ast.UnaryOp) and isinstance(c.op, ast.USub) and isinstance(c.operand, ast.Constant):
            cv = -c.operand.value if isinstance(c.operand.value, int) and not isinstance(c.operand.value, bool) else None
        elif isinstance(c, ast.Constant) and isinstance(c.value, int) and not isinstance(c.value, bool):
            cv = c.value
        else:
            cv = None
        import copy
        start = None
        if cv is None:
            # a loop-invariant name or attribute chain as the start (range(k, n + 1) with s[end - k:end] at the uses)
            e = c
            while isinstance(e, ast.Attribute):
                e = e.value
            if isinstance(e, ast.Name) and isinstance(c, (ast.Name, ast.Attribute)):
                written = {t.id for st in node.body for n in ast.walk(st) for t in
                           (n.targets if isinstance(n, ast.Assign) else [n.target] if isinstance(n, (ast.AugAssign, ast.For)) else [])
                           for t in ast.walk(t) if isinstance(t, ast.Name)}
                if e.id not in written and e.id != node.target.id:
                    start = c
        if (cv is None or cv == 0) and start is None:
            return node
        if any(isinstance(n, ast.Name) and n.id == node.target.id for n in ast.walk(it.args[1])):
            return node
        _ShiftedRange.counter += 1
        x0 = '_%s_from0_%d' % (node.target.id, _ShiftedRange.counter)
        off = (lambda: ast.Constant(value=cv)) if start is None else (lambda: copy.deepcopy(start))
        stop = ast.BinOp(left=it.args[1], op=ast.Sub(), right=off())
        shift = ast.Assign(targets=[ast.Name(id=node.target.id, ctx=ast.Store())],
                           value=ast.BinOp(left=ast.Name(id=x0, ctx=ast.Load()), op=ast.Add(), right=off()))
        new = ast.For(target=ast.Name(id=x0, ctx=ast.Store()),
                      iter=ast.Call(func=ast.Name(id='range', ctx=ast.Load()), args=[stop], keywords=[]),
                      body=[ast.copy_location(shift, node)] + node.body, orelse=[])
        for n in ast.walk(new.iter):
            ast.copy_location(n, node.iter)
        for n in ast.walk(shift):
            ast.copy_location(n, node)
        ast.copy_location(new.target, node.target)
        return ast.copy_location(new, node)


class _ReduceToLoop(ast.NodeTransformer):
    """`x = reduce(F, IT, INIT)` is `x = INIT; for e in IT: x = F(x, e)` (functools.reduce with an initial value); a two-parameter
    lambda is applied by substitution.  Only when x does not occur in F / IT (they are evaluated before x is bound)."""
    counter = 0

    def _expand(self, st):
        if isinstance(st, ast.Assign) and len(st.targets) == 1 and isinstance(st.targets[0], ast.Name):
            name, call = st.targets[0].id, st.value
        elif isinstance(st, ast.Return) and st.value is not None:
            name, call = None, st.value
        else:
            return [st]
        if not (isinstance(call, ast.Call) and not call.keywords and len(call.args) == 3 and
                ((isinstance(call.func, ast.Name) and call.func.id == 'reduce') or
                 (isinstance(call.func, ast.Attribute) and call.func.attr == 'reduce' and isinstance(call.func.value, ast.Name)
                  and call.func.value.id == 'functools'))):
            return [st]
        F, IT, INIT = call.args
        _ReduceToLoop.counter += 1
        acc = name or '_red%d' % _ReduceToLoop.counter
        if any(isinstance(n, ast.Name) and n.id == acc for x in (F, IT) for n in ast.walk(x)):
            return [st]
        elem = '_rel%d' % _ReduceToLoop.counter
        if isinstance(F, ast.Lambda):
            a = F.args
            if len(a.args) != 2 or a.vararg or a.kwarg or a.kwonlyargs or a.defaults:
                return [st]
            p_acc, p_el = a.args[0].arg, a.args[1].arg
            if any(isinstance(n, (ast.Lambda, ast.ListComp, ast.GeneratorExp, ast.SetComp, ast.DictComp)) for n in ast.walk(F.body)):
                return [st]
            body = _Rename({p_acc: acc, p_el: elem}).visit(copy.deepcopy(F.body))
        elif isinstance(F, ast.Name):
            body = ast.Call(func=ast.Name(id=F.id, ctx=ast.Load()),
                            args=[ast.Name(id=acc, ctx=ast.Load()), ast.Name(id=elem, ctx=ast.Load())], keywords=[])
        else:
            return [st]
        init = ast.Assign(targets=[ast.Name(id=acc, ctx=ast.Store())], value=INIT, type_comment=None)
        step = ast.Assign(targets=[ast.Name(id=acc, ctx=ast.Store())], value=body, type_comment=None)
        loop = ast.For(target=ast.Name(id=elem, ctx=ast.Store()), iter=IT, body=[step], orelse=[], type_comment=None)
        out = [init, loop]
        if name is None:
            out.append(ast.Return(value=ast.Name(id=acc, ctx=ast.Load())))
        return [ast.fix_missing_locations(ast.copy_location(x, st)) for x in out]

    def generic_visit(self, node):
        super().generic_visit(node)
        for field in ('body', 'orelse', 'finalbody'):
            b = getattr(node, field, None)
            if isinstance(b, list) and any(isinstance(s, (ast.Assign, ast.Return)) for s in b):
                nb = []
                for s in b:
                    nb.extend(self._expand(s))
                setattr(node, field, nb)
        return node


class _NormaliseIfs(ast.NodeTransformer):
    """`if not C: A else: B` is `if C: B else: A`; an arm that is only `pass` is no arm"""

    def visit_If(self, node):
        self.generic_visit(node)
        only_pass = lambda b: bool(b) and all(isinstance(s, ast.Pass) for s in b)
        if only_pass(node.orelse):
            node.orelse = []
        if isinstance(node.test, ast.UnaryOp) and isinstance(node.test.op, ast.Not) and node.orelse:
            node.test = node.test.operand
            node.body, node.orelse = node.orelse, node.body
            if only_pass(node.orelse):
                node.orelse = []
        return node


def resolve_bound_method_aliases(fn):
    """`add = xs.append ... add(v)` is `xs.append(v)` when `add` is bound once, only ever called, and `xs` is not rebound
    after the alias is taken (a bound method keeps the object it was taken from)"""
    params = {a.arg for a in fn.args.posonlyargs + fn.args.args + fn.args.kwonlyargs}
    stores, loads = {}, {}
    for n in ast.walk(fn):
        if isinstance(n, ast.Name):
            (stores if isinstance(n.ctx, (ast.Store, ast.Del)) else loads).setdefault(n.id, []).append(n)
        elif isinstance(n, (ast.FunctionDef, ast.ClassDef)) and n is not fn:
            stores.setdefault(n.name, []).append(n)
    call_funcs = {id(c.func) for c in ast.walk(fn) if isinstance(c, ast.Call)}
    done = 0
    cands = []
    for st in [s for s in ast.walk(fn) if isinstance(s, ast.Assign)]:
        if len(st.targets) == 1 and isinstance(st.targets[0], ast.Name) and isinstance(st.value, ast.Attribute) \
                and isinstance(st.value.value, ast.Name):
            cands.append((st, None, st.targets[0].id, st.value.value.id, st.value.attr))
        elif len(st.targets) == 1 and isinstance(st.targets[0], ast.Tuple) and isinstance(st.value, ast.Tuple) and \
                len(st.targets[0].elts) == len(st.value.elts) and all(isinstance(t, ast.Name) for t in st.targets[0].elts):
            for t_, v_ in zip(list(st.targets[0].elts), list(st.value.elts)):
                if isinstance(v_, ast.Attribute) and isinstance(v_.value, ast.Name):
                    cands.append((st, (t_, v_), t_.id, v_.value.id, v_.attr))
    for st, pair, alias, owner, meth in cands:
        if alias in params or len(stores.get(alias, [])) != 1 or not loads.get(alias):
            continue
        if any(id(n) not in call_funcs for n in loads[alias]):
            continue
        ostores = stores.get(owner, [])
        if owner in params:
            if ostores:
                continue
        elif len(ostores) > 1 or (ostores and getattr(ostores[0], 'lineno', 10 ** 9) > st.lineno):
            continue
        if any(n.lineno < st.lineno for n in loads[alias]):
            continue
        for n in loads[alias]:
            n_ = ast.copy_location(ast.Attribute(value=ast.copy_location(ast.Name(id=owner, ctx=ast.Load()), n), attr=meth,
                                                 ctx=ast.Load()), n)
            _replace(fn, n, n_)
        if pair is None or st.targets[0] is pair[0]:
            _replace(fn, st, ast.copy_location(ast.Pass(), st))
        else:
            st.targets[0].elts.remove(pair[0])
            st.value.elts.remove(pair[1])
            if len(st.targets[0].elts) == 1:
                st.targets[0], st.value = st.targets[0].elts[0], st.value.elts[0]
            elif not st.targets[0].elts:
                _replace(fn, st, ast.copy_location(ast.Pass(), st))
        done += 1
    return done


def inline_project(trees, exports):
    """trees: {module name: ast.Module}; exports: set of public function names.  Rewrites the trees in place."""
    helpers = {}
    methods = {}
    defs = {}
    for mod, tree in trees.items():
        for st in tree.body:
            if isinstance(st, ast.FunctionDef) and st.name not in exports:
                defs[(mod, st.name)] = st
            if isinstance(st, ast.ClassDef):
                methods[(mod, st.name)] = {b.name: b for b in st.body if isinstance(b, ast.FunctionDef)}
    for mod, tree in trees.items():
        vis = {}
        for st in tree.body:
            if isinstance(st, ast.FunctionDef) and st.name not in exports:
                vis[st.name] = st
            elif isinstance(st, ast.ImportFrom) and st.module:
                for a in st.names:
                    if (st.module, a.name) in defs:
                        vis[a.asname or a.name] = defs[(st.module, a.name)]
        helpers[mod] = vis
    for mod, tree in trees.items():
        mglobals = {t_.id: st_.value for st_ in tree.body if isinstance(st_, ast.Assign) and len(st_.targets) == 1
                    for t_ in [st_.targets[0]] if isinstance(t_, ast.Name)}
        for st in tree.body:
            for fn_ in ([st] if isinstance(st, ast.FunctionDef) else
                        [b for b in st.body if isinstance(b, ast.FunctionDef)] if isinstance(st, ast.ClassDef) else []):
                resolve_bound_method_aliases(fn_)
                _SliceInsert().visit(fn_)
                _SplitTupleAssigns().visit(fn_)
                _ReduceToLoop().visit(fn_)
                _NormaliseIfs().visit(fn_)
                _WhileTrueBreak().visit(fn_)
                _MergeFlagIfs().visit(fn_)
                _ChainedFlag().visit(fn_)
                _GuardContinue().visit(fn_)
                _ShiftedRange().visit(fn_)
        for st in tree.body:
            if isinstance(st, ast.FunctionDef):
                st.body = recover_comprehensions(split_conditional_statements(unroll_constant_loops(st.body, mglobals)))
            elif isinstance(st, ast.ClassDef):
                for b in st.body:
                    if isinstance(b, ast.FunctionDef):
                        b.body = recover_comprehensions(split_conditional_statements(unroll_constant_loops(b.body, mglobals)))
        ast.fix_missing_locations(tree)
    def nested_defs(fn):
        out = {}
        for x in fn.body:
            if isinstance(x, ast.FunctionDef) and not x.decorator_list:
                # only when the name is bound once in the enclosing function
                stores = sum(1 for y in ast.walk(fn) if (isinstance(y, ast.Name) and y.id == x.name and isinstance(y.ctx, ast.Store))
                             or (isinstance(y, ast.FunctionDef) and y.name == x.name and y is not fn))
                if stores == 1:
                    out[x.name] = copy.deepcopy(x)
        return out
    has_nested = any(isinstance(y, ast.FunctionDef) for tree in trees.values() for st in tree.body
                     if isinstance(st, (ast.FunctionDef, ast.ClassDef)) for y in ast.walk(st) if y is not st and
                     not (isinstance(st, ast.ClassDef) and y in st.body))
    if not any(helpers.values()) and not has_nested and \
            not any(any(n.startswith('_') and not n.startswith('__') for n in m) for m in methods.values()):
        return 0
    # keep pristine copies of the helpers: they are inlined from the original text
    helpers = {m: {k: copy.deepcopy(v) for k, v in d.items()} for m, d in helpers.items()}
    methods = {k: {n: copy.deepcopy(v) for n, v in d.items()} for k, d in methods.items()}
    inl = Inliner(helpers, methods)
    for mod, tree in trees.items():
        for st in tree.body:
            if isinstance(st, ast.FunctionDef):
                inl.local_defs = nested_defs(st)
                st.body = inl.block(st.body, mod, None, 0, helpers.get(mod, {}).get(st.name))
                inl.local_defs = {}
            elif isinstance(st, ast.ClassDef):
                for b in st.body:
                    if isinstance(b, ast.FunctionDef):
                        inl.local_defs = nested_defs(b)
                        b.body = inl.block(b.body, mod, st.name, 0, methods.get((mod, st.name), {}).get(b.name))
                        inl.local_defs = {}
        ast.fix_missing_locations(tree)
    return inl.inlined
