"""R-LIVE (liveness predicate on accessor entries) and R-ALPHA (alphabet literals)."""
import ast

from ..core import is_call, walk_term, show, AnalysisError
from ..finite import UNKNOWN

LIVE_FORM = (False, True, True)
DEAD_FORM = (True, False, False)


def live_predicates(ctx, f):
    """distinct liveness predicate terms of function f, with the node of first occurrence"""
    seen, out = set(), []
    K = ctx.kinds
    for nd, s in ctx.all_subterms(f):
        cand = False
        if s[0] == 'cmp' and (s[2][0] == 'c' or s[3][0] == 'c'):
            c = s[2] if s[2][0] == 'c' else s[3]
            cand = isinstance(c[1], int) and not isinstance(c[1], bool)
        elif s[0] == 'call' and s[1][0] == 'attr' and s[1][2] == 'astype':
            cand = True
        if not cand or s in seen:
            continue
        if K.row_of_pred(s, f) is None:
            continue
        seen.add(s)
        out.append((nd, s))
    # row-level liveness through an aggregate: max(ACC, axis=1) <op> c  (a row is live iff its largest entry is >= 0)
    for nd, s in ctx.all_subterms(f):
        if s[0] == 'cmp' and s not in seen:
            for a, b in ((s[2], s[3]), (s[3], s[2])):
                if b[0] == 'c' and isinstance(b[1], int) and a[0] == 'call' and a[1][0] == 'g' and \
                        a[1][1] in ('numpy.max', 'numpy.amax') and a[2] and K.kind(a[2][0], f) in ('ACC', 'ROW') and \
                        any(k == 'axis' for k, _ in a[3]):
                    seen.add(s)
                    out.append((nd, s))
    return out


def r_live(ctx, fqs, floor=0, what=''):
    run = ctx.run
    run.rule('R-LIVE', "every predicate on accessor entries is false on -1 and true on 0 and on positive targets "
                       "(vertex 0 is a legitimate target), decided on the entry classes {-1, 0, positive}")
    n = 0
    for fq in sorted(fqs):
        f = ctx.p.func(fq)
        for i, (nd, pred) in enumerate(live_predicates(ctx, f)):
            n += 1
            tab = ctx.kinds.live_table(pred, f)
            run.count('cases', 3)
            role = 'live-predicate#%d' % (i + 1)
            ext = {'predicate': show(pred), 'table(-1,0,+)': [str(x) for x in tab]}
            if tab in (LIVE_FORM, DEAD_FORM):
                run.ok('R-LIVE', f, role, nd.lineno, extracted=ext)
            elif any(x is UNKNOWN for x in tab):
                run.undecided('R-LIVE', f, role, nd.lineno, 'predicate on accessor entries not evaluable: ' + show(pred),
                              extracted=ext)
            else:
                why = []
                if tab[1] == tab[0]:
                    why.append("an arc into vertex 0 (AA..A) is treated like a missing arc")
                if tab[0] == tab[2]:
                    why.append("a missing arc (-1) is treated like a live arc")
                run.refute('R-LIVE', f, role, nd.lineno,
                           "liveness predicate %s has table %s on entries (-1, 0, positive); required (False, True, True)"
                           % (show(pred), tab), extracted=ext, expected='-1:False 0:True +:True',
                           inputs='; '.join(why) or 'graphs with arcs into vertex 0')
    # truthiness of vertex numbers: any(entries) / all(entries) / bool(entry) treats vertex 0 as "nothing" and -1 as "something"
    K = ctx.kinds
    for fq in sorted(fqs):
        f = ctx.p.func(fq)
        seen = set()
        for nd, s_ in ctx.all_subterms(f):
            if is_call(s_, 'builtins.any', 'builtins.all', 'numpy.any', 'numpy.all') and len(s_[2]) == 1 and s_ not in seen:
                a = s_[2][0]
                while a[0] == 'call' and a[1][0] == 'attr' and a[1][2] in ('tolist', 'copy', 'astype') :
                    a = a[1][1]
                if is_call(a, 'builtins.list', 'builtins.tuple') and a[2]:
                    a = a[2][0]
                if K.kind(a, f) in ('ROW', 'COL', 'ACC'):
                    seen.add(s_)
                    n += 1
                    run.refute('R-LIVE', f, 'truthiness-of-entries', nd.lineno,
                               "%s tests the truthiness of accessor entries %s: entries are vertex numbers, so vertex 0 (AA..A) counts "
                               "as false and a missing arc (-1) as true" % (show(s_)[:60], show(a)[:40]),
                               extracted={'predicate': show(s_)[:80]}, expected='-1:False 0:True +:True',
                               inputs='a vertex whose only (remaining) successor is vertex 0')
    run.floor('R-LIVE', what or 'liveness predicates in %d functions' % len(fqs), n, floor)
    return n


def r_alpha(ctx, fqs, floor=0):
    """every 4-letter alphabet literal used for index <-> letter conversion is "ACGT" """
    run = ctx.run
    run.rule('R-ALPHA', 'every alphabet literal used for index<->letter conversion is "ACGT"')
    n = 0
    for fq in sorted(fqs):
        f = ctx.p.func(fq)
        k = 0
        seen = set()

        def is_lit(x):
            return x[0] == 'c' and isinstance(x[1], str) and len(x[1]) == 4 and set(x[1].upper()) == set('ACGT')
        # the literal in a CONVERSION role: LIT[i], LIT.index(x) / LIT.find(x), enumerate(LIT), dict(zip(LIT, ...)).  A literal that is
        # only searched (x in LIT), or is the table of a complement map (maketrans / translate / replace), says nothing about indices
        conv = set()
        mentioned = set()
        for nd, s in ctx.all_subterms(f):
            if is_lit(s):
                mentioned.add(s[1])
            if s[0] == 'sub' and is_lit(s[1]):
                conv.add((s[1][1], nd.lineno))
            if s[0] == 'attr' and s[2] in ('index', 'find', 'rindex', 'rfind') and is_lit(s[1]):
                conv.add((s[1][1], nd.lineno))      # called, or handed on as a function (map(LIT.index, ...))
            if s[0] == 'idx' and is_lit(s[1]):
                conv.add((s[1][1], nd.lineno))      # the INDEX over the literal; iterating its letters alone converts nothing
            if is_call(s, 'builtins.enumerate', 'builtins.zip') and any(is_lit(a) for a in s[2]) and \
                    not any(a[0] == 'c' and a[1] != s[2][0][1] and is_lit(a) for a in s[2][1:]):
                for a in s[2]:
                    if is_lit(a):
                        conv.add((a[1], nd.lineno))
        for lit in sorted(mentioned - {c for c, _l in conv}):
            if lit not in seen:
                seen.add(lit)
                n += 1          # present, but not in a conversion role
        for lit, line in sorted(conv):
            s = ('c', lit)
            nd = type('N', (), {'lineno': line})
            if s[1] not in seen:
                seen.add(s[1])
                n += 1
                k += 1
                run.check(s[1] == 'ACGT', 'R-ALPHA', f, 'alphabet-literal#%d' % k, nd.lineno,
                          bad_detail='alphabet literal %r differs from "ACGT": index<->letter conversion '
                                     'disagrees with the rest of the package' % s[1],
                          nontrivial=False, inputs='every strand / k-mer')
    run.floor('R-ALPHA', 'alphabet literals', n, floor)
    return n
