"""R-VTFORM (check formula), R-FILTER (LocalBioFilter.valid), GC ordering tables."""
import ast

from ..core import AnalysisError, TermBuilder, call_arg, call_name, is_call, show, walk_term
from ..ctx import flatten_cond
from ..finite import UNKNOWN, feval
from ..kinds import ALPHA
from .repair import affine, aff_eq, aff_show, aff_sub
from .graph import strip_int
from .misc2 import _tri

NONE = ('c', None)


def r_vtform(ctx):
    run = ctx.run
    run.rule('R-VTFORM', "set_vt returns ALPHA[(sum V) mod 4] + number_to_dna(int((sum of 0-based i with V[i+1] > V[i]) "
                         "mod 4^(n-1)), n-1) with V[i] = ALPHA.index(strand[i]): slice offsets (1, 0), strict ascent "
                         "(orderings table), no index offset, modulus exponent = rendered width = vt_length - 1")
    f = ctx.p.func('dsw.spiderweb.set_vt')
    rets = list(f.stmts(ast.Return))
    n = ('v', 'vt_length', 'P')
    strand = ('v', 'dna_sequence', 'P')
    if not rets:
        raise AnalysisError("rule R-VTFORM: set_vt has no return")
    main = []
    for r in rets:
        t = f.term(r.stmt.value, r)
        if t[0] == 'bin' and t[1] == '+' and call_name(t[3]) and call_name(t[3]).endswith('.number_to_dna'):
            main.append(r)
            continue
        # a shortcut return: only the empty strand may bypass the formula, and only with ALPHA[0] * vt_length
        lens = []
        for atom, pol in ctx.conds(f, r):
            for L in (0, 1, 2):
                v = feval(atom, lambda x, L=L: L if x == ('call', ('g', 'builtins.len'), (strand,), ()) else
                          (('x' * L) if x == strand else UNKNOWN))
                lens.append((L, UNKNOWN if v is UNKNOWN else bool(v) == pol))
        reach = {L for L in (0, 1, 2) if all(ok is True for l2, ok in lens if l2 == L) and any(l2 == L for l2, ok in lens)}
        val_ok = t == ('bin', '*', ('c', 'A'), n) or t == ('bin', '*', n, ('c', 'A'))
        run.check(val_ok and reach == {0}, 'R-VTFORM', f, 'shortcut-return', r.lineno,
                  'shortcut only for the empty strand, returning A * vt_length',
                  "set_vt returns %s without computing the check when the strand has length in %s: for a strand of length 1 "
                  "the first symbol must still encode the nucleotide (sum mod 4), so substitutions on it would go unseen"
                  % (show(t)[:60], sorted(reach) if reach else 'an unrecognised condition'),
                  inputs='strands of length 1')
    if len(main) != 1:
        raise AnalysisError("rule R-VTFORM: set_vt has %d returns of the formula shape" % len(main))
    nd = main[0]
    t = f.term(nd.stmt.value, nd)
    if not (t[0] == 'bin' and t[1] == '+'):
        run.undecided('R-VTFORM', f, 'result-shape', nd.lineno, 'return term %s' % show(t)[:100])
        return
    head, tail = t[2], t[3]
    ok_head = head[0] == 'sub' and head[1] == ('c', ALPHA)
    ok_tail = call_name(tail) is not None and call_name(tail).endswith('.number_to_dna')
    run.check(ok_head and ok_tail, 'R-VTFORM', f, 'result-shape', nd.lineno, 'ALPHA[flag] + number_to_dna(...)',
              'set_vt returns %s, not ALPHA[flag] + number_to_dna(value, width)' % show(t)[:120], inputs='every strand')
    if not (ok_head and ok_tail):
        return

    def values_term(x):
        """array([ALPHA.index(c) for c in strand]) -> True"""
        if is_call(x, 'numpy.array', 'numpy.asarray') and x[2]:
            x = x[2][0]
        if x[0] == 'comp' and len(x[3]) == 1 and x[3][0][0] == strand and not x[3][0][1]:
            e = x[2]
            return e[0] == 'call' and e[1] == ('attr', ('c', ALPHA), 'index') and len(e[2]) == 1 and e[2][0][0] == 'iter' \
                and e[2][0][1] == strand
        if is_call(x, 'builtins.list', 'builtins.tuple') and x[2]:
            x = x[2][0]
        if is_call(x, 'builtins.map') and len(x[2]) == 2:
            m = x[2]
            return m[0] == ('attr', ('c', ALPHA), 'index') and m[1] == strand
        return False
    # (i) flag
    flag = strip_int(head[2])
    ok = flag[0] == 'bin' and flag[1] == '%' and flag[3] == ('c', 4) and is_call(flag[2], 'numpy.sum', 'builtins.sum') \
        and len(flag[2][2]) == 1 and values_term(flag[2][2][0])
    wit = flag[0] == 'bin' and flag[1] == '%' and flag[3][0] == 'c' and flag[3] != ('c', 4)
    if flag[0] == 'bin' and flag[1] == '%' and flag[3] == ('c', 4) and is_call(strip_int(flag[2]), 'numpy.sum', 'builtins.sum') \
            and len(strip_int(flag[2])[2]) == 1:
        inner = strip_int(flag[2])[2][0]
        ok = ok or values_term(inner)
        # a sum over part of the values (a slice) is a recognised deviation
        if inner[0] == 'sub' and inner[2][0] == 'slice' and values_term(inner[1]):
            wit = True
    _tri(run, ok, wit, 'R-VTFORM', f, 'flag=(sum V) mod 4', nd.lineno, 'first symbol encodes the nucleotide sum modulo 4',
              'the first check symbol is ALPHA[%s], not ALPHA[(sum of nucleotide values) mod 4]' % show(flag)[:120],
              inputs='strands where the two differ; a single substitution may leave the first symbol unchanged')
    # (ii)-(iii) value
    val = strip_int(call_arg(tail, 0, 'decimal_number'))
    width = call_arg(tail, 1, 'dna_length')
    wa = affine(width) if width is not None else None
    want = {n: 1, 1: -1}
    run.check(wa is not None and aff_eq(wa, want), 'R-VTFORM', f, 'width=n-1', nd.lineno, 'rendered width is vt_length - 1',
              'the position sum is rendered at width %s, not vt_length - 1: the check is not exactly vt_length symbols'
              % aff_show(wa), inputs='every check length')
    if not (val[0] == 'bin' and val[1] == '%'):
        run.refute('R-VTFORM', f, 'modulus=4^(n-1)', nd.lineno,
                   'the position sum %s is not reduced modulo 4^(vt_length-1): number_to_dna pads but never truncates, so the '
                   'check can be longer than vt_length' % show(val)[:100], inputs='long strands')
        return
    mod = strip_int(val[3])
    ea = affine(mod[3]) if (mod[0] == 'bin' and mod[1] == '**' and mod[2] == ('c', 4)) else None
    run.check(ea is not None and aff_eq(ea, want), 'R-VTFORM', f, 'modulus=4^(n-1)', nd.lineno,
              'modulus exponent is vt_length - 1 (= rendered width)',
              'the position sum is reduced modulo %s; required 4^(vt_length-1) so that it fits the rendered width exactly'
              % show(mod)[:80], inputs='strands whose ascent sum exceeds the smaller modulus / width')
    s = strip_int(val[2])
    if not (is_call(s, 'numpy.sum', 'builtins.sum') and len(s[2]) == 1):
        run.undecided('R-VTFORM', f, 'ascent-sum', nd.lineno, 'ascent term %s' % show(s)[:100])
        return
    pos = s[2][0]
    if is_call(pos, 'numpy.flatnonzero') and len(pos[2]) == 1:
        pos = ('sub', ('call', ('g', 'numpy.where'), pos[2], ()), ('c', 0))     # flatnonzero(c) is where(c)[0] for 1-D c
    if pos[0] == 'sub' and pos[2] == ('c', 0) and pos[1][0] == 'call' and pos[1][1][0] == 'attr' and pos[1][1][2] == 'nonzero':
        pos = ('sub', ('call', ('g', 'numpy.where'), (pos[1][1][1],), ()), ('c', 0))
    offset_ok = pos[0] == 'sub' and pos[2] == ('c', 0) and is_call(pos[1], 'numpy.where', 'numpy.nonzero') and len(pos[1][2]) == 1
    if not offset_ok:
        # sum(where(..)[0] + 1) and friends
        inner = [x for x in walk_term(pos) if x[0] == 'sub' and x[2] == ('c', 0) and is_call(x[1], 'numpy.where', 'numpy.nonzero')]
        run.refute('R-VTFORM', f, 'positions-0-based', nd.lineno,
                   'the summed ascent positions are %s, not the 0-based indices where(...)[0]' % show(pos)[:100],
                   inputs='every strand with an ascent')
        if not inner:
            return
        pos = inner[0]
    else:
        run.ok('R-VTFORM', f, 'positions-0-based', nd.lineno, 'positions are the 0-based indices of where(...)[0]')
    pred = pos[1][2][0]
    # slices
    sl = {}
    for x in walk_term(pred):
        if x[0] == 'sub' and x[2][0] == 'slice' and values_term(x[1]):
            sl[x] = (x[2][1], x[2][2], x[2][3])
    nxt = [k for k, v in sl.items() if v == (('c', 1), NONE, NONE)]
    cur = [k for k, v in sl.items() if v == (NONE, ('c', -1), NONE)]
    rolled = [x for x in walk_term(pred) if is_call(x, 'numpy.roll') and x[2] and values_term(x[2][0])]
    if not sl and rolled:
        run.refute('R-VTFORM', f, 'pair=(i+1,i)', nd.lineno,
                   'the ascent predicate compares the value array with %s: numpy.roll is circular, so the LAST position is compared '
                   'with the FIRST nucleotide and is added to the position sum whenever the strand starts higher than it ends'
                   % show(rolled[0])[:40], inputs='strands whose first nucleotide is larger than the last one')
        return
    if not sl:
        run.undecided('R-VTFORM', f, 'pair=(i+1,i)', nd.lineno, 'the ascent predicate %s does not compare slices of the value array'
                      % show(pred)[:80])
        return
    if len(sl) != 2 or len(nxt) != 1 or len(cur) != 1:
        run.refute('R-VTFORM', f, 'pair=(i+1,i)', nd.lineno,
                   'the ascent predicate compares %s; required V[1:] (next) against V[:-1] (current)'
                   % [show(k)[-14:] for k in sl], inputs='every strand')
        return
    run.ok('R-VTFORM', f, 'pair=(i+1,i)', nd.lineno, 'compares V[1:] with V[:-1]')
    tab = []
    for a, b in ((1, 2), (2, 2), (3, 2)):      # (next, current)
        tab.append(feval(pred, lambda x: a if x == nxt[0] else (b if x == cur[0] else UNKNOWN)))
    ctx.run.count('cases', 3)
    run.check(tuple(tab) == (False, False, True), 'R-VTFORM', f, 'strict-ascent', nd.lineno,
              'position counted iff next > current',
              'a position is counted with table %s for next<cur, next=cur, next>cur; the documented function counts '
              'strict ascents only (False, False, True)' % (tab,), extracted=[str(x) for x in tab],
              inputs='strands with equal neighbours (or descents)')


# ----------------------------------------------------------------------------------------------
def self_attr(t, name):
    return t == ('attr', ('v', 'self', 'P'), name)


def r_filter(ctx):
    run = ctx.run
    run.rule('R-FILTER', "LocalBioFilter.valid: only_last only selects the judged string (last k symbols / everything) and "
                         "every check reads the selected string; characters tested against ACGT; forbidden run has length "
                         "r+1; motif and reversed Watson-Crick complement both searched; the window arm enumerates all "
                         "len-k+1 windows s[i:i+k]; GC tests reject only strictly outside [lo*k, hi*k]; the short-string "
                         "arm tests G+C against hi*k and A+T against (1-lo)*k")
    f = ctx.p.func('dsw.biofilter.LocalBioFilter.valid')
    k = ('attr', ('v', 'self', 'P'), 'observed_length')
    pname = [p for p in f.positional if p != 'self'][0]
    seq = ('v', pname, 'P')
    # ---- selection
    sel_defs = [d for d in f.defs if d.kind == 'assign' and d.value is not None and
                any(isinstance(x, ast.Name) and x.id == pname for x in ast.walk(d.value))]
    if len({d.name for d in sel_defs}) != 1:
        # keep only the definitions that select from the argument (the argument itself or a slice of it); helper values such
        # as `start = len(s) - k` merely mention it
        def selects(d):
            v = d.value
            if isinstance(v, ast.IfExp):
                return any(selects_expr(x) for x in (v.body, v.orelse))
            return selects_expr(v)

        def selects_expr(v):
            return (isinstance(v, ast.Name) and v.id == pname) or \
                (isinstance(v, ast.Subscript) and isinstance(v.value, ast.Name) and v.value.id == pname)
        sel_defs = [d for d in sel_defs if selects(d)]
    names = {d.name for d in sel_defs}
    if len(names) != 1:
        raise AnalysisError("rule R-FILTER lost its anchor: judged string selected into %s" % sorted(names))
    judged = names.pop()
    arms = {}
    for d in sel_defs:
        t = TermBuilder(f, d.node).def_term(d.id)
        pol = None
        for atom, p in ctx.conds(f, f.nodes[d.node]):
            if atom == ('v', 'only_last', 'P'):
                pol = p
        if pol is None and t is not None and t[0] == 'ifexp':
            for atom, p in flatten_cond(t[1], True):
                if atom == ('v', 'only_last', 'P'):
                    arms[p], arms[not p] = t[2], t[3]
            continue
        if pol is None and t is not None and t[0] == 'sub' and t[1] == seq and t[2][0] == 'slice' and t[2][2] == NONE and \
                t[2][3] == NONE:
            # s[start:] with start decided by only_last elsewhere: one arm per definition of the bound
            alts = f.alternatives(t[2][1])
            if alts and len(alts) == 2:
                for d2, t2 in alts:
                    for atom, p in ctx.conds(f, f.nodes[d2.node]):
                        if atom == ('v', 'only_last', 'P') and t2 is not None:
                            arms[p] = seq if t2 == ('c', 0) else ('sub', seq, ('slice', t2, NONE, NONE))
                continue
        arms[pol] = t
    # `s = whole` first, then `if only_last: s = s[-k:]` (or the mirror image): the unconditional definition is the other arm
    if None in arms and len(sel_defs) == 2:
        for p_ in (True, False):
            if p_ in arms and (not p_) not in arms:
                arms[not p_] = arms[None]
    want_last = ('sub', seq, ('slice', ('un', '-', k), NONE, NONE))
    ok = arms.get(True) == want_last and arms.get(False) == seq
    recognised = arms.get(True) is not None and arms.get(False) is not None
    _tri(run, ok, recognised and not ok, 'R-FILTER', f, 'selection', f.nodes[sel_defs[0].node].lineno,
              'only_last selects s[-k:], otherwise the whole string',
              'the judged string is %s (only_last) / %s (whole); required s[-k:] / s'
              % (show(arms.get(True))[:60] if arms.get(True) else None, show(arms.get(False))[:60] if arms.get(False) else None),
              inputs='strings longer than the window')
    sel_nodes = {d.node for d in sel_defs}
    stray = [nd for nd in f.nodes if nd.id not in sel_nodes for r in ctx.roots(nd) for x in ast.walk(r)
             if isinstance(x, ast.Name) and x.id == pname]
    run.check(not stray, 'R-FILTER', f, 'checks-read-selected-string-only', stray[0].lineno if stray else f.node.lineno,
              'no check reads the unselected argument',
              'a check at line %s reads the full argument `%s` instead of the selected string: with only_last=True the '
              'verdict depends on symbols outside the last window' % (stray[0].lineno if stray else '', pname),
              inputs='only_last=True with a violation before the last window')
    only_reads = [n for n in ast.walk(f.node) if isinstance(n, ast.Name) and n.id == 'only_last' and isinstance(n.ctx, ast.Load)]
    run.check(len(only_reads) == 1, 'R-FILTER', f, 'only_last-read-once', f.node.lineno, 'only_last is read once',
              'only_last is read %d times: it must only select the judged string' % len(only_reads), nontrivial=False)
    # ---- collect the rejecting tests
    rejects = []

    def add_reject(nd, t, pol, tn):
        # a rejecting disjunction is one rejecting test per disjunct
        if t[0] == 'bool' and ((t[1] == 'or' and pol) or (t[1] == 'and' and not pol)):
            for x in t[2:]:
                add_reject(nd, x, pol, tn)
        elif t[0] == 'un' and t[1] == 'not':
            add_reject(nd, t[2], not pol, tn)
        elif is_call(t, 'builtins.any') and pol and len(t[2]) == 1 and t[2][0][0] == 'comp' and len(t[2][0][3]) >= 1 \
                and not any(g_[1] for g_ in t[2][0][3]):
            add_reject(nd, t[2][0][2], True, tn)        # rejected when some element satisfies the test
        elif is_call(t, 'builtins.all') and not pol and len(t[2]) == 1 and t[2][0][0] == 'comp' and len(t[2][0][3]) == 1 \
                and not t[2][0][3][0][1]:
            add_reject(nd, t[2][0][2], False, tn)       # rejected when some element fails the test
        else:
            rejects.append((nd, t, pol, tn))
    for nd in f.stmts(ast.Return):
        v = nd.stmt.value
        if isinstance(v, ast.Constant) and v.value is False and nd.conds:
            test, pol, tid = nd.conds[-1]
            add_reject(nd, f.term(test, f.nodes[tid]), pol, f.nodes[tid])
        elif v is not None and not isinstance(v, ast.Constant) and isinstance(v, (ast.UnaryOp, ast.Compare, ast.BoolOp)):
            # `return E`: the string is rejected exactly when E is false
            add_reject(nd, f.term(v, nd), False, nd)
    J = None
    found = {'char': 0, 'run': 0, 'motif': 0, 'rc': 0, 'gc': []}
    for nd, t, pol, tn in rejects:
        for atom, p in flatten_cond(t, pol):
            if atom[0] == 'cmp' and atom[1] == 'in':
                needle, hay = atom[2], atom[3]
                if hay == ('c', 'ACGT') and not p:
                    found['char'] += 1
                    okc = needle[0] == 'iter' and needle[1][0] == 'v' and needle[1][1] == judged
                    run.check(okc, 'R-FILTER', f, 'characters', nd.lineno, 'every symbol of the judged string must be in ACGT',
                              'the character test iterates %s' % show(needle)[:60], inputs='foreign characters')
                elif hay == ('c', 'ACGT'):
                    run.refute('R-FILTER', f, 'characters', nd.lineno, 'the character test rejects symbols that ARE in ACGT',
                               inputs='every string')
                elif p and needle[0] == 'bin' and needle[1] == '*':
                    found['run'] += 1
                    a, b = needle[2], needle[3]
                    def _one(x):
                        return x[0] == 'c' and isinstance(x[1], str) and len(x[1]) == 1
                    a_is_letter = a[0] == 'iter' or (a[0] == 'sub' and a[1] == ('c', 'ACGT')) or _one(a)
                    cnt = b if a_is_letter else a
                    letter = a if a_is_letter else b
                    ca = affine(cnt)
                    r = ('attr', ('v', 'self', 'P'), 'max_homopolymer_runs')
                    # a letter of ACGT: the element of an iteration over "ACGT", or "ACGT"[i] for i in range(4)
                    is_letter = (letter[0] == 'iter' and letter[1][0] == 'c' and isinstance(letter[1][1], str) and
                                 sorted(letter[1][1]) == sorted('ACGT')) or \
                        (letter[0] == 'sub' and letter[1] == ('c', 'ACGT') and letter[2][0] in ('iter', 'idx') and
                         (letter[2][1] == ('c', 'ACGT') or (is_call(letter[2][1], 'builtins.range') and letter[2][1][2] == (('c', 4),))))
                    if _one(letter) and letter[1] in 'ACGT':
                        # a loop over the four letters written out (or unrolled): each test names one letter, all four must occur
                        is_letter = True
                        found.setdefault('run_letters', set()).add(letter[1])
                    okr = ca is not None and aff_eq(ca, {r: 1, 1: 1}) and is_letter
                    run.check(okr, 'R-FILTER', f, 'run-pattern=r+1', nd.lineno, 'forbidden run is r+1 equal letters of ACGT',
                              'the forbidden homopolymer pattern is %s; required letter * (max_homopolymer_runs + 1) for each '
                              'letter of ACGT' % show(needle)[:80], inputs='runs of exactly r or r+1 letters')
                elif p and hay[0] == 'iter' and hay[1][0] in ('tuple', 'list') and len(hay[1]) >= 2 and needle[0] == 'iter':
                    # `motif in strand for strand in (s, <transformed s>)`: a motif occurs on the opposite strand iff its reverse
                    # complement occurs in s, i.e. iff the motif occurs in the reverse complement of s
                    for item in hay[1][1:]:
                        if item[0] == 'v' and item[1] == judged:
                            found['motif'] += 1
                        else:
                            found['rc'] += 1
                            check_revcomp(ctx, f, item, nd, of_judged=judged)
                elif p and needle[0] == 'iter' and needle[1][0] in ('tuple', 'list') and len(needle[1]) >= 2:
                    # `for pattern in (motif, <its reverse complement>)`: each item of the display is a needle of its own
                    for item in needle[1][1:]:
                        if item[0] == 'iter':
                            found['motif'] += 1
                        else:
                            found['rc'] += 1
                            check_revcomp(ctx, f, item, nd)
                elif p and needle[0] == 'iter':
                    found['motif'] += 1
                elif p:
                    # reverse complement
                    found['rc'] += 1
                    check_revcomp(ctx, f, needle, nd)
            elif atom[0] == 'cmp' and atom[1] in ('<', '>', '<=', '>='):
                found['gc'].append((nd, atom, p))
    # a rule kind without a recognised rejecting test is a refutation only when its ingredients are absent from the class
    # altogether (the rule was deleted); when they are present but arranged differently (helpers, any()/all()) the rule
    # cannot decide
    scope = f.module.tree
    consts = {n_ for n_, v_ in f.module.globals.items() if isinstance(v_, ast.Constant) and v_.value == 'ACGT'}
    # local names bound to the alphabet anywhere in the class
    for a_ in ast.walk(scope):
        if isinstance(a_, ast.Assign) and isinstance(a_.value, ast.Constant) and a_.value.value == 'ACGT':
            consts |= {t_.id for t_ in a_.targets if isinstance(t_, ast.Name)}

    def is_alpha_node(x):
        return (isinstance(x, ast.Constant) and x.value == 'ACGT') or (isinstance(x, ast.Name) and x.id in consts)
    char_ing = any(isinstance(c_, ast.Compare) and any(isinstance(o, (ast.In, ast.NotIn)) for o in c_.ops) and
                   any(is_alpha_node(x) for x in c_.comparators) for c_ in ast.walk(scope)) or \
        any(isinstance(c_, ast.Call) and isinstance(c_.func, ast.Attribute) and c_.func.attr in ('find', 'index', 'count', 'issubset',
                                                                                                 'issuperset', 'translate', 'strip')
            and (is_alpha_node(c_.func.value) or any(is_alpha_node(a_) for a_ in c_.args)) for c_ in ast.walk(scope)) or \
        any(isinstance(c_, ast.Call) and isinstance(c_.func, ast.Name) and c_.func.id in ('set', 'frozenset') and
            any(is_alpha_node(a_) for a_ in c_.args) for c_ in ast.walk(scope))
    rev_names = set()
    for a_ in ast.walk(scope):
        if isinstance(a_, ast.Assign) and len(a_.targets) == 1 and isinstance(a_.targets[0], ast.Name):
            if any((isinstance(x, ast.Slice) and isinstance(x.step, ast.UnaryOp)) or
                   (isinstance(x, ast.Call) and isinstance(x.func, ast.Name) and x.func.id == 'reversed') for x in ast.walk(a_.value)):
                rev_names.add(a_.targets[0].id)
    rc_ing = False
    for c_ in ast.walk(scope):
        if isinstance(c_, ast.Compare) and any(isinstance(o, (ast.In, ast.NotIn)) for o in c_.ops):
            if any(isinstance(x, ast.Name) and x.id in rev_names for x in ast.walk(c_.left)) or \
                    any((isinstance(x, ast.Slice) and isinstance(x.step, ast.UnaryOp)) for x in ast.walk(c_.left)):
                rc_ing = True
        if isinstance(c_, ast.Return) and c_.value is not None and any(
                (isinstance(x, ast.Slice) and isinstance(x.step, ast.UnaryOp)) or (isinstance(x, ast.Name) and x.id in rev_names)
                for x in ast.walk(c_.value)):
            rc_ing = True       # a helper that returns the reverse complement
    if not rc_ing:
        # the ingredients of a reverse complement anywhere in the class (a nested generator, a helper, a translate table): present
        # but arranged in a way this rule does not follow - not absent
        # ... unless the only reversal feeds a variable that is never read again (the test was deleted, the computation left)
        own_defs = {id(n_) for a_ in ast.walk(scope) if isinstance(a_, ast.Assign) and len(a_.targets) == 1 and
                    isinstance(a_.targets[0], ast.Name) and a_.targets[0].id in rev_names for n_ in ast.walk(a_.value)}
        read_elsewhere = {n_.id for n_ in ast.walk(scope) if isinstance(n_, ast.Name) and isinstance(n_.ctx, ast.Load) and
                          n_.id in rev_names and id(n_) not in own_defs}
        dead_assign_nodes = {id(n_) for a_ in ast.walk(scope) if isinstance(a_, ast.Assign) and len(a_.targets) == 1 and
                             isinstance(a_.targets[0], ast.Name) and a_.targets[0].id in rev_names and
                             a_.targets[0].id not in read_elsewhere for n_ in ast.walk(a_.value)}
        for x in ast.walk(scope):
            if id(x) in dead_assign_nodes:
                continue
            if (isinstance(x, ast.Slice) and isinstance(x.step, ast.UnaryOp)) or \
                    (isinstance(x, ast.Call) and isinstance(x.func, ast.Name) and x.func.id == 'reversed') or \
                    (isinstance(x, ast.Call) and isinstance(x.func, ast.Attribute) and x.func.attr in ('translate', 'maketrans')):
                rc_ing = True
    valid_src = ast.unparse(f.cls) if f.cls is not None else ast.unparse(f.node)
    ingredients = {'char': char_ing, 'run': valid_src.count('max_homopolymer_runs') >= 4,
                   'motif': valid_src.count('undesired_motifs') >= 4, 'rc': rc_ing}
    if found.get('run_letters') and found['run_letters'] != set('ACGT'):
        run.refute('R-FILTER', f, 'run-pattern:all-four-letters', f.node.lineno,
                   'homopolymer runs are only tested for the letters %s' % sorted(found['run_letters']),
                   inputs='runs of %s' % sorted(set('ACGT') - found['run_letters']))
    missing = [k_ for k_ in ('char', 'run', 'motif', 'rc') if found[k_] < 1]
    gone = [k_ for k_ in missing if not ingredients[k_]]
    _tri(run, not missing, bool(gone), 'R-FILTER', f,
              'all-four-rule-kinds-present', f.node.lineno, 'character, run, motif and reverse-complement tests all reject'
              + ('; not recognised: %s' % missing if missing else ''),
              'a rule kind of the documented predicate has no rejecting test and its ingredients are gone from the module: %s'
              % gone, inputs='strings violating the missing rule')
    check_gc(ctx, f, found['gc'], judged, k)
    check_windows(ctx, f, judged, k)
    # no rule may be skipped: the path conditions of a rejecting test are only configuration guards (cfg is not None),
    # the negations of other rejecting tests, and the window / short-string split
    reject_tests = {tn.id for nd, t, pol, tn in rejects}
    n = 0
    for nd, t, pol, tn in rejects:
        for test, p, tid in nd.conds:
            if tid in reject_tests:
                continue
            a = f.term(test, f.nodes[tid])
            okc = False
            for atom, pp in flatten_cond(a, p):
                if atom[0] == 'cmp' and atom[1] == 'is' and atom[3] == NONE and atom[2][0] == 'attr' and not pp:
                    okc = True       # self.<cfg> is not None
                elif atom[0] == 'cmp' and atom[1] in ('<', '<=') and (is_call(atom[2], 'builtins.len') or is_call(atom[3], 'builtins.len')):
                    okc = True       # window arm / short arm
                elif atom[0] == 'cmp' and atom[1] in ('<', '<=', '==', '!=') and any(is_call(x_, 'builtins.len') for x_ in walk_term(atom)) \
                        and not any(x_[0] == 'call' and x_[1][0] == 'attr' and x_[1][2] in ('count', 'find', 'index') for x_ in walk_term(atom)):
                    okc = True       # the same split written as an arithmetic form of the length (len(s) - k >= 0)
                elif atom[0] == 'bool' and all(
                        (x_[0] == 'cmp' and x_[1] in ('is', 'is not') and x_[3] == NONE and x_[2][0] == 'attr') or
                        (x_[0] == 'cmp' and x_[1] in ('<', '<=') and (is_call(x_[2], 'builtins.len') or is_call(x_[3], 'builtins.len')))
                        for x_ in atom[2:]):
                    okc = True       # a compound of the two: `cfg is not None and len(s) >= k` negated as a whole
                else:
                    okc = False
                    break
            n += 1
            if not okc:
                run.refute('R-FILTER', f, 'rule-never-skipped:line-test', nd.lineno,
                           "the rejecting test at line %d is only reached when %s is %s: for the other inputs this rule of the "
                           "documented predicate is skipped" % (nd.lineno, ast.unparse(test)[:60], p),
                           inputs='inputs for which the skipping condition holds, e.g. motifs that read the same backwards')
    if n:
        run.ok('R-FILTER', f, 'rule-never-skipped', f.node.lineno, '%d guarding conditions are configuration / arm guards' % n)


def _translate_table(t):
    """str.maketrans("ACGT", "TGCA") / {ord("A"): "T", ...} / {65: "T", ...} -> {letter: letter} or None"""
    if t[0] == 'call' and ((t[1][0] == 'attr' and t[1][2] == 'maketrans') or t[1] == ('g', 'builtins.str.maketrans')) and \
            len(t[2]) == 2 and all(a[0] == 'c' and isinstance(a[1], str) for a in t[2]) and len(t[2][0][1]) == len(t[2][1][1]):
        return dict(zip(t[2][0][1], t[2][1][1]))
    if t[0] == 'dict':
        out = {}
        for kv in t[1:]:
            k, v = kv
            if is_call(k, 'builtins.ord') and len(k[2]) == 1 and k[2][0][0] == 'c':
                k = ('c', ord(k[2][0][1]))
            if k[0] == 'c' and isinstance(k[1], int) and v[0] == 'c' and isinstance(v[1], str):
                out[chr(k[1])] = v[1]
            elif k[0] == 'c' and isinstance(k[1], str) and len(k[1]) == 1 and v[0] == 'c' and isinstance(v[1], str):
                out[k[1]] = v[1]
            else:
                return None
        return out
    return None


def check_revcomp(ctx, f, t, nd, of_judged=None):
    run = ctx.run
    # peel upper() / [::-1] / replace chain; simulate the chain on "ACGT" (term interpretation, nothing is executed)
    ops = []
    x = t
    base = None
    if t[0] == 'v' and isinstance(t[2], tuple):
        # the tested needle is accumulated in a loop.  If the accumulator is started OUTSIDE the loop over the motifs, the needle
        # of motif i is built from motifs 1..i (a stale value carried from one iteration to the next)
        by_id = {d.id: d for d in f.defs}
        for did in t[2]:
            d = by_id.get(did)
            if d is None or d.value is None or not any(isinstance(n, ast.Name) and n.id == t[1] for n in ast.walk(d.value)):
                continue
            dn = f.nodes[d.node]
            at = f.term(ast.Name(id=t[1], ctx=ast.Load()), dn)
            reach = at[2] if at[0] == 'v' and isinstance(at[2], tuple) else ()
            for L in nd.loops:
                if L not in dn.loops:
                    continue
                it = f.nodes[L].stmt.iter if isinstance(f.nodes[L].stmt, ast.For) else None
                if it is None or 'undesired_motifs' not in ast.unparse(it):
                    continue
                outside = [by_id[r] for r in reach if r in by_id and L not in f.nodes[by_id[r].node].loops]
                if outside and did in reach:
                    run.refute('R-FILTER', f, 'complement-of-the-motif', dn.lineno,
                               'the tested reverse complement `%s` is accumulated at line %d from its previous value, and it is started '
                               '(line %d) outside the loop over the motifs: from the second motif on it still carries the complement '
                               'of the earlier motifs and the reverse complement of that motif alone is never tested'
                               % (t[1], dn.lineno, f.nodes[outside[0].node].lineno),
                               inputs='two or more undesired motifs; strings containing the reverse complement of any but the first')
                    return
    while True:
        if x[0] == 'call' and x[1][0] == 'attr' and x[1][2] in ('upper', 'lower') and not x[2]:
            ops.append((x[1][2],))
            x = x[1][1]
        elif x[0] == 'sub' and x[2] == ('slice', NONE, NONE, ('c', -1)):
            ops.append(('rev',))
            x = x[1]
        elif is_call(x, 'builtins.reversed'):
            ops.append(('rev',))
            x = x[2][0]
        elif x[0] == 'call' and x[1][0] == 'attr' and x[1][2] == 'join' and len(x[2]) == 1:
            x = x[2][0]
        elif x[0] == 'call' and x[1][0] == 'attr' and x[1][2] == 'replace' and len(x[2]) == 2 and \
                x[2][0][0] == 'c' and x[2][1][0] == 'c':
            ops.append(('replace', x[2][0][1], x[2][1][1]))
            x = x[1][1]
        elif x[0] == 'call' and x[1][0] == 'attr' and x[1][2] == 'translate' and len(x[2]) == 1:
            tab = _translate_table(x[2][0])
            if tab is None:
                run.undecided('R-FILTER', f, 'reverse-complement', nd.lineno, 'translate table %s not interpreted' % show(x[2][0])[:50])
                return
            ops.append(('table', tab))
            x = x[1][1]
        else:
            base = x
            break
    s = 'ACGT'
    nrev = 0
    for op in reversed(ops):
        if op[0] == 'replace':
            s = s.replace(op[1], op[2])
        elif op[0] == 'table':
            s = ''.join(op[1].get(ch, ch) for ch in s)
        elif op[0] == 'upper':
            s = s.upper()
        elif op[0] == 'lower':
            s = s.lower()
        elif op[0] == 'rev':
            nrev += 1
    okmap = s == 'TGCA'
    interpreted = any(op[0] in ('replace', 'table') for op in ops)
    if not interpreted:
        run.undecided('R-FILTER', f, 'complement-map', nd.lineno, 'the complement is not built by a replace chain this rule interprets')
        return
    run.check(okmap, 'R-FILTER', f, 'complement-map', nd.lineno, 'A<->T, C<->G',
              'the complement chain maps ACGT to %s, not TGCA' % s, inputs='motifs containing the mis-mapped letter')
    run.check(nrev % 2 == 1, 'R-FILTER', f, 'complement-reversed', nd.lineno, 'the complement is reversed',
              'the complemented motif is %s: the reverse complement must be reversed exactly once'
              % ('not reversed' if nrev == 0 else 'reversed %d times' % nrev), inputs='non-palindromic motifs')
    if of_judged is not None:
        run.check(base is not None and base[0] == 'v' and base[1] == of_judged, 'R-FILTER', f, 'complement-of-the-judged-string',
                  nd.lineno, 'the opposite strand is built from the judged string',
                  'the opposite strand is built from %s' % (show(base)[:60] if base else None), nontrivial=False)
        return
    run.check(base is not None and base[0] == 'iter', 'R-FILTER', f, 'complement-of-the-motif', nd.lineno,
              'built from the motif being tested', 'the reverse complement is built from %s' % (show(base)[:60] if base else None),
              nontrivial=False)


def check_gc(ctx, f, gcs, judged, k):
    run = ctx.run
    lo = ('sub', ('attr', ('v', 'self', 'P'), 'gc_range'), ('c', 0))
    hi = ('sub', ('attr', ('v', 'self', 'P'), 'gc_range'), ('c', 1))

    def count_letters(t):
        """X.count("C") + X.count("G") -> (X, 'CG')"""
        letters, src = [], set()
        for x in ([t[2], t[3]] if t[0] == 'bin' and t[1] == '+' else [t]):
            if x[0] == 'call' and x[1][0] == 'attr' and x[1][2] == 'count' and len(x[2]) == 1 and x[2][0][0] == 'c':
                letters.append(x[2][0][1])
                src.add(x[1][1])
            else:
                return None
        return (src.pop() if len(src) == 1 else None), ''.join(sorted(letters))
    n = {'window': 0, 'short': 0}
    for nd, atom, pol in gcs:
        # normalise to  count OP bound  with polarity True meaning "reject"
        left, right, op = atom[2], atom[3], atom[1]
        cl, cr = count_letters(left), count_letters(right)
        if cl is None and cr is not None:
            left, right, cl = right, left, cr
            op = {'<': '>', '>': '<', '<=': '>=', '>=': '<='}[op]
        if cl is None:
            # A+T written as the complement of G+C:  len(s) - (G+C)  >  (1 - lo) * k ; taken against k instead of len(s) it counts
            # the missing symbols of a short string as A/T
            from .repair import affine as _aff
            for L, R, o in ((left, right, op), (right, left, {'<': '>', '>': '<', '<=': '>=', '>=': '<='}.get(op))):
                a = _aff(L)
                if not a or o is None:
                    continue
                cnt = {x: v for x, v in a.items() if x != 1 and x[0] == 'call' and x[1][0] == 'attr' and x[1][2] == 'count'}
                lets = sorted(x[2][0][1] for x in cnt if len(x[2]) == 1 and x[2][0][0] == 'c')
                srcs = {x[1][1] for x in cnt}
                rest = {x: v for x, v in a.items() if x not in cnt and not (x == 1 and v == 0)}
                if lets == ['C', 'G'] and set(cnt.values()) == {-1} and len(srcs) == 1 and R[0] == 'bin' and R[1] == '*' and \
                        ('bin', '-', ('c', 1), lo) in (R[2], R[3]) and k in (R[2], R[3]):
                    src_ = next(iter(srcs))
                    if rest == {('call', ('g', 'builtins.len'), (src_,), ()): 1}:
                        n['short'] += 1
                        run.ok('R-ORD', f, 'short:AT-upper', nd.lineno, 'A+T taken as len(s) - (G+C)')
                    elif rest == {k: 1}:
                        n['short'] += 1
                        run.refute('R-ORD', f, 'short:AT-upper', nd.lineno,
                                   'the A+T count of a short string is computed as observed_length - (G+C): the symbols that are still '
                                   'missing are counted as A/T, so a prefix that can be completed to a valid window is rejected',
                                   inputs='strings shorter than the window with a positive lower GC bound')
                    cl = 'handled'
                    break
            if cl == 'handled':
                continue
            # completability form of the short-string test:  G+C + (k - len(s))  <  lo * k
            from .repair import affine
            for L, R, o in ((left, right, op), (right, left, {'<': '>', '>': '<', '<=': '>=', '>=': '<='}.get(op))):
                a = affine(L)
                if not a or o is None:
                    continue
                cnt = {x: v for x, v in a.items() if x != 1 and x[0] == 'call' and x[1][0] == 'attr' and x[1][2] == 'count'}
                rest = {x: v for x, v in a.items() if x not in cnt and not (x == 1 and v == 0)}
                lets = sorted(x[2][0][1] for x in cnt if len(x[2]) == 1 and x[2][0][0] == 'c')
                srcs = {x[1][1] for x in cnt}
                if lets == ['C', 'G'] and set(cnt.values()) == {1} and len(srcs) == 1 and \
                        rest == {k: 1, ('call', ('g', 'builtins.len'), (next(iter(srcs)),), ()): -1} and \
                        R[0] == 'bin' and R[1] == '*' and {R[2], R[3]} == {lo, k}:
                    tab = []
                    for a_, b_ in ((1, 2), (2, 2), (3, 2)):
                        v = feval(('cmp', o, ('c', a_), ('c', b_)), lambda x: UNKNOWN)
                        tab.append(bool(v) == pol)
                    n['short'] += 1
                    run.check(tuple(tab) == (True, False, False), 'R-ORD', f, 'short:AT-upper', nd.lineno,
                              'rejects only when the missing letters cannot lift G+C to the lower bound',
                              'the completability test of a short string (G+C + missing letters vs lo*k) rejects with table %s for '
                              '<, =, >; required (True, False, False): a string that can be completed exactly onto the lower bound '
                              'is a valid prefix' % (tuple(tab),), extracted=[str(x) for x in tab],
                              inputs='short strings whose A+T count exactly exhausts the budget, e.g. k=4, gc_range=[0.5,0.5], "AT"')
                    break
            continue
        src, letters = cl
        tab = []
        for a, b in ((1, 2), (2, 2), (3, 2)):
            v = feval(('cmp', op, ('c', a), ('c', b)), lambda x: UNKNOWN)
            tab.append(bool(v) == pol)
        ctx.run.count('cases', 3)
        ba = right
        # which arm: window (src is a slice of judged by the loop index) or short (src is judged itself)
        arm = 'short' if (src is not None and src[0] == 'v' and src[1] == judged) else 'window'
        n[arm] += 1
        def bound_is(which):
            # hi*k  |  lo*k  |  (1-lo)*k   (commutative)
            if ba[0] != 'bin' or ba[1] != '*':
                return False
            for p, q in ((ba[2], ba[3]), (ba[3], ba[2])):
                if q != k:
                    continue
                if which == 'hi' and p == hi:
                    return True
                if which == 'lo' and p == lo:
                    return True
                if which == '1-lo' and p == ('bin', '-', ('c', 1), lo):
                    return True
            return False
        role = None
        if letters == 'CG' and bound_is('hi'):
            role, want = '%s:GC-upper' % arm, (False, False, True)
        elif letters == 'CG' and bound_is('lo'):
            role, want = '%s:GC-lower' % arm, (True, False, False)
        elif letters == 'AT' and bound_is('1-lo'):
            role, want = '%s:AT-upper' % arm, (False, False, True)
        if role is None:
            run.refute('R-FILTER', f, '%s:gc-test#%d' % (arm, n[arm]), nd.lineno,
                       'GC test compares the count of %s with %s: not one of G+C vs hi*k, G+C vs lo*k, A+T vs (1-lo)*k'
                       % (letters, show(ba)[:60]), inputs='strings at the boundary of the GC range')
            continue
        run.check(tuple(tab) == want, 'R-ORD', f, role, nd.lineno, 'rejects only strictly outside the bound',
                  '%s rejects with table %s for count<bound, =, >; required %s (bounds are inclusive)' % (role, tuple(tab), want),
                  extracted=[str(x) for x in tab], inputs='windows whose count sits exactly on the bound')
    # a recognised deviation: a GC bound truncated to an integer (int(fraction * k) rounds the lower bound down)
    cls_txt = ast.unparse(f.cls if f.cls is not None else f.node)
    for n_ in ast.walk(f.cls if f.cls is not None else f.node):
        if isinstance(n_, ast.Call) and isinstance(n_.func, ast.Name) and n_.func.id == 'int' and n_.args and \
                'gc_range' in ast.unparse(n_.args[0]):
            run.refute('R-FILTER', f, 'gc-bound-truncated', n_.lineno,
                       'a GC bound is computed as %s: truncating fraction x window rounds the lower bound down, so windows with '
                       'too little GC are accepted whenever the product is not an integer' % ast.unparse(n_)[:60],
                       inputs='observed_length x gc_range[0] not an integer, e.g. L=5 with [0.5, 0.7]')
    gc_uses = ast.unparse(f.cls if f.cls is not None else f.node).split('def valid', 1)[-1].count('gc_range')
    _tri(run, n['window'] >= 2 and n['short'] >= 2, gc_uses < 4, 'R-FILTER', f, 'gc-tests-present', f.node.lineno,
              'two GC tests on windows and two on short strings',
              'GC tests found: %s; required upper and lower on both the window arm and the short-string arm' % n,
              inputs='GC-constrained configurations')


def check_windows(ctx, f, judged, k):
    run = ctx.run
    J = None
    for nd in f.nodes:
        if nd.kind != 'for':
            continue
        it = f.term(nd.stmt.iter, nd)
        if not is_call(it, 'builtins.range') or len(it[2]) != 1:
            continue
        a = affine(it[2][0])
        lens = [x for x in (a or {}) if x != 1 and is_call(x, 'builtins.len')]
        if not lens:
            continue
        L = lens[0]
        okn = aff_eq(a, {L: 1, k: -1, 1: 1})
        run.check(okn, 'R-FILTER', f, 'window-count=len-k+1', nd.lineno, 'all len-k+1 windows are enumerated',
                  'the window loop runs over range(%s); required len(s) - k + 1 so that the last window ends at the end of '
                  'the string' % aff_show(a), inputs='a violation confined to the last (or a non-existing) window')
        # window slice
        from ..ctx import loop_vars
        i = [t for t in loop_vars(f, nd).values() if t is not None][0]
        body = {n.id for n in f.nodes if nd.id in n.loops}
        okw = False
        seen = None
        for d in f.defs:
            if d.node in body and d.kind == 'assign':
                t = TermBuilder(f, d.node).def_term(d.id)
                if t is not None and t[0] == 'sub' and t[2][0] == 'slice' and \
                        ((t[1][0] == 'v' and t[1][1] == judged) or t[1] == f.var(judged, d.node)):
                    seen = t
                    lo_a, hi_a = affine(t[2][1]), affine(t[2][2])
                    okw = lo_a is not None and hi_a is not None and aff_eq(lo_a, {i: 1}) and aff_eq(hi_a, {i: 1, k: 1})
        _tri(run, okw, seen is not None and not okw, 'R-FILTER', f, 'window=s[i:i+k]', nd.lineno, 'window i is s[i : i + k]',
                  'the window is %s; required s[i : i + k]' % (show(seen)[:80] if seen else None), inputs='every string')
        # the arm is taken when len(s) >= k
        okarm = False
        for atom, pol in ctx.conds(f, nd):
            if atom[0] == 'cmp' and is_call(atom[3], 'builtins.len') and atom[2] == k and atom[1] == '<=' and pol:
                okarm = True        # k <= len(s)
            if atom[0] == 'cmp' and is_call(atom[2], 'builtins.len') and atom[3] == k and atom[1] == '<' and not pol:
                okarm = True        # not (len(s) < k)
        if not okarm:
            # any other way of writing the selection (len(s) - k >= 0, not len(s) < k, k - 1 < len(s) ...): the conditions that
            # speak about the length and the window are evaluated on a grid; the arm must be taken exactly when len(s) >= k
            rel = [(a_, p_) for a_, p_ in ctx.conds(f, nd) if any(x == k for x in walk_term(a_)) and
                   any(is_call(x, 'builtins.len') for x in walk_term(a_))]
            verdict = None
            if rel:
                verdict = True
                for nv in range(0, 7):
                    for kv in range(1, 5):
                        vals = [feval(a_, lambda x, nv=nv, kv=kv: kv if x == k else (nv if is_call(x, 'builtins.len') else UNKNOWN))
                                for a_, p_ in rel]
                        if any(v is UNKNOWN for v in vals):
                            verdict = None
                            break
                        taken = all(bool(v) == p_ for v, (a_, p_) in zip(vals, rel))
                        if taken != (nv >= kv):
                            verdict = False
                    if verdict is None:
                        break
            if verdict is True:
                okarm = True
            elif verdict is None:
                run.undecided('R-FILTER', f, 'window-arm-iff-len>=k', nd.lineno, 'how the window arm is selected is not evaluable')
                return
        run.check(okarm, 'R-FILTER', f, 'window-arm-iff-len>=k', nd.lineno, 'window arm taken iff len(s) >= k',
                  'the window arm is not selected by len(s) >= k', inputs='strings exactly one window long')
        return
    raise AnalysisError("rule R-FILTER lost its anchor: window loop")
