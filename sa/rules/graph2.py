"""R-ARC, R-ORD, R-FIX, R-ARB, R-LEGAL, R-BFS."""
import ast

from ..core import AnalysisError, TermBuilder, call_arg, call_name, is_call, show, walk_term
from ..ctx import flatten_cond, _as_load
from ..finite import UNKNOWN, feval
from .repair import _tri
from ..kinds import acc_alloc, find_k_term, is_k_derivation
from .graph import strip_int, is_pow4k
from .exc import _exc_type


def acc_stores(ctx, f):
    """(node, def, target term, value term) for every store into an accessor-kind array of f"""
    names = ctx.kinds.acc_names(f)
    out = []
    for nd in f.nodes:
        for d in nd.defs:
            if d.kind == 'mutate' and d.name in names and isinstance(d.extra, ast.Subscript):
                tgt = f.term(_as_load(d.extra), nd)
                if isinstance(nd.stmt, ast.Assign):
                    val = f.term(nd.stmt.value, nd)
                elif isinstance(nd.stmt, ast.AugAssign):
                    val = ('aug', f.term(nd.stmt.value, nd))
                else:
                    val = None
                out.append((nd, d, tgt, val))
    return out


def obtain_latters_of(t):
    """obtain_latters(current=u, observed_length=K) -> (u, K) else None"""
    if call_name(t) and call_name(t).endswith('.obtain_latters'):
        return call_arg(t, 0, 'current'), call_arg(t, 1, 'observed_length')
    return None


def r_arc(ctx, fqs, floor=0, derived=True):
    run = ctx.run
    run.rule('R-ARC', "every store into an accessor is one of: (i) ACC[u][j] = w with (j, w) enumerating "
                      "obtain_latters(u, K), under mask tests on u and w when a mask is in scope; (ii) ACC[u, w % 4] = w "
                      "for w in the latter-map row of u; (iii) a whole row built position-preservingly from "
                      "obtain_latters(u, K); (iv) the constant -1; allocations are 4^K x 4; (v) a value derived from "
                      "the accessor and returned with it is recomputed after the last store")
    n = 0
    for fq in sorted(fqs):
        f = ctx.p.func(fq)
        K = find_k_term(f)
        mask_in_scope = 'vertices' in f.params
        k = 0
        for nd, d, tgt, val in acc_stores(ctx, f):
            n += 1
            k += 1
            role = 'accessor-store#%d' % k
            kind, why = classify_store(ctx, f, nd, tgt, val, K, mask_in_scope)
            if kind == 'ok':
                skipped = _rows_skipped(ctx, f, tgt, K)
                if skipped:
                    kind, why = 'bad', skipped
            if kind == 'ok':
                run.ok('R-ARC', f, role, nd.lineno, why, extracted='%s = %s' % (show(tgt)[:90], show(val)[:90] if val else None))
            elif kind == 'bad':
                run.refute('R-ARC', f, role, nd.lineno, why, extracted='%s = %s' % (show(tgt)[:120], show(val)[:120] if val else None),
                           inputs='graphs built by %s' % f.name)
            else:
                run.undecided('R-ARC', f, role, nd.lineno, why)
        # allocations
        a = 0
        acc_names_ = ctx.kinds.acc_names(f)
        for dd in f.defs:
            if dd.kind != 'assign':
                continue
            t = TermBuilder(f, dd.node).def_term(dd.id)
            if t is None:
                continue
            rows = acc_alloc(t)
            if rows is None and dd.name in acc_names_ and 'accessor' in dd.name and not dd.path:
                # an accessor is allocated, returned by a function of the package, or a copy of another accessor; a table computed
                # by any other expression (a look-up table indexed by the accessor, arithmetic on it) is not interpreted here
                t0 = t
                while (t0[0] == 'call' and t0[1][0] == 'attr' and t0[1][2] in ('copy', 'astype') and not t0[2][1:]) or \
                        (is_call(t0, 'numpy.array', 'numpy.asarray', 'numpy.copy') and t0[2]):
                    t0 = t0[1][1] if t0[1][0] == 'attr' else t0[2][0]
                from_pkg = t0[0] == 'call' and t0[1][0] == 'g' and ctx.p.resolve_func(t0[1][1]) is not None
                unpacked = t0[0] == 'item' and t0[1][0] == 'call' and t0[1][1][0] == 'g' and ctx.p.resolve_func(t0[1][1][1]) is not None
                plain = t0[0] == 'v' or t0 == ('c', None)
                if not (from_pkg or unpacked or plain):
                    run.undecided('R-ARC', f, 'accessor-defined-by:%s' % dd.name, f.nodes[dd.node].lineno,
                                  'the accessor `%s` is computed as %s: not an allocation, a result of the package or a copy'
                                  % (dd.name, show(t)[:80]))
                continue
            if rows is None:
                continue
            a += 1
            ok = K is not None and is_pow4k(rows, K)
            if not ok and is_call(rows, 'builtins.len') and K is not None and is_k_derivation(K):
                ok = True      # K is derived from the row count of the source two lines later
            # a witness: the row count is a power / product of 4 and K of another shape (4^(K+-c), 4*K, K^4)
            wit_rows = K is not None and not ok and any(x[0] == 'bin' and x[1] in ('**', '*') for x in walk_term(rows)) and \
                any(x == K for x in walk_term(rows))
            _tri(run, ok, wit_rows, 'R-ARC', f, 'allocation#%d' % a, f.nodes[dd.node].lineno, 'allocated 4^K x 4',
                 'accessor allocated with %s rows, not 4^K (K = %s)' % (show(rows), show(K) if K else None),
                 inputs='every observed length')
            # entries are vertex numbers up to 4^K - 1: a fixed narrow integer type wraps them
            NARROW = ('int8', 'int16', 'uint8', 'uint16', 'byte', 'short', 'ubyte', 'ushort', 'int32', 'uint32', 'intc')
            for x in walk_term(t):
                if x[0] == 'call':
                    dt = call_arg(x, None, 'dtype')
                    alts = f.alternatives(dt) if dt is not None else None
                    cands = [t2 for _d, t2 in alts if t2 is not None] if alts else ([dt] if dt is not None else [])
                    names_ = [c_[1].split('.')[-1] if c_[0] == 'g' else (c_[1] if c_[0] == 'c' and isinstance(c_[1], str) else None)
                              for c_ in cands]
                    narrow = [nm for nm in names_ if nm in NARROW and nm not in ('int32', 'uint32', 'intc')]
                    if narrow:
                        run.refute('R-ARC', f, 'allocation#%d:entry-width' % a, f.nodes[dd.node].lineno,
                                   'the accessor is allocated with dtype %s: successor indices up to 4^K - 1 wrap silently (128 becomes '
                                   '-128 in int8, 32768 becomes -32768 in int16), so arcs turn into "missing" or point elsewhere'
                                   % narrow, inputs='observed lengths at which 4^K - 1 no longer fits the chosen width (K = 4, K = 8)')
        if derived:
            check_derived(ctx, f)
    run.floor('R-ARC', 'stores into accessors', n, floor)


def _elemify(t):
    """rewrite every L[i] with i the index of the iteration over L into the element of that iteration"""
    if not isinstance(t, tuple):
        return t
    if t and t[0] == 'sub' and len(t) == 3 and isinstance(t[2], tuple) and t[2] and t[2][0] == 'idx' and len(t[2]) == 3 and t[2][1] == t[1]:
        return ('iter', _elemify(t[1]), t[2][2])
    return tuple(_elemify(x) for x in t)


def _rows_skipped(ctx, f, tgt, K):
    """the row index of an arc store is the variable of `for u in range(..)`: for 1, 2, 3, 5 rows the range must be exactly
    0 .. rows-1 (rows = 4^K, len(accessor), len(mask)); text of the witness, or None"""
    u = tgt[1][2] if tgt[0] == 'sub' and tgt[1][0] == 'sub' else (tgt[2] if tgt[0] == 'sub' else None)
    if u is None or u[0] != 'iter' or not is_call(u[1], 'builtins.range') or u[1][3] or K is None:
        return None
    names = ctx.kinds.acc_names(f)

    def size(x):
        x0 = strip_int(x)
        if is_pow4k(x0, K):
            return True
        if is_call(x0, 'builtins.len') and len(x0[2]) == 1:
            b = x0[2][0]
            if b[0] == 'v' and (b[1] in names or is_mask_name(f, b[1])):
                return True
            if acc_alloc(b) is not None:
                return True
        return False
    for N in (1, 2, 3, 5):
        args = [feval(a, lambda x: N if size(x) else UNKNOWN) for a in u[1][2]]
        if any(a is UNKNOWN or isinstance(a, bool) or not isinstance(a, int) for a in args) or (len(args) == 3 and args[2] == 0):
            return None
        got = sorted(range(*args))
        if got != list(range(N)):
            return ('the arc-building loop runs over %s: with %d vertices it visits rows %s, so the rows %s never receive their arcs'
                    % (show(u[1])[:60], N, got, sorted(set(range(N)) - set(got)) or 'outside the table'))
    return None


def _differ_by_length(a, b):
    """a - b is a non-zero multiple of some len(..) / .shape[0]: an index written from the end of an array of that length"""
    from .repair import affine
    x, y = affine(a), affine(b)
    if x is None or y is None:
        return False
    d = dict(x)
    for k_, v_ in y.items():
        d[k_] = d.get(k_, 0) - v_
    d = {k_: v_ for k_, v_ in d.items() if v_ != 0}
    return bool(d) and all(k_ != 1 and (is_call(k_, 'builtins.len') or (k_[0] == 'sub' and k_[1][0] == 'attr' and k_[1][2] == 'shape'))
                           for k_ in d)


def classify_store(ctx, f, nd, tgt, val, K, mask_in_scope):
    if val is None:
        return 'ok', 'deletion'
    # L[i] with i the index of the iteration over L is the element of that iteration (for p in range(len(L)): ... L[p])
    if val[0] == 'sub' and val[2][0] == 'idx' and val[2][1] == val[1] and len(val[2]) == 3:
        val = ('iter', val[1], val[2][2])
    if val == ('c', -1):
        return 'ok', '(iv) constant -1'
    if val[0] == 'aug':
        return 'bad', 'augmented store into an accessor entry'
    if val[0] == 'c':
        return 'bad', 'constant %r stored into an accessor (only -1 marks a missing arc)' % (val[1],)
    # masked store ACC[u, mask] = <successor list as given>: numpy pairs the selected columns in ASCENDING order with the values in
    # LIST order; the two agree only for a list that happens to be sorted by column
    if tgt[0] == 'sub' and tgt[1][0] == 'sub':
        j_ = tgt[2]
        is_mask = (is_call(j_, 'numpy.array', 'numpy.asarray') and j_[2] and j_[2][0][0] == 'comp' and
                   (j_[2][0][2][0] == 'cmp' or dict(j_[3]).get('dtype') in (('g', 'builtins.bool'), ('c', 'bool')))) or j_[0] == 'cmp' or \
            is_call(j_, 'numpy.isin', 'numpy.in1d')
        raw_row = (val[0] == 'item' and val[1][0] == 'iter' and val[2] == 1) or \
            (val[0] == 'sub' and val[1][0] == 'v' and val[1][2] == 'P')
        if is_mask and raw_row:
            return 'bad', ('(ii) the successors %s are assigned through a column mask: the columns are taken in ascending order, the values '
                           'in the order of the given list, so a successor list that is not sorted by last nucleotide lands in the wrong '
                           'columns' % show(val)[:40])
    # whole-row store
    if tgt[0] == 'sub' and ctx.kinds.kind(tgt, f) == 'ROW':
        u = tgt[2]
        v = val
        if v[0] == 'comp' and v[1] == 'list' and len(v[3]) == 1:
            it, conds = v[3][0]
            ol = obtain_latters_of(it)
            if ol is not None and ol[0] != u and _differ_by_length(u, ol[0]):
                return 'undecided', 'row %s against obtain_latters(%s): the two differ by a length' % (show(u)[:50], show(ol[0])[:50])
            if ol is None or ol[0] != u:
                return 'bad', '(iii) row of vertex %s is built from %s, not from obtain_latters of the same vertex' % (show(u), show(it))
            if K is not None and ol[1] != K:
                return 'bad', '(iii) obtain_latters called with %s' % show(ol[1])
            if conds:
                return 'bad', '(iii) the row comprehension filters elements, so positions no longer match letters'
            elt = v[2]
            if elt[0] == 'ifexp' and elt[2][0] == 'iter' and elt[2][1] == it and elt[3] == ('c', -1):
                return 'ok', '(iii) position-preserving row over obtain_latters(u, K)'
            if elt[0] == 'ifexp' and elt[3][0] == 'iter' and elt[3][1] == it and elt[2] == ('c', -1):
                return 'ok', '(iii) position-preserving row over obtain_latters(u, K)'
            return 'bad', '(iii) row element %s is neither the successor nor -1' % show(elt)
        ol = obtain_latters_of(v)
        if ol is not None and ol[0] == u and (K is None or ol[1] == K) and not mask_in_scope:
            return 'ok', '(iii) the whole row is obtain_latters(u, K): column j holds the j-th successor'
        if any(obtain_latters_of(x) is not None for x in walk_term(v)) and v[0] == 'bin':
            return 'bad', '(iii) the row is assembled as %s: not a single position-preserving pass over obtain_latters(u, K)' % show(v)[:120]
        if v[0] in ('item', 'iter') and any(x[0] == 'v' and x[1] == 'latter_map' for x in walk_term(v)):
            return 'bad', ('(iii) a whole accessor row is overwritten with %s, a list taken from the latter map: its order and '
                           'length are not tied to the columns, so column j need not hold the j-th successor' % show(val)[:80])
        return 'undecided', 'whole-row store of %s' % show(val)[:100]
    if tgt[0] == 'sub' and tgt[1][0] == 'sub' and ctx.kinds.kind(tgt[1][1], f) == 'ACC':
        u, j, w = tgt[1][2], tgt[2], val
        # zip(range(len(L)), L) - and zip(range(4), obtain_latters(..)), whose list has four items - pairs position and element as
        # enumerate(L) does
        if w[0] == 'iter' and j[0] == 'iter' and j[2] == w[2] and is_call(j[1], 'builtins.range') and len(j[1][2]) == 1 and \
                (j[1][2][0] == ('call', ('g', 'builtins.len'), (w[1],), ()) or
                 (j[1][2][0] == ('c', 4) and obtain_latters_of(w[1]) is not None)):
            j = ('idx', w[1], w[2])
        # (i) enumerate(obtain_latters(u, K))
        if w[0] == 'iter' and j[0] == 'idx' and j[1] == w[1] and j[2] == w[2]:
            ol = obtain_latters_of(w[1])
            if ol is None:
                return 'bad', '(i) column/value enumerate %s, not obtain_latters(u, K)' % show(w[1])
            if ol[0] != u:
                return 'bad', '(i) successors of %s stored in the row of %s' % (show(ol[0]), show(u))
            if K is not None and ol[1] != K:
                return 'bad', '(i) obtain_latters called with %s, not the observed length' % show(ol[1])
            if mask_in_scope:
                need = {'u': False, 'w': False}
                for atom, pol in ctx.conds(f, nd):
                    a = atom
                    if a[0] == 'cmp' and a[1] in ('==', '!=') and a[3][0] == 'c':
                        # MASK[x] != 0  /  == 1 / == True
                        truth = (a[1] == '!=' and a[3][1] in (0, False)) or (a[1] == '==' and a[3][1] in (1, True))
                        if not truth:
                            continue
                        a = a[2]
                        polx = pol
                    else:
                        polx = pol
                    if polx and a[0] == 'sub' and a[1][0] == 'v' and is_mask_name(f, a[1][1]):
                        if a[2] == u or _elemify(a[2]) == _elemify(u):
                            need['u'] = True
                        if a[2] == w or _elemify(a[2]) == _elemify(w):
                            need['w'] = True
                mask_tests = [a_ for a_, p_ in ctx.conds(f, nd) if p_ and any(
                    x[0] == 'sub' and x[1][0] == 'v' and is_mask_name(f, x[1][1]) for x in walk_term(a_))]
                if (not need['u'] or not need['w']) and len(mask_tests) >= 2:
                    # two tests of the mask guard the store; which vertices they test is written in a form not matched here
                    return 'undecided', 'store guarded by %d mask tests whose subjects are not matched with the arc' % len(mask_tests)
                if not need['u']:
                    return 'bad', '(i) arc stored without testing that its source vertex is in the mask'
                if not need['w']:
                    return 'bad', '(i) arc stored without testing that its target vertex is in the mask'
            # any further condition that depends on the vertex being processed drops arcs of some vertices
            for atom, pol in ctx.conds(f, nd):
                core = atom[2] if (atom[0] == 'cmp' and atom[1] in ('==', '!=') and atom[3][0] == 'c') else atom
                if core[0] == 'sub' and core[1][0] == 'v' and is_mask_name(f, core[1][1]) and \
                        (core[2] in (u, w) or _elemify(core[2]) in (_elemify(u), _elemify(w))):
                    continue
                if any(x == u or x == w[1] for x in walk_term(atom)):
                    return 'bad', ('(i) the arc store is additionally conditioned on %s (%s), which depends on the vertex being '
                                   'processed: arcs of the vertices that fail it are dropped' % (show(atom)[:80], pol))
            return 'ok', '(i) column j = j-th successor, both endpoints masked' if mask_in_scope else '(i) column j = j-th successor'
        # (ii) latter map row
        if j[0] == 'bin' and j[1] == '%' and j[2] == w and j[3] == ('c', 4):
            if w[0] == 'iter' and w[1][0] == 'item' and w[1][2] == 1 and u == ('item', w[1][1], 0):
                return 'ok', '(ii) column = successor mod 4 for the successors listed under the same key'
            if w[0] == 'iter' and w[1][0] == 'sub' and w[1][2] == u:
                return 'ok', '(ii) column = successor mod 4 for latter_map[u]'
            return 'bad', '(ii) value %s is not drawn from the latter-map row of the stored vertex %s' % (show(w), show(u))
        if w[0] == 'iter' and j[0] != 'idx':
            ol = obtain_latters_of(w[1])
            if ol is not None and _differ_by_length(j, ('idx', w[1], w[2])):
                return 'undecided', 'column %s is the position written from the end' % show(j)[:60]
            if ol is not None:
                return 'bad', '(i) successor stored in column %s, not in its own position' % show(j)
            if w[1][0] == 'item' or w[1][0] == 'sub':
                return 'bad', '(ii) successor stored in column %s, not successor mod 4' % show(j)
        if j[0] == 'idx':
            return 'bad', '(i) value %s stored in column of the enumeration of %s' % (show(w), show(j[1]))
        # column = successors mod something that is not 4 (the out-degree, the length of the list, ...)
        if j[0] == 'bin' and j[1] == '%' and j[2] == w and j[3] != ('c', 4) and \
                (is_call(j[3], 'builtins.len') or j[3][0] in ('c', 'v', 'attr')):
            return 'bad', ('(ii) successors are stored in column `successor mod %s`; the column of a successor is its last nucleotide, '
                           'successor mod 4' % show(j[3])[:40])
        return 'undecided', 'entry store %s = %s' % (show(tgt)[:80], show(val)[:80])
    return 'undecided', 'store %s = %s' % (show(tgt)[:80], show(val)[:80])


def is_mask_name(f, name):
    if name == 'vertices' and name in f.params:
        return True
    from .graph import mask_alloc
    for d in f.defs:
        if d.name == name and d.kind == 'assign':
            t = TermBuilder(f, d.node).def_term(d.id)
            if t is None:
                continue
            if t[0] == 'v' and t[1] != name and is_mask_name(f, t[1]):
                return True
            if mask_alloc(t) is not None and any(k == 'dtype' and v == ('g', 'builtins.bool') for k, v in t[3]):
                return True
    return False


def check_derived(ctx, f):
    """(v) X = g(ACC) returned together with ACC: no store into ACC reaches the return without recomputing X"""
    run = ctx.run
    names = ctx.kinds.acc_names(f)
    for rnd in f.stmts(ast.Return):
        v = rnd.stmt.value
        if not isinstance(v, ast.Tuple):
            continue
        elts = [e.id for e in v.elts if isinstance(e, ast.Name)]
        accs = [e for e in elts if e in names]
        for a in accs:
            for x in elts:
                if x == a:
                    continue
                ddefs = []
                for d in f.defs:
                    if d.name == x and d.kind == 'assign' and d.value is not None:
                        t = TermBuilder(f, d.node).def_term(d.id)
                        if t is not None and t[0] == 'call' and call_name(t) and ctx.p.resolve_func(call_name(t)) is not None \
                                and any(x[0] == 'v' and x[1] == a for x in list(t[2]) + [v for _, v in t[3]]):
                            ddefs.append(d)
                if not ddefs:
                    continue
                dnodes = {d.node for d in ddefs}
                stale = []
                for nd, d, tgt, val in acc_stores(ctx, f):
                    if d.name != a:
                        continue
                    after = any(nd.id in f.reachable_from(dn) for dn in dnodes)
                    if after and rnd.id in f.reachable_from(nd.id, avoid=dnodes):
                        stale.append(nd)
                if stale:
                    # a witness needs the recomputation to sit outside every loop that holds the stale store; when both are in
                    # the same loop the only escape is the loop's own exit edge, whose feasibility this rule does not decide
                    same_loop = all(any(l in f.nodes[dn].loops for dn in dnodes for l in s_.loops) for s_ in stale if s_.loops)
                    if same_loop and all(s_.loops for s_ in stale):
                        run.undecided('R-ARC', f, 'derived-view:%s-of-%s' % (x, a), rnd.lineno,
                                      'the recomputation and the store share a loop; exit feasibility is not decided')
                        continue
                run.check(not stale, 'R-ARC', f, 'derived-view:%s-of-%s' % (x, a), rnd.lineno,
                          '%s is recomputed from %s after every later store' % (x, a),
                          "%s = f(%s) is returned with %s, but the store at line %s reaches the return without "
                          "recomputing it: the returned vertex description is stale"
                          % (x, a, a, stale[0].lineno if stale else ''),
                          inputs='masks for which the pruning loop removes something')


# ----------------------------------------------------------------------------------------------
def ordering_eval(t, lpred, rpred):
    """truth of t for left<right, left=right, left>right"""
    out = []
    for l, r in ((1, 2), (2, 2), (3, 2)):
        out.append(feval(t, lambda x: l if lpred(x) else (r if rpred(x) else UNKNOWN)))
    return tuple(out)


def r_ord_ctor(ctx):
    """LocalBioFilter.__init__: run limit r vs window k (accept only r < k); motif length m vs k (accept m <= k)"""
    run = ctx.run
    run.rule('R-ORD', "guards that only compare two quantities are evaluated on the three orderings <, =, > and the "
                      "decision table (accept / reject / raise) is compared with the one the property requires")
    f = ctx.p.func('dsw.biofilter.LocalBioFilter.__init__')
    raises = [nd for nd in f.stmts(ast.Raise) if nd.kind == 'stmt']

    def table(lname_pred, extra_true):
        """for quantity <, =, > window: 'raise' when some raise fires whatever the other parameters are, 'accept' when there
        is a setting of the other parameters under which none fires, 'unknown' when the guards cannot be evaluated"""
        import itertools
        res = []
        all_conds = [(nd, ctx.conds(f, nd)) for nd in raises]
        # parameters the quantity is made of: their `is None` tests are false (the parameter is supplied)
        mine = set()
        for nd, conds in all_conds:
            for a_, _p in conds:
                for x in walk_term(a_):
                    if lname_pred(x):
                        mine |= {y[1] for y in walk_term(x) if y[0] == 'v' and y[2] == 'P'}

        def has_q(t_):
            return any(lname_pred(x) for x in walk_term(t_))

        def leaves(t_, out):
            if t_[0] == 'bool':
                for x in t_[2:]:
                    leaves(x, out)
            elif t_[0] == 'un' and t_[1] == 'not':
                leaves(t_[2], out)
            elif t_[0] == 'cmp' and t_[1] in ('is', 'is not') and t_[3] == ('c', None) and t_[2][0] == 'v' and t_[2][1] in mine:
                pass
            elif not has_q(t_):
                out.add(('cmp', 'is') + t_[2:] if t_[0] == 'cmp' and t_[1] == 'is not' else t_)
        free = set()
        for nd, conds in all_conds:
            for a_, _p in conds:
                leaves(a_, free)
        free = sorted(free, key=repr)
        if len(free) > 10:
            return ('unknown', 'unknown', 'unknown')
        for l, r in ((1, 2), (2, 2), (3, 2)):     # (quantity, window)
            outcomes = set()
            for bits in itertools.product((False, True), repeat=len(free)):
                assign = dict(zip(free, bits))

                def at(x):
                    if x in assign:
                        return assign[x]
                    if x[0] == 'cmp' and x[1] == 'is not' and ('cmp', 'is') + x[2:] in assign:
                        return not assign[('cmp', 'is') + x[2:]]
                    if lname_pred(x):
                        return l
                    if x == ('v', 'observed_length', 'P'):
                        return r
                    if x[0] == 'cmp' and x[1] in ('is', 'is not') and x[3] == ('c', None) and x[2][0] == 'v' and x[2][1] in mine:
                        return x[1] == 'is not'
                    # any(test(m) for m in motifs): the table models a list holding one motif of the given length
                    if is_call(x, 'builtins.any', 'builtins.all') and len(x[2]) == 1 and x[2][0][0] == 'comp' and \
                            len(x[2][0][3]) == 1 and not x[2][0][3][0][1]:
                        return feval(x[2][0][2], at)
                    return UNKNOWN
                fired = maybe = False
                for nd, conds in all_conds:
                    vals = []
                    for atom, pol in conds:
                        v = feval(atom, at)
                        vals.append(UNKNOWN if v is UNKNOWN else (bool(v) == pol))
                    if vals and all(v is True for v in vals):
                        fired = True
                    elif vals and not any(v is False for v in vals):
                        maybe = True
                outcomes.add('raise' if fired else ('unknown' if maybe else 'accept'))
            if outcomes == {'raise'}:
                res.append('raise')
            elif 'accept' in outcomes:
                res.append('accept')
            else:
                res.append('unknown')
        return tuple(res)
    run.count('cases', 6)
    t1 = table(lambda x: x == ('v', 'max_homopolymer_runs', 'P'), None)
    line = f.node.lineno
    # required: accept r<k, raise r=k, raise r>k
    if t1 == ('accept', 'raise', 'raise'):
        run.ok('R-ORD', f, 'run-vs-window', line, 'accepts only run limit < window', extracted=list(t1))
    elif 'unknown' in t1:
        run.undecided('R-ORD', f, 'run-vs-window', line, 'the guard is not evaluable on the three orderings: %s' % (t1,))
    else:
        if t1[0] != 'accept':
            run.refute('R-ORD', f, 'run<window rejected', line, 'constructor rejects a run limit below the window: table %s' % (t1,),
                       extracted=list(t1))
        if t1[1] == 'accept':
            run.refute('R-ORD', f, 'run=window accepted', line,
                       "LocalBioFilter.__init__ accepts max_homopolymer_runs == observed_length (table for r<k, r=k, "
                       "r>k: %s): a run of k+1 equal letters spans two windows that each pass, so the configuration "
                       "is not window-decidable" % (t1,), extracted=list(t1), expected=['accept', 'raise', 'raise'],
                       inputs='LocalBioFilter(observed_length=k, max_homopolymer_runs=k)')
        if t1[2] == 'accept':
            run.refute('R-ORD', f, 'run>window accepted', line,
                       'constructor accepts a run limit above the window: table %s' % (t1,), extracted=list(t1),
                       inputs='LocalBioFilter(observed_length=k, max_homopolymer_runs>k)')
    t2 = table(lambda x: is_call(x, 'builtins.len') and x[2] and x[2][0][0] in ('iter', 'item'), None)
    uses_min = any(is_call(x, 'builtins.min') and any(y == ('v', 'undesired_motifs', 'P') for y in walk_term(x))
                   for nd_ in raises for a_, p_ in ctx.conds(f, nd_) for x in walk_term(a_))
    if uses_min:
        run.refute('R-ORD', f, 'motif-vs-window', line,
                   'the motif-length guard compares the SHORTEST motif (min(...)) with the window: a list that mixes a fitting '
                   'motif with one longer than the window is accepted, and that motif can only be seen across windows',
                   inputs="LocalBioFilter(observed_length=3, undesired_motifs=['AC', 'GATC'])")
    elif 'unknown' in t2:
        run.undecided('R-ORD', f, 'motif-vs-window', line, 'the guard is not evaluable on the three orderings: %s' % (t2,))
    else:
      run.check(t2 == ('accept', 'accept', 'raise'), 'R-ORD', f, 'motif-vs-window', line,
              'accepts only motif length <= window',
              'constructor motif-length table for m<k, m=k, m>k is %s; required accept, accept, raise' % (t2,),
              extracted=list(t2), inputs='motifs as long as / longer than the window')


def r_ord_threshold(ctx):
    run = ctx.run
    f = ctx.p.func('dsw.spiderweb.connect_coding_graph')
    thr = ('v', 'threshold', 'P')
    n = 0
    for nd, d, tgt, val in mask_stores(ctx, f):
        if val is not None and val[0] == 'cmp' and thr in (val[2], val[3]):
            n += 1
            other = val[2] if val[3] == thr else val[3]
            tab = ordering_eval(val, lambda x: x == other, lambda x: x == thr)
            run.count('cases', 3)
            if any(v is UNKNOWN for v in tab):
                run.undecided('R-ORD', f, 'keep-iff-count>=threshold', nd.lineno, 'the threshold comparison %s is not evaluable' % show(val)[:60])
                continue
            run.check(tab == (False, True, True), 'R-ORD', f, 'keep-iff-count>=threshold', nd.lineno,
                      'vertex kept iff successor count >= threshold',
                      "a vertex is kept iff %s: table for count<t, count=t, count>t is %s; required (False, True, True)"
                      % (show(val)[:100], tab), extracted=[str(x) for x in tab],
                      inputs='vertices with exactly `threshold` retained successors')
            # the count is over the mask entries of the successors of the same vertex
            ok = False
            if is_call(other, 'numpy.sum', 'builtins.sum') and other[2]:
                a = other[2][0]
                if a[0] == 'sub' and a[1][0] == 'v' and is_mask_name(f, a[1][1]):
                    ol = a[2]
                    if call_name(ol) and call_name(ol).endswith('.obtain_latters') and tgt[0] == 'sub' \
                            and call_arg(ol, 0, 'current') == tgt[2]:
                        ok = True
            wit_cnt = is_call(other, 'numpy.sum', 'builtins.sum') and other[2] and other[2][0][0] == 'sub' and \
                call_name(other[2][0][2]) is not None and call_name(other[2][0][2]).endswith('.obtain_latters') and not ok
            _tri(run, ok, wit_cnt, 'R-ORD', f, 'count-over-own-successors', nd.lineno,
                      'the count is taken over the mask entries of the successors of the vertex being decided',
                      'the kept-test counts %s, not the retained successors of the vertex stored at %s'
                      % (show(other)[:100], show(tgt)[:60]), inputs='every mask')
    run.floor('R-ORD', 'threshold comparison in connect_coding_graph', n, 1)
    g = ctx.p.func('dsw.graphized.remove_useless')
    m = 0
    # the "removed" list: the one whose membership keeps a key out of the rebuilt map
    removed = None
    for x in g.nodes:
        for d in x.defs:
            if d.kind == 'mutate' and isinstance(d.extra, ast.Subscript) and isinstance(x.stmt, ast.Assign):
                for atom, pol in ctx.conds(g, x):
                    if atom[0] == 'cmp' and atom[1] == 'in' and not pol and atom[3][0] == 'v':
                        removed = atom[3][1]
    for nd in g.nodes:
        if nd.kind != 'test':
            continue
        t0 = g.term(nd.ast, nd)
        fl = flatten_cond(t0, True)
        if len(fl) != 1:
            continue
        t, tpol = fl[0]
        if t[0] == 'cmp' and thr in (t[2], t[3]):
            m += 1
            other = t[2] if t[3] == thr else t[3]
            tab = ordering_eval(t, lambda x: x == other, lambda x: x == thr)
            if not tpol:
                tab = tuple((not x) if x is not UNKNOWN else x for x in tab)
            removed_true = None
            for x in g.nodes:
                if x.kind == 'stmt' and isinstance(x.stmt, ast.Expr) and isinstance(x.stmt.value, ast.Call) and \
                        isinstance(x.stmt.value.func, ast.Attribute) and x.stmt.value.func.attr == 'append':
                    lst = x.stmt.value.func.value
                    if isinstance(lst, ast.Name) and lst.id == removed:
                        for test, pol, tid in x.conds:
                            if tid == nd.id:
                                removed_true = pol
            if removed_true is None:
                run.undecided('R-ORD', g, 'drop-iff-count<threshold', nd.lineno, 'removed-list arm not identified')
                continue
            drop = tuple((x if removed_true else (not x)) if x is not UNKNOWN else x for x in tab)
            run.check(drop == (True, False, False), 'R-ORD', g, 'drop-iff-count<threshold', nd.lineno,
                      'vertex dropped iff successor count < threshold (agrees with connect_coding_graph)',
                      'remove_useless drops a vertex with table %s for count<t, count=t, count>t; required (True, False, '
                      'False) to agree with connect_coding_graph' % (drop,), extracted=[str(x) for x in drop],
                      inputs='vertices with exactly `threshold` successors')
    run.floor('R-ORD', 'threshold comparison in remove_useless', m, 1)


def mask_stores(ctx, f):
    out = []
    for nd in f.nodes:
        for d in nd.defs:
            if d.kind == 'mutate' and isinstance(d.extra, ast.Subscript) and isinstance(nd.stmt, ast.Assign) \
                    and is_mask_name(f, d.name):
                out.append((nd, d, f.term(_as_load(d.extra), nd), f.term(nd.stmt.value, nd)))
    return out


def r_ord_empty(ctx, fq):
    """raise ValueError iff accepted count = 0"""
    run = ctx.run
    f = ctx.p.func(fq)
    raises = [nd for nd in f.stmts(ast.Raise) if nd.kind == 'stmt']
    n = 0
    for nd in raises:
        conds = ctx.conds(f, nd)
        rate, vals = None, (0.0, 1e-9, 0.25)

        def index_list(x):
            """x is a local list that collects loop indices (xs = []; xs.append(i))"""
            if x[0] != 'v' or not isinstance(x[2], tuple):
                return False
            ds = [f.defs[i] for i in x[2]]
            grows = [d for d in f.defs if d.name == x[1] and d.kind == 'mutate' and isinstance(d.extra, ast.Attribute) and d.extra.attr == 'append']
            if not grows:
                return False
            for d in grows:
                tt = f.term(d.value, f.nodes[d.node])
                a_ = tt[2][0] if tt[2] else None
                if a_ is None or a_[0] not in ('iter', 'idx'):
                    return False
            return True

        def is_count(x):
            if is_call(x, 'numpy.sum', 'builtins.sum') and len(x[2]) == 1 and index_list(x[2][0]):
                return False
            return is_call(x, 'numpy.sum', 'builtins.sum', 'numpy.count_nonzero') and len(x[2]) == 1 or \
                (is_call(x, 'builtins.len') and x[2] and x[2][0][0] == 'sub' and is_call(x[2][0][1], 'numpy.where'))

        def is_size(x):
            return is_call(x, 'builtins.len') or (x[0] == 'attr' and x[2] == 'size') or \
                (x[0] == 'bin' and x[1] == '**' and x[2] == ('c', 4))
        for atom, pol in conds:
            for x in walk_term(atom):
                if x[0] == 'bin' and x[1] == '/' and is_count(x[2]) and is_size(x[3]):
                    rate = x
        if rate is None:
            # the count itself (no division), or any(mask)
            for atom, pol in conds:
                for x in walk_term(atom):
                    if is_count(x) and rate is None:
                        rate, vals = x, (0, 1, 3)
                    if (is_call(x, 'builtins.any', 'numpy.any') and len(x[2]) == 1 or
                            x[0] == 'call' and x[1][0] == 'attr' and x[1][2] == 'any' and not x[2]) and rate is None:
                        rate, vals = x, (False, True, True)
        if rate is None:
            for atom, pol in conds:
                for x in walk_term(atom):
                    if is_call(x, 'numpy.sum', 'builtins.sum') and len(x[2]) == 1 and index_list(x[2][0]) and _exc_type(f, nd) == 'ValueError':
                        n += 1
                        run.refute('R-ORD', f, 'raise-iff-none-accepted', nd.lineno,
                                   'the "nothing collected" test adds up the collected INDICES (%s): the sum is 0 for an empty list and also '
                                   'when only index 0 (AA..A) was collected, so a filter that accepts only that k-mer gets a spurious ValueError'
                                   % show(x)[:50], inputs='filters that accept exactly the all-A k-mer')
                        rate = False
            if rate is False:
                continue
        if rate is None:
            continue
        n += 1
        tab = []
        for val in vals:
            vs = []
            for atom, pol in conds:
                if not any(x == rate for x in walk_term(atom)):
                    continue
                v = feval(atom, lambda x: val if x == rate else (16 if is_size(x) else UNKNOWN))
                vs.append(UNKNOWN if v is UNKNOWN else bool(v) == pol)
            tab.append(all(v is True for v in vs) if all(v is not UNKNOWN for v in vs) else UNKNOWN)
        ctx.run.count('cases', 3)
        typ = _exc_type(f, nd)
        # the count itself enters an arithmetic form with the size (a percentage, a floored ratio): one marked entry in masks of
        # 4 .. 4^6 entries must never read as "none"
        if vals == (0, 1, 3) and tuple(tab) == (True, False, False) and typ == 'ValueError':
            for size in (4, 64, 256, 1024, 4096):
                vs = []
                for atom, pol in conds:
                    if not any(x == rate for x in walk_term(atom)):
                        continue
                    v = feval(atom, lambda x: 1 if x == rate else (size if is_size(x) else UNKNOWN))
                    vs.append(UNKNOWN if v is UNKNOWN else bool(v) == pol)
                if vs and all(v is True for v in vs):
                    n_witness = size
                    run.refute('R-ORD', f, 'raise-iff-none-accepted', nd.lineno,
                               '%s raises ValueError for a mask of %d entries with ONE entry marked: the count enters the test through an '
                               'integer ratio that floors small positive fractions to 0' % (f.name, n_witness),
                               inputs='sparse masks at k >= %d' % {4: 1, 64: 3, 256: 4, 1024: 5, 4096: 6}[size])
                    tab = None
                    break
            if tab is None:
                continue
        if any(v is UNKNOWN for v in tab):
            run.undecided('R-ORD', f, 'raise-iff-none-accepted', nd.lineno,
                          'the emptiness test is not evaluable for (none accepted, some accepted): %s' % (tab,))
            continue
        run.check(tuple(tab) == (True, False, False) and typ == 'ValueError', 'R-ORD', f, 'raise-iff-none-accepted', nd.lineno,
                  'ValueError raised iff the accepted fraction is 0',
                  '%s raises %s with table %s for (none accepted, one k-mer in a huge mask accepted, a quarter accepted); required '
                  'ValueError iff none (a rounded or truncated fraction turns a small positive fraction into 0)'
                  % (f.name, typ, tab), extracted=[str(x) for x in tab], inputs='empty and non-empty masks')
    if n == 0:
        for nd in raises:
            for atom, pol in ctx.conds(f, nd):
                for x in walk_term(atom):
                    if is_call(x, 'builtins.len') and x[2] and x[2][0] == ('v', 'vertices', 'P') and _exc_type(f, nd) == 'ValueError':
                        run.refute('R-ORD', f, 'raise-iff-none-accepted', nd.lineno,
                                   'the "nothing collected" error of %s depends on len(vertices), the size of the mask (always 4^k), '
                                   'not on how many entries are marked: an all-zero mask is not rejected' % f.name,
                                   inputs='the all-zero mask')
                        return
    if fq.endswith('.connect_valid_graph'):
        # the valid graph of a non-empty mask is returned whatever its arcs are: a return that depends on the finished accessor
        # turns "no arc between the collected k-mers" into "nothing collected"
        K_ = ctx.kinds
        for nd in f.stmts(ast.Return):
            for atom, pol in ctx.conds(f, nd):
                dep = [x for x in walk_term(atom) if (call_name(x) or '').endswith('.obtain_vertices') or
                       (x[0] == 'v' and x[2] != 'P' and K_.kind(x, f) in ('ACC', 'ROW', 'ENTRY'))]
                if dep:
                    run.refute('R-ORD', f, 'raise-iff-none-accepted', nd.lineno,
                               'connect_valid_graph returns the accessor only when %s holds, a test on the ARCS of the finished graph '
                               '(%s): a mask that marks k-mers none of which follows another is not empty, yet it now ends in '
                               '"No collected vertex"' % (show(atom)[:60], show(dep[0])[:40]),
                               inputs='non-empty masks without any arc, e.g. a single k-mer that is not a self-loop')
                    return
    run.floor('R-ORD', 'emptiness raise in %s' % fq, n, 1)


# ----------------------------------------------------------------------------------------------
def trimming_loop(ctx, f, carried):
    """the `while True` loop of f in which `carried` is redefined"""
    for nd in f.nodes:
        if nd.kind == 'while':
            body = {n.id for n in f.nodes if nd.id in n.loops}
            inside = [d for d in f.defs if d.name == carried and d.node in body and d.kind in ('assign',)]
            reads = any(isinstance(x, ast.Name) and x.id == carried for n in f.nodes if n.id in body
                        for r in ctx.roots(n) for x in ast.walk(r))
            if reads and (inside or True):
                return nd, body, inside
    return None, None, None


def r_fix(ctx):
    run = ctx.run
    run.rule('R-FIX', "the two trimming loops (connect_coding_graph, remove_useless) feed the collection computed in "
                      "the body back to the loop head, leave only when nothing changed (after the emptiness test that "
                      "raises ValueError), and what is materialised after the loop is the loop-carried collection")
    for fq, carried in (('dsw.spiderweb.connect_coding_graph', 'vertices'), ('dsw.graphized.remove_useless', 'latter_map')):
        f = ctx.p.func(fq)
        loop = None
        for nd in f.nodes:
            if nd.kind == 'while':
                body = {n.id for n in f.nodes if nd.id in n.loops}
                # the loop that reads the carried collection and computes a replacement
                reads = [n for n in f.nodes if n.id in body and any(isinstance(x, ast.Name) and x.id == carried
                         and isinstance(x.ctx, ast.Load) for r in ctx.roots(n) for x in ast.walk(r))]
                if reads:
                    loop = (nd, body)
                    break
        if loop is None:
            raise AnalysisError("rule R-FIX lost its anchor: no while loop reading %s in %s" % (carried, fq))
        head, body = loop
        reach = f.reaching(head.id, carried)
        inloop = [d for d in reach if f.defs[d].node in body]
        inplace = [d for d in f.defs if d.name == carried and d.node in body and d.kind == 'mutate']
        if not inloop and inplace:
            run.undecided('R-FIX', f, 'feedback', head.lineno, '`%s` is updated in place inside the loop: the feedback is not a rebinding '
                          'this rule follows' % carried)
        else:
          run.check(bool(inloop), 'R-FIX', f, 'feedback', head.lineno,
                  '%s at the loop head has a loop-carried definition' % carried,
                  "the trimming loop never feeds its result back: `%s` at the loop head is only the value from before "
                  "the loop, so a second iteration recomputes the same thing (or the loop exits after one pass)" % carried,
                  inputs='masks that need two or more trimming rounds')
        # the collection fed back is built afresh every round (a buffer allocated once aliases the mask after the first
        # feedback, and "nothing changed" is then trivially true)
        for di in inloop:
            d = f.defs[di]
            if d.kind == 'assign' and isinstance(d.value, ast.Name):
                src = d.value.id
                src_defs = [x for x in f.defs if x.name == src and x.kind == 'assign']
                fresh = any(x.node in body for x in src_defs)
                run.check(fresh, 'R-FIX', f, 'round-buffer-fresh', f.nodes[d.node].lineno,
                          'the collection fed back is allocated inside the loop',
                          "`%s` is fed back as `%s` but is allocated once outside the trimming loop: after the first feedback "
                          "both names denote the same object, `changed` is always 0 and trimming stops after two rounds"
                          % (src, carried), inputs='masks that need three or more trimming rounds')
        if not (isinstance(head.ast, ast.Constant) and head.ast.value is True):
            t = f.term(head.ast, head)
            okt = any(is_change_indicator(ctx, f, a, carried, body) for a, p in flatten_cond(t, True))
            # witness of a bounded loop: the test compares a counter with a constant / a parameter
            bounded = any(a[0] == 'cmp' and a[1] in ('<', '<=') and (a[3][0] == 'c' or a[2][0] == 'c' or
                                                                   any(x[0] == 'v' and x[2] == 'P' for x in walk_term(a)))
                          for a, p in flatten_cond(t, True))
            if not okt and not bounded:
                run.undecided('R-FIX', f, 'loop-test-is-change-test', head.lineno,
                              'the loop test %s is not recognised as a test of "the last round changed something"' % show(t)[:60])
            else:
              run.check(okt, 'R-FIX', f, 'loop-test-is-change-test', head.lineno, 'the loop test is a change test',
                      "the trimming loop also ends when %s becomes false, whether or not a round still removed something: "
                      "the fixed point is not reached for masks that need more rounds" % show(t)[:80],
                      inputs='masks whose chain of dying vertices is longer than the bound')
        # exits
        breaks = [n for n in f.nodes if n.id in body and isinstance(n.stmt, ast.Break) and n.loops[-1] == head.id]
        rets = [n for n in f.nodes if n.id in body and isinstance(n.stmt, ast.Return)]
        if not breaks and not rets and isinstance(head.ast, ast.Constant) and head.ast.value is True:
            run.refute('R-FIX', f, 'exit', head.lineno, 'the trimming loop has no exit', inputs='every mask')
        for i, b in enumerate(breaks + rets):
            conds = ctx.conds(f, b)
            okc = False
            why = ''
            for atom, pol in conds:
                # `flag is False` / `flag == False` is `not flag`, `flag is True` is `flag`, for a flag that only holds True / False
                if atom[0] == 'cmp' and atom[1] in ('is', '==', 'is not', '!=') and atom[3] in (('c', True), ('c', False)) and \
                        atom[2][0] == 'v' and isinstance(atom[2][2], tuple) and all(
                            TermBuilder(f, f.defs[i].node).def_term(i) in (('c', True), ('c', False)) for i in atom[2][2]):
                    same = atom[1] in ('is', '==')
                    pol = pol if (atom[3] == ('c', True)) == same else (not pol)
                    atom = atom[2]
                if is_change_indicator(ctx, f, atom, carried, body):
                    # `old == new` is true when nothing changed; a difference / flag is true when something changed
                    sense = change_sense(ctx, f, atom, carried, body)
                    unchanged_here = (pol is False) if sense == 'changed' else (pol is True)
                    if unchanged_here:
                        okc = True
                    else:
                        why = 'the loop is left when something DID change'
            run.check(okc, 'R-FIX', f, 'exit-only-when-unchanged#%d' % (i + 1), b.lineno,
                      'exit is control-dependent on "nothing changed"',
                      "exit of the trimming loop at line %d is not conditioned on 'nothing changed' (%s)"
                      % (b.lineno, why or 'conditions: %s' % [(show(a)[:60], p) for a, p in conds]),
                      inputs='masks that need two or more trimming rounds')
        if fq.endswith('connect_coding_graph'):
            # the emptiness raise precedes every exit
            dom = f.dominators()
            raises = [n for n in f.nodes if n.id in body and isinstance(n.stmt, ast.Raise) and _exc_type(f, n) == 'ValueError']
            tests = set()
            for r in raises:
                if r.conds and r.conds[-1][2] in body:
                    tests.add(r.conds[-1][2])
            ok = bool(tests) and all(any(t in dom[b.id] for t in tests) for b in breaks + rets)
            how = 'the ValueError emptiness test dominates every exit of the trimming loop'
            if not ok:
                # or: after the loop every return is on the non-empty arm of a test whose other arm raises ValueError
                post = [r for r in f.stmts(ast.Return)]
                good = 0
                for r in post:
                    for test, pol, tid in r.conds:
                        t = f.term(test, f.nodes[tid])
                        if not any(x[0] == 'v' and x[1] == carried for x in walk_term(t)):
                            continue
                        for rr in f.stmts(ast.Raise):
                            if _exc_type(f, rr) == 'ValueError' and any(tid2 == tid and pol2 != pol for _, pol2, tid2 in rr.conds):
                                good += 1
                                break
                        else:
                            continue
                        break
                ok = bool(post) and good == len(post)
                how = 'every return after the loop is on the non-empty arm of a test whose other arm raises ValueError'
            run.check(ok, 'R-FIX', f, 'empty-result-raises', head.lineno, how,
                      'an empty trimmed mask can reach the return: neither an in-loop emptiness test dominating the exits '
                      'nor a post-loop guard with a ValueError arm', inputs='masks whose closed sub-graph is empty')
            # (c) the arc materialisation after the loop tests the loop-carried mask
            n_ok = n_all = 0
            from .graph2 import acc_stores as _as
            for nd, d, tgt, val in _as(ctx, f):
                for atom, pol in ctx.conds(f, nd):
                    a = atom
                    if a[0] == 'sub' and a[1][0] == 'v' and is_mask_name(f, a[1][1]):
                        n_all += 1
                        if a[1][1] == carried and isinstance(a[1][2], tuple) and any(f.defs[x].node in body for x in a[1][2]):
                            n_ok += 1
            if n_all == 0:
                run.undecided('R-FIX', f, 'materialise-from-trimmed-mask', head.lineno, 'no mask test guarding an arc store was recognised')
            else:
              run.check(n_all > 0 and n_ok == n_all, 'R-FIX', f, 'materialise-from-trimmed-mask', head.lineno,
                      'the %d mask tests guarding arc stores read the loop-carried mask' % n_all,
                      'arc stores are guarded by a mask that is not the result of the trimming loop (%d of %d tests)'
                      % (n_all - n_ok, n_all), inputs='masks for which trimming removes a vertex')
        else:
            # remove_useless returns the loop-carried map
            okr = False
            for r in f.stmts(ast.Return):
                if isinstance(r.stmt.value, ast.Name) and r.stmt.value.id == carried:
                    ver = f.reaching(r.id, carried)
                    okr = any(f.defs[x].node in body for x in ver)
            named = any(isinstance(r.stmt.value, ast.Name) for r in f.stmts(ast.Return))
            _tri(run, okr, named and not okr, 'R-FIX', f, 'returns-trimmed-map', head.lineno, 'the loop-carried map is returned',
                      'remove_useless does not return the map produced by its trimming loop',
                      inputs='maps for which trimming removes a vertex')


def change_sense(ctx, f, atom, carried, body):
    """'unchanged' when the atom is true iff the round changed nothing (size(old) == size(new)), else 'changed'"""
    t = atom
    flip = False
    while t[0] == 'un' and t[1] == 'not':
        flip, t = not flip, t[2]
    res = 'changed'
    if t[0] == 'cmp' and t[1] == '==':
        res = 'unchanged'
    elif t[0] == 'v' and isinstance(t[2], tuple):
        for di in t[2]:
            d = f.defs[di]
            if d.node in body and d.kind == 'assign':
                dv = TermBuilder(f, d.node).def_term(d.id)
                if dv is not None and dv != t and dv[0] in ('cmp', 'un', 'v', 'bin'):
                    res = change_sense(ctx, f, dv, carried, body)
                    break
    if flip:
        res = 'unchanged' if res == 'changed' else 'changed'
    return res


def is_change_indicator(ctx, f, atom, carried, body):
    """`changed` = size(old) - size(new)   or a flag set True exactly where something is dropped"""
    t = atom
    while t[0] == 'un' and t[1] == 'not':
        t = t[2]
    if t[0] == 'bin' and t[1] == '-':
        names = {x[1] for x in walk_term(t) if x[0] == 'v'}
        return carried in names and len(names) >= 2
    if t[0] == 'cmp' and t[1] in ('==', '!='):
        names = {x[1] for x in walk_term(t) if x[0] == 'v'}
        return carried in names and len(names) >= 2
    if t[0] == 'v' and isinstance(t[2], tuple):
        defs = [f.defs[i] for i in t[2]]
        # a variable that holds the change indicator computed in the loop (possibly initialised to a constant before it)
        for d in defs:
            if d.node in body and d.kind == 'assign':
                dv = TermBuilder(f, d.node).def_term(d.id)
                if dv is not None and dv != t and dv[0] in ('bin', 'cmp', 'un', 'v') and is_change_indicator(ctx, f, dv, carried, body):
                    return True
        vals = []
        for d in defs:
            v = TermBuilder(f, d.node).def_term(d.id)
            vals.append(v)
        if vals and all(v in (('c', True), ('c', False)) for v in vals) and ('c', False) in vals and ('c', True) in vals:
            # the False definition must be inside the loop (reset every round)
            return any(v == ('c', False) and d.node in body for v, d in zip(vals, defs))
    return False


# ----------------------------------------------------------------------------------------------
def r_arb(ctx):
    run = ctx.run
    run.rule('R-ARB', "networkx.find_cycle returns one arbitrary cycle: no break / return may be control-dependent on "
                      "the content of that one cycle; the search graph is built only from arcs leaving out-degree-1 "
                      "vertices, so every cycle found is information-free; the loop ends on NetworkXNoCycle")
    f = ctx.p.func('dsw.spiderweb.connect_coding_graph')
    sites = [(nd, c) for nd, c, callee, q in ctx.calls()[f.fq] if q and q.endswith('find_cycle')]
    if not sites:
        # another networkx search (simple_cycles, strongly_connected_components, ...) that is evaluated ONCE while removals follow
        # it: a removal lowers the out-degree of the predecessors, a branching vertex can become information-free and close a new
        # cycle, so the search has to be repeated after the removals (a loop that contains both) - a single pass misses those
        searches = [(nd_, q_) for nd_, c_, callee_, q_ in ctx.calls()[f.fq] if q_ and q_.startswith('networkx.') and
                    q_.split('.')[-1] in ('simple_cycles', 'strongly_connected_components', 'cycle_basis', 'recursive_simple_cycles',
                                          'find_cycle', 'condensation', 'kosaraju_strongly_connected_components')]
        removals = [nd_ for nd_, d_, tg_, v_ in acc_stores(ctx, f) if v_ == ('c', -1)]
        if searches and removals:
            repeated = any(L in nd_.loops for s_, _q in searches for L in s_.loops for nd_ in removals)
            after = any(r_.id in f.reachable_from(s_.id) for s_, _q in searches for r_ in removals)
            if not repeated and after:
                run.refute('R-ARB', f, 'pruning-reaches-the-fixed-point', searches[0][0].lineno,
                           'the information-free cycles are searched once (%s at line %d) and the removals that follow are never '
                           'followed by another search: removing a vertex lowers the out-degree of its predecessors, a vertex that '
                           'branched can become information-free and close a NEW cycle of out-degree-1 vertices, which stays in the '
                           'graph - encode never terminates on it' % (searches[0][1].split('.')[-1], searches[0][0].lineno),
                           inputs='threshold-1 masks in which a cycle closes only after an earlier cycle and its tail were pruned')
                return
        run.undecided('R-ARB', f, 'pruning-by-cycle-search', f.node.lineno,
                      'the threshold-1 pruning no longer uses the cycle search this rule decides; whether it still reaches the '
                      'fixed point (a removal can turn a branching vertex into an information-free one) is not decided')
        return
    # "nothing is left" is judged after the pruning, not before it
    dom_ = f.dominators()
    for i, (nd, c) in enumerate(sites):
        if not nd.loops:
            continue
        head0 = nd.loops[-1]
        body0 = {n.id for n in f.nodes if head0 in n.loops}
        after, before = [], []
        for r_ in f.stmts(ast.Raise):
            if _exc_type(f, r_) != 'ValueError' or not r_.conds or r_.id in body0:
                continue
            tid = r_.conds[-1][2]
            tt = f.term(f.nodes[tid].ast, f.nodes[tid])
            about_count = any(is_call(x, 'builtins.len') or (x[0] == 'attr' and x[2] == 'size') for x in walk_term(tt))
            if not about_count:
                continue
            if head0 in dom_[tid]:
                after.append(r_)
            elif tid in dom_[head0] and any(a == ('cmp', '==', ('v', 'threshold', 'P'), ('c', 1)) and p for a, p in ctx.conds(f, r_)):
                before.append(r_)
        if before and not after:
            run.refute('R-ARB', f, 'emptiness-judged-after-pruning#%d' % (i + 1), before[0].lineno,
                       'the threshold-1 "nothing is left" error is tested at line %d, before the cycle pruning starts: at that point '
                       'the vertices still are the trimmed mask, so a mask that consists of information-free cycles only is pruned to '
                       'nothing and an empty graph is returned instead of ValueError' % before[0].lineno,
                       inputs='threshold 1 with masks such as {AA}, {AC, CA}')
        elif after:
            run.ok('R-ARB', f, 'emptiness-judged-after-pruning#%d' % (i + 1), after[0].lineno, 'the emptiness test follows the pruning loop')
    for i, (nd, c) in enumerate(sites):
        if not nd.loops:
            continue
        head = nd.loops[-1]
        body = {n.id for n in f.nodes if head in n.loops}
        cyc = f.term(c, nd)
        exits = [n for n in f.nodes if n.id in body and isinstance(n.stmt, (ast.Break, ast.Return)) and
                 (not isinstance(n.stmt, ast.Break) or n.loops[-1] == head)]
        bad = []
        for e in exits:
            for atom, pol in ctx.conds(f, e):
                if any(x == cyc or (x[0] == 'iter' and x[1] == cyc) for x in walk_term(atom)) or \
                        depends_on(f, atom, cyc):
                    bad.append(e)
        run.check(not bad, 'R-ARB', f, 'exit-not-decided-from-one-cycle#%d' % (i + 1), nd.lineno,
                  'no exit of the pruning loop depends on the content of the cycle found',
                  "the exit at line %s is decided from the one cycle find_cycle happened to return: other "
                  "information-free cycles stay in the graph and encoding on it never terminates"
                  % (bad[0].lineno if bad else ''), inputs='masks with two or more cycles, e.g. {AA,AC,CC} at k=2')
        # exit through the NetworkXNoCycle handler
        handled = any(f.nodes[h].ast is not None and 'NetworkXNoCycle' in ast.unparse(f.nodes[h].ast) for h in nd.handlers)
        run.check(handled, 'R-ARB', f, 'no-cycle-handled#%d' % (i + 1), nd.lineno, 'NetworkXNoCycle is handled',
                  'find_cycle is called without a NetworkXNoCycle handler: an acyclic remainder raises instead of ending the loop',
                  inputs='masks whose graph has no cycle left')
        # add_edge only from out-degree-1 vertices
        adds = [(n2, c2) for n2, c2, callee, q in ctx.calls()[f.fq]
                if isinstance(c2.func, ast.Attribute) and c2.func.attr == 'add_edge' and n2.id in body]
        K = ctx.kinds
        for j, (n2, c2) in enumerate(adds):
            t = f.term(c2, n2)
            u = call_arg(t, 0, 'u_of_edge')
            ok, wit, undec = False, None, None
            degs = []
            for atom, pol in ctx.conds(f, n2):
                for x in walk_term(atom):
                    row = K.out_degree_row(x, f)
                    if row is not None:
                        degs.append((x, row))
            mine = [(x, row) for x, row in degs
                    if (row[0] == 'iter' and u is not None and u[0] == 'idx' and u[1] == row[1]) or (row[0] == 'sub' and row[2] == u)]
            if not degs:
                wit = 'no condition on the number of live arcs of the source vertex guards the edge'
            elif not mine:
                undec = 'the out-degree tested (%s) is not recognised as that of the edge source %s' % (show(degs[0][0])[:40], show(u)[:30])
            else:
                dterm = mine[0][0]
                tab = []
                for dv in range(5):
                    vs = []
                    for atom, pol in ctx.conds(f, n2):
                        if not any(x == dterm for x in walk_term(atom)):
                            continue
                        v = feval(atom, lambda x, dv=dv: dv if x == dterm else UNKNOWN)
                        vs.append(UNKNOWN if v is UNKNOWN else bool(v) == pol)
                    tab.append(UNKNOWN if any(v is UNKNOWN for v in vs) else all(vs))
                run.count('cases', 5)
                if any(v is UNKNOWN for v in tab):
                    undec = 'the out-degree guard is not evaluable: %s' % (tab,)
                elif tuple(tab) == (False, True, False, False, False):
                    ok = True
                else:
                    wit = 'the guard admits sources with %s live arcs' % [d for d in range(5) if tab[d]]
            if undec and not ok:
                run.undecided('R-ARB', f, 'search-graph-only-out-degree-1#%d' % (j + 1), n2.lineno, undec)
            else:
                run.check(ok, 'R-ARB', f, 'search-graph-only-out-degree-1#%d' % (j + 1), n2.lineno,
                          'edges enter the cycle search only from vertices with exactly one live arc',
                          'an edge is added to the cycle-search graph without requiring its source to have out-degree 1 (%s): '
                          'a cycle through a branching vertex would be removed' % wit,
                          inputs='masks with cycles through branching vertices')
        if not adds:
            # the search graph may be built outside the loop (then it must still be rebuilt: see freshness below)
            adds_any = [(n2, c2) for n2, c2, callee, q in ctx.calls()[f.fq]
                        if isinstance(c2.func, ast.Attribute) and c2.func.attr == 'add_edge']
            if not adds_any:
                raise AnalysisError("rule R-ARB lost its anchor: no add_edge call in connect_coding_graph")
        # freshness: the search graph is a view derived from the accessor; no accessor store may reach the next
        # find_cycle call without the graph being rebuilt
        garg = c.args[0] if c.args else None
        if isinstance(garg, ast.Name):
            gdefs = {d.node for d in f.defs if d.name == garg.id and d.kind == 'assign'}
            stale = []
            for snd, sd, stg, sval in acc_stores(ctx, f):
                if snd.id in body and nd.id in f.reachable_from(snd.id, avoid=gdefs):
                    stale.append(snd)
            run.check(not stale, 'R-ARB', f, 'search-graph-rebuilt-after-stores#%d' % (i + 1), nd.lineno,
                      'every arc removal is followed by a rebuild of the cycle-search graph before the next search',
                      "the accessor store at line %s reaches the next find_cycle call without the search graph being rebuilt "
                      "from the accessor: vertices that drop to out-degree 1 during the cascade never enter it, so an "
                      "information-free cycle created by the pruning itself survives"
                      % (stale[0].lineno if stale else ''), inputs='masks where removing one cycle creates another')


def depends_on(f, atom, cyc):
    for x in walk_term(atom):
        if x[0] == 'v' and isinstance(x[2], tuple):
            for di in x[2]:
                d = f.defs[di]
                if d.kind in ('assign', 'mutate') and d.value is not None:
                    try:
                        t = f.term(d.value, f.nodes[d.node])
                    except Exception:
                        continue
                    if any(y == cyc or (y[0] == 'iter' and y[1] == cyc) for y in walk_term(t)):
                        return True
    return False


# ----------------------------------------------------------------------------------------------
def legality_form(t):
    """'full' for ones ⊆ successors in a recognised form, 'partial' when only constant-subscripted elements of the ones
    are compared, None otherwise"""
    def is_ones(x):
        return x[0] == 'call' and x[1][0] == 'attr' and x[1][2] == 'tolist' or \
            (x[0] == 'sub' and is_call(x[1], 'numpy.where', 'numpy.nonzero'))
    # list(set(ones) | set(ref)) != ref   /  set(ones) <= set(ref)  / set(ones) - set(ref)
    txt = show(t)
    for x in walk_term(t):
        if x[0] == 'bin' and x[1] in ('|', '-') and is_call(x[2], 'builtins.set') and is_call(x[3], 'builtins.set'):
            return 'full'
        if x[0] == 'cmp' and x[1] in ('<=', '<') and is_call(x[2], 'builtins.set') and is_call(x[3], 'builtins.set'):
            return 'full'
        if x[0] == 'call' and x[1][0] == 'attr' and x[1][2] in ('issubset', 'issuperset', 'difference'):
            return 'full'
        if is_call(x, 'builtins.all', 'builtins.any') and x[2] and x[2][0][0] == 'comp':
            return 'full'
    ones_subs = [x for x in walk_term(t) if x[0] == 'sub' and x[2][0] == 'c' and is_ones(x[1])]
    if ones_subs:
        return 'partial'
    return None


def r_legal(ctx):
    run = ctx.run
    run.rule('R-LEGAL', "adjacency_matrix_to_accessor: the row store is dominated by the legality test (the row's ones "
                        "are a subset of obtain_latters of the same vertex) whose failing arm raises ValueError")
    f = ctx.p.func('dsw.graphized.adjacency_matrix_to_accessor')
    stores = acc_stores(ctx, f)
    if not stores:
        raise AnalysisError("rule R-LEGAL lost its anchor: no accessor store in adjacency_matrix_to_accessor")
    for i, (nd, d, tgt, val) in enumerate(stores):
        ok = False
        for test, pol, tid in nd.conds:
            t = f.term(test, f.nodes[tid])
            mentions_ref = any(call_name(x) and call_name(x).endswith('.obtain_latters') for x in walk_term(t))
            mentions_row = any(is_call(x, 'numpy.where', 'numpy.nonzero', 'numpy.flatnonzero') for x in walk_term(t))
            if not (mentions_ref and mentions_row):
                continue
            form = legality_form(t)
            # the rejecting condition is the legality comparison itself: a conjunct that looks at the row's ones and is not that
            # comparison makes the rejection depend on something else (e.g. the NUMBER of ones), so for some rows the test is skipped
            rejecting = t if not pol else ('un', 'not', t)
            conj = rejecting[2:] if rejecting[0] == 'bool' and rejecting[1] == 'and' else ()
            if not pol and t[0] == 'bool' and t[1] == 'and':
                conj = t[2:]
            extra = [c_ for c_ in conj if legality_form(c_) is None and
                     any(is_call(x, 'numpy.where', 'numpy.nonzero', 'numpy.flatnonzero') for x in walk_term(c_))]
            if extra and any(legality_form(c_) is not None for c_ in conj):
                run.refute('R-LEGAL', f, 'legality-test-on-every-row#%d' % (i + 1), f.nodes[tid].lineno,
                           'the row is rejected only when the legality comparison fails AND %s: for the rows where that extra condition '
                           'is false an arc that is not a de Bruijn shift is silently dropped instead of raising ValueError'
                           % show(extra[0])[:70], inputs='rows for which the extra condition is false (e.g. exactly four ones, one of '
                                                         'them illegal)')
            if form == 'partial':
                run.refute('R-LEGAL', f, 'legality-test-covers-every-one#%d' % (i + 1), f.nodes[tid].lineno,
                           "the legality test %s examines a single element of the row's ones (constant subscript): an "
                           "illegal arc elsewhere in the row is silently dropped instead of raising ValueError"
                           % show(t)[:120], inputs='matrices with an illegal arc that is not the examined element')
            elif form is None:
                run.undecided('R-LEGAL', f, 'legality-test-covers-every-one#%d' % (i + 1), f.nodes[tid].lineno,
                              'legality test form not recognised: %s' % show(t)[:100])
            # the test is applied to EVERY row: no condition on the row itself decides whether the test is reached
            tn = f.nodes[tid]
            for test3, pol3, tid3 in tn.conds:
                if not tn.loops or tn.loops[-1] not in f.nodes[tid3].loops and tid3 != tn.loops[-1]:
                    continue
                t3 = f.term(test3, f.nodes[tid3])
                row_dep = [x for x in walk_term(t3) if x[0] in ('iter', 'item') and
                           any(y == ('v', 'matrix', 'P') for y in walk_term(x))]
                if row_dep:
                    run.refute('R-LEGAL', f, 'legality-test-on-every-row#%d' % (i + 1), f.nodes[tid3].lineno,
                               'the legality test is only reached for rows where %s is %s: in the other rows an arc that is not a '
                               'de Bruijn shift is silently dropped instead of raising ValueError' % (show(t3)[:70], pol3),
                               inputs='a row whose only ones are illegal arcs')
            # the opposite arm raises ValueError
            for r in f.stmts(ast.Raise):
                for test2, pol2, tid2 in r.conds:
                    if tid2 == tid and pol2 != pol and _exc_type(f, r) == 'ValueError':
                        ok = True
        run.check(ok, 'R-LEGAL', f, 'row-store-guarded#%d' % (i + 1), nd.lineno,
                  'row store only on the legal arm; the other arm raises ValueError',
                  "the accessor row is stored without the legality test (matrix row ones within obtain_latters of the "
                  "vertex) whose failing arm raises ValueError: an illegal arc is silently dropped",
                  inputs='matrices containing an arc that is not a de Bruijn shift')


def r_bfs(ctx):
    run = ctx.run
    run.rule('R-BFS', "obtain_leaf_vertices: the accessor arm and the latter-map arm iterate range(depth) with the same "
                      "bound, rebuild the level from the live successors of every frontier element and rebind the frontier")
    f = ctx.p.func('dsw.graphized.obtain_leaf_vertices')
    loops = []
    for nd in f.nodes:
        if nd.kind == 'for' and not nd.loops:
            it = f.term(nd.stmt.iter, nd)
            if is_call(it, 'builtins.range'):
                loops.append((nd, it))
    fused = False
    if len(loops) == 1:
        # one level loop serving both representations: its body reads the accessor and the latter map
        nd0 = loops[0][0]
        body0 = [n for n in f.nodes if nd0.id in n.loops]
        reads = {x for n, _r, t in ctx.root_terms(f) if n in body0 and t is not None for x in walk_term(t)
                 if x in (('v', 'accessor', 'P'), ('v', 'latter_map', 'P'))}
        fused = len(reads) == 2
    run.floor('R-BFS', 'depth loops in obtain_leaf_vertices', len(loops), 1 if fused else 2)
    depth = ('v', 'depth', 'P')
    for i, (nd, it) in enumerate(loops):
        counts = []
        for dv in (0, 1, 3):
            v_ = feval(it, lambda x, dv=dv: dv if x == depth else UNKNOWN)
            counts.append(len(v_) if isinstance(v_, list) else UNKNOWN)
        if any(c_ is UNKNOWN for c_ in counts):
            run.undecided('R-BFS', f, 'depth-loop#%d:bound' % (i + 1), nd.lineno, 'the level loop iterates %s' % show(it)[:60])
        else:
          run.check(counts == [0, 1, 3], 'R-BFS', f, 'depth-loop#%d:bound' % (i + 1), nd.lineno, 'iterates range(depth)',
                  'the level loop iterates %s, not range(depth): this representation answers a different depth' % show(it),
                  inputs='every depth >= 1')
        body = {n.id for n in f.nodes if nd.id in n.loops}
        # frontier: the name iterated by the inner loop; must be rebound in the body from the level list
        inner = [n for n in f.nodes if n.id in body and n.kind == 'for' and n.loops[-1] == nd.id]
        front = None
        for x in inner:
            if isinstance(x.stmt.iter, ast.Name):
                front = x.stmt.iter.id
        if not front:
            for x in inner:
                for n_ in ast.walk(x.stmt.iter):
                    if isinstance(n_, ast.Name) and any(d.name == n_.id and d.node in body and d.kind == 'assign' for d in f.defs):
                        front = n_.id
        def carried(name):
            # the frontier lives across the rounds: a definition from before the loop reaches the loop head (the name exists when
            # the loop starts); a temporary built and consumed inside one round has none
            ds = f.reaching(nd.id, name)
            return any(f.defs[i].node not in body for i in ds)
        if front and not carried(front):
            front = None
        rebind = [d for d in f.defs if front and d.name == front and d.node in body and d.kind == 'assign']
        if not front:
            # comprehension form: X = [... for v in X ...] inside the level loop
            for d in f.defs:
                if d.node in body and d.kind == 'assign' and isinstance(d.value, (ast.ListComp, ast.Call)):
                    src = d.value
                    names = {x.id for x in ast.walk(src) if isinstance(x, ast.Name)}
                    if d.name in names and carried(d.name):
                        front, rebind = d.name, [d]
        if not front:
            # level = [... for v in FRONT ...] ; FRONT = level   (the level is built by a comprehension over the frontier)
            for d in f.defs:
                if d.node in body and d.kind == 'assign' and isinstance(d.value, (ast.ListComp, ast.GeneratorExp)):
                    src = d.value.generators[0].iter
                    cand = [n_.id for n_ in ast.walk(src) if isinstance(n_, ast.Name)]
                    for c_ in cand:
                        rb = [d2 for d2 in f.defs if d2.name == c_ and d2.node in body and d2.kind == 'assign']
                        if rb and carried(c_):
                            front, rebind = c_, rb
        if not front:
            run.undecided('R-BFS', f, 'depth-loop#%d:frontier-rebound' % (i + 1), nd.lineno,
                          'the frontier of this level loop is not recognised')
            continue
        inplace_front = [d for d in f.defs if front and d.name == front and d.node in body and d.kind == 'mutate']
        if front and not rebind and inplace_front:
            run.undecided('R-BFS', f, 'depth-loop#%d:frontier-rebound' % (i + 1), nd.lineno, 'the frontier is updated in place')
            continue
        run.check(bool(front and rebind), 'R-BFS', f, 'depth-loop#%d:frontier-rebound' % (i + 1), nd.lineno,
                  'the frontier is replaced by the new level each round',
                  'the frontier of the breadth-first search is not rebound inside the level loop', inputs='depth >= 2')
        # leaving the depth loop early is only sound after the frontier was replaced by the (empty) new level
        dom = f.dominators()
        rebind_nodes = {d.node for d in rebind}
        for x in f.nodes:
            if x.id in body and isinstance(x.stmt, ast.Break) and x.loops[-1] == nd.id:
                if not any(r in dom[x.id] for r in rebind_nodes) and x.conds:
                    # the guard of the break: leaving because the FRONTIER is empty returns the empty frontier (sound);
                    # leaving because something else (the new level) is empty returns the stale frontier (the witness below)
                    test_, pol_, tid_ = x.conds[-1]
                    names_ = {n_.id for n_ in ast.walk(test_) if isinstance(n_, ast.Name)} - {'len'}
                    if names_ == {front}:
                        tt_ = f.term(test_, f.nodes[tid_])
                        fv_ = [y for y in walk_term(tt_) if y[0] == 'v' and y[1] == front]
                        empt = None
                        if fv_:
                            empt = _empty_when(tt_, fv_[0], pol_)
                        if empt is True:
                            run.ok('R-BFS', f, 'depth-loop#%d:early-exit-after-rebind' % (i + 1), x.lineno,
                                   'the level loop is left when the frontier itself is empty: the empty frontier is returned')
                            continue
                        if empt is None:
                            run.undecided('R-BFS', f, 'depth-loop#%d:early-exit-after-rebind' % (i + 1), x.lineno,
                                          'the guard %s of the early exit is not classified' % ast.unparse(test_)[:50])
                            continue
                    elif front in names_ or not names_:
                        run.undecided('R-BFS', f, 'depth-loop#%d:early-exit-after-rebind' % (i + 1), x.lineno,
                                      'the guard %s of the early exit is not classified' % ast.unparse(test_)[:50])
                        continue
                run.check(any(r in dom[x.id] for r in rebind_nodes), 'R-BFS', f, 'depth-loop#%d:early-exit-after-rebind' % (i + 1),
                          x.lineno, 'the level loop is left only after the frontier was replaced',
                          'the level loop is left (break at line %d) before the frontier is replaced by the new level: a search '
                          'that hits a dead end returns the previous frontier instead of no leaves' % x.lineno,
                          inputs='a vertex with incoming arcs but no outgoing ones')
        for x in inner:
            it_ = x.stmt.iter
            setlike = any(isinstance(n_, ast.BinOp) and isinstance(n_.op, (ast.BitAnd, ast.BitOr)) for n_ in ast.walk(it_)) or \
                any(isinstance(n_, ast.Call) and isinstance(n_.func, ast.Name) and n_.func.id in ('set', 'frozenset') for n_ in ast.walk(it_))
            if setlike and front and any(isinstance(n_, ast.Name) and n_.id == front for n_ in ast.walk(it_)):
                run.refute('R-BFS', f, 'depth-loop#%d:frontier-deduplicated' % (i + 1), x.lineno,
                           'the frontier is iterated through a set expression (%s): a vertex reached by several walks is expanded '
                           'once, so the result is not the multiset of walk end points' % ast.unparse(it_)[:60],
                           inputs='depths at which two walks meet in one vertex')
        # the frontier loop visits every element: no break / return inside it
        for x in f.nodes:
            if x.id in body and isinstance(x.stmt, (ast.Break, ast.Return)) and len(x.loops) >= 2 and x.loops[0] == nd.id:
                run.refute('R-BFS', f, 'depth-loop#%d:frontier-loop-not-cut-short' % (i + 1), x.lineno,
                           'the loop over the frontier is left early (%s at line %d): the remaining frontier vertices are not '
                           'expanded, so leaves are lost and the two representations disagree'
                           % (type(x.stmt).__name__.lower(), x.lineno), inputs='frontiers containing a vertex without successors')
        # every frontier element is expanded: the statement that extends the level is conditioned on nothing but
        # "the vertex has an entry" (latter-map arm)
        for x in f.nodes:
            if x.id in body and x.kind == 'stmt' and len(x.loops) >= 2:
                ext = False
                if isinstance(x.stmt, ast.AugAssign) and isinstance(x.stmt.op, ast.Add):
                    ext = True
                if isinstance(x.stmt, ast.Expr) and isinstance(x.stmt.value, ast.Call) and \
                        isinstance(x.stmt.value.func, ast.Attribute) and x.stmt.value.func.attr in ('append', 'extend'):
                    ext = True
                if not ext:
                    continue
                extra = []
                for atom, pol in ctx.conds(f, x):
                    cmps = [y for y in walk_term(atom) if y[0] == 'cmp']
                    if cmps and all(y[1] in ('is', 'is not') and y[3] == ('c', None) for y in cmps):
                        continue            # accessor is not None / latter_map is not None (alone or combined)
                    if atom[0] == 'cmp' and atom[1] == 'in' and pol and atom[3] == ('v', 'latter_map', 'P'):
                        continue
                    extra.append((show(atom)[:50], pol))
                dedup = any((' in ' in a_ and not p_) or 'set(' in a_ or 'seen' in a_ or 'visited' in a_ for a_, p_ in extra)
                if extra and not dedup:
                    run.undecided('R-BFS', f, 'depth-loop#%d:every-frontier-element-expanded' % (i + 1), x.lineno,
                                  'the level is extended under a condition this rule does not interpret: %s' % extra)
                    continue
                run.check(not extra, 'R-BFS', f, 'depth-loop#%d:every-frontier-element-expanded' % (i + 1), x.lineno,
                          'the level is extended for every frontier element',
                          'the level is extended only when %s: repeated frontier vertices are not expanded once per '
                          'occurrence, so the result is not the multiset of walk end points and the two representations '
                          'disagree' % extra, inputs='depths at which two walks meet in one vertex')
        # returned value is the frontier
    rets = [r for r in f.stmts(ast.Return)]
    ok = False
    for r in rets:
        t = f.term(r.stmt.value, r)
        if any(x[0] == 'v' and x[1] == 'branch' or (x[0] == 'v' and isinstance(x[2], tuple) and len(x[2]) > 1)
               for x in walk_term(t)):
            ok = True
    if ok:
        run.ok('R-BFS', f, 'returns-frontier', rets[0].lineno if rets else f.node.lineno, 'the final frontier is returned', nontrivial=False)
    else:
        run.undecided('R-BFS', f, 'returns-frontier', rets[0].lineno if rets else f.node.lineno, 'what obtain_leaf_vertices returns is not '
                      'recognised as the final frontier')


# ----------------------------------------------------------------------------------------------
def r_cascade(ctx):
    """threshold-1 cascade: arcs into removed vertices are cleared at the right predecessors"""
    run = ctx.run
    run.rule('R-CASCADE', "threshold-1 cascade of connect_coding_graph: every work list of (predecessor, target) pairs is "
                          "[(i, X) for i in obtain_formers(X, K)] with the same X on both sides; the pair (u, w) clears "
                          "ACC[u, w % 4]; predecessors of u are enqueued exactly when u lost its last arc")
    f = ctx.p.func('dsw.spiderweb.connect_coding_graph')
    K = find_k_term(f)
    n = 0
    seen = set()
    for nd, s in ctx.all_subterms(f):
        if s[0] == 'comp' and s[1] in ('list', 'gen') and len(s[3]) == 1 and s[2][0] == 'tuple' and len(s[2]) == 3 and \
                ('comp', 'list') + s[2:] not in seen:
            it, conds = s[3][0]
            if not (call_name(it) and call_name(it).endswith('.obtain_formers')):
                continue
            seen.add(('comp', 'list') + s[2:])
            n += 1
            x_arg = call_arg(it, 0, 'current')
            first, second = s[2][1], s[2][2]
            ok = first[0] == 'iter' and first[1] == it and second == x_arg and not conds
            run.check(ok, 'R-CASCADE', f, 'pairs#%d:(predecessor-of-X, X)' % n, nd.lineno,
                      'pairs are (i, X) for i in obtain_formers(X, K)',
                      "the cascade enqueues pairs (%s, %s) for i in obtain_formers(%s, ...): the target recorded in the pair "
                      "must be the vertex whose predecessors are enumerated, otherwise arcs into a vertex that lost all its "
                      "arcs are left in the graph" % (show(first)[:30], show(second)[:40], show(x_arg)[:40]),
                      inputs='masks with a chain of two or more out-degree-1 vertices feeding an information-free cycle')
            if K is not None:
                run.check(call_arg(it, 1, 'observed_length') == K, 'R-CASCADE', f, 'pairs#%d:observed-length' % n, nd.lineno,
                          'obtain_formers receives the observed length', 'obtain_formers receives %s'
                          % show(call_arg(it, 1, 'observed_length')), nontrivial=False)
    run.floor('R-CASCADE', 'pair lists in the cascade', n, 2)
    # the store clears ACC[u, w % 4] for the iterated pair (u, w)
    m = 0
    for nd, d, tg, val in acc_stores(ctx, f):
        if val != ('c', -1) or tg[0] != 'sub' or tg[1][0] != 'sub':
            continue
        u, col = tg[1][2], tg[2]
        if not (col[0] == 'bin' and col[1] == '%'):
            continue
        m += 1
        w = col[2]
        ok = col[3] == ('c', 4) and u[0] == 'item' and w[0] == 'item' and u[1] == w[1] and u[2] == 0 and w[2] == 1
        def _comp(x):
            return x[0] == 'item' and isinstance(x[2], int) and x[2] >= 0
        wit = col[3] != ('c', 4) or (_comp(u) and _comp(w) and (u[1] != w[1] or (u[2], w[2]) != (0, 1)))
        _tri(run, ok, wit, 'R-CASCADE', f, 'clear#%d:ACC[u, w %% 4]' % m, nd.lineno, 'the pair (u, w) clears column w % 4 of row u',
                  'the cascade clears %s for the pair: required ACC[u, w %% 4] with (u, w) the iterated pair' % show(tg)[:80],
                  inputs='every cascade step')
        # enqueue under "row became empty"
    run.floor('R-CASCADE', 'cascade clears', m, 1)
    k = 0
    for nd in f.nodes:
        for d in nd.defs:
            t = None
            if d.kind == 'aug' and d.value is not None and isinstance(nd.stmt, ast.AugAssign) and nd.loops:
                t = f.term(d.value, nd)
            elif d.kind == 'mutate' and isinstance(d.extra, ast.Attribute) and d.extra.attr == 'extend' and nd.loops and \
                    d.value is not None:
                c_ = f.term(d.value, nd)
                t = c_[2][0] if c_[0] == 'call' and len(c_[2]) == 1 else None
            if t is not None:
                if t[0] == 'comp' and call_name(t[3][0][0]) and call_name(t[3][0][0]).endswith('.obtain_formers'):
                    k += 1
                    okc = False
                    Kk = ctx.kinds
                    inner_conds = [(a, p) for a, p in ctx.conds(f, nd) if a not in [a2 for a2, _p2 in ctx.conds(f, f.nodes[nd.loops[0]])]]
                    for atom, pol in ctx.conds(f, nd):
                        for x in ([atom] if atom[0] == 'cmp' else list(atom[2:]) if atom[0] == 'bool' else []):
                            if x[0] == 'cmp' and x[1] == '==' and x[3] == ('c', 0) and pol:
                                okc = True
                        # `not any(P(row))` / `not P(row).any()`: no live arc left
                        if not pol and (is_call(atom, 'builtins.any', 'numpy.any') and atom[2] and Kk.row_of_pred(atom[2][0], f) is not None
                                        or atom[0] == 'call' and atom[1][0] == 'attr' and atom[1][2] == 'any' and
                                        Kk.row_of_pred(atom[1][1], f) is not None):
                            okc = True
                    row_related = [a for a, p in inner_conds if any(Kk.kind(x, f) in ('ROW', 'ENTRY', 'ACC') or
                                                                     Kk.out_degree_row(x, f) is not None for x in walk_term(a))]
                    _tri(run, okc, not row_related, 'R-CASCADE', f, 'enqueue#%d:only-when-row-emptied' % k, nd.lineno,
                         'predecessors are enqueued when the row has no live arc left',
                         'predecessors are enqueued without any test that the vertex just lost its last arc',
                         inputs='vertices that keep another arc')


def r_useless_kept(ctx):
    """remove_useless: a successor is kept only if it is itself a surviving key"""
    run = ctx.run
    run.rule('R-KEEP', "remove_useless keeps a successor w of a kept vertex only if w is itself a key that meets the "
                       "threshold (member of the saved list / of the map and not of the removed list)")
    g = ctx.p.func('dsw.graphized.remove_useless')
    # the result is a map of its own: the parameter object itself is never what is returned (a caller that edits the result in
    # place - remove_nasty_arc does - would otherwise edit the argument of an earlier call)
    for rn in g.stmts(ast.Return):
        if rn.stmt.value is None:
            continue
        rt = g.term(rn.stmt.value, rn)
        if rt[0] == 'v' and rt[1] == 'latter_map':
            whole = rt[2] == 'P' or (isinstance(rt[2], tuple) and any(g.defs[i].kind == 'param' for i in rt[2]))
            # reaching definitions are path-insensitive (a `while flag:` loop whose flag starts true always runs once): the witness is
            # a return INSIDE the trimming loop that a round reaches without having replaced the map in that round
            if whole:
                whole = False
                for hid in rn.loops:
                    for p_, k_ in ctx.body_paths(g, hid):
                        if k_ == 'return' and p_ and p_[-1] == rn.id:
                            if not any(d.name == 'latter_map' and d.kind == 'assign' and d.node in p_[:-1] for d in g.defs):
                                whole = True
            run.check(not whole, 'R-KEEP', g, 'result-is-a-new-map', rn.lineno, 'the returned map was rebuilt inside the function',
                      'remove_useless returns its argument `latter_map` itself on a path (no round replaced it): the result aliases the '
                      "caller's dictionary and lists, so an in-place edit of the result changes the argument", inputs='maps that need no trimming')
    n = 0
    sites = []          # (node, kept element term, [(membership atom, polarity)])
    for nd in g.nodes:
        if not (nd.kind == 'stmt' and isinstance(nd.stmt, ast.Expr) and isinstance(nd.stmt.value, ast.Call) and
                isinstance(nd.stmt.value.func, ast.Attribute) and nd.stmt.value.func.attr == 'append' and len(nd.loops) >= 3):
            continue
        t = g.term(nd.stmt.value, nd)
        arg = t[2][0] if t[2] else None
        if arg is None or arg[0] != 'iter':
            continue
        sites.append((nd, arg, [(a, pol) for a, pol in ctx.conds(g, nd) if a[0] == 'cmp' and a[1] == 'in' and a[2] == arg]))
    # comprehension form: [w for w in successors if <membership tests on w>]
    seen_c = set()
    for nd, s_ in ctx.all_subterms(g):
        if s_[0] == 'comp' and s_[1] == 'list' and len(s_[3]) == 1 and s_[3][0][1] and s_[2][0] == 'iter' and \
                s_[2][1] == s_[3][0][0] and s_ not in seen_c and nd.loops:
            seen_c.add(s_)
            mem = []
            for c_ in s_[3][0][1]:
                for a, pol in flatten_cond(c_, True):
                    if a[0] == 'cmp' and a[1] in ('in', 'not in') and a[2] == s_[2]:
                        mem.append((('cmp', 'in') + a[2:], pol if a[1] == 'in' else not pol))
            if mem:
                sites.append((nd, s_[2], mem))
    for nd, arg, mem in sites:
        n += 1
        pos_in = [a for a, pol in mem if pol]
        neg_in = [a for a, pol in mem if not pol]
        # a positive membership in a collection of surviving keys: the saved list (appended under "not removed"), the
        # latter map itself, or its keys()
        ok = False
        for a in pos_in:
            c = a[3]
            if c[0] == 'v' and (c[1] == 'latter_map' or any(d.kind == 'mutate' for d in g.defs if d.name == c[1])):
                ok = True
            if c[0] == 'call' and c[1][0] == 'attr' and c[1][2] == 'keys':
                ok = True
        _tri(run, ok, bool(neg_in) and not pos_in, 'R-KEEP', g, 'kept-successor-is-a-surviving-key#%d' % n, nd.lineno,
             'a kept successor is tested to be a surviving key',
             "remove_useless keeps successor %s without testing that it is itself a key meeting the threshold (only "
             "'not in the removed collection' is tested): a successor that is not a key at all - a vertex without arcs - "
             "is kept, so the result differs from connect_coding_graph" % show(arg)[:40],
             inputs='latter maps naming a successor that has no key, e.g. accessor_to_latter_map(connect_valid_graph(mask))')
    run.floor('R-KEEP', 'kept-successor appends in remove_useless', n, 1)
    # the rows of the returned map are new lists: remove_nasty_arc edits rows in place (documented), so a row object shared with the
    # argument would let an edit of the result reach the caller's original map
    lm = ('v', 'latter_map', 'P')

    def own_row(t):
        if t[0] == 'item' and t[2] == 1 and t[1][0] == 'iter' and any(x[0] == 'v' and x[1] == 'latter_map' for x in walk_term(t[1][1])):
            return True
        if t[0] == 'sub' and t[1][0] == 'v' and t[1][1] == 'latter_map':
            return True
        if t[0] == 'iter' and t[1][0] == 'call' and t[1][1][0] == 'attr' and t[1][1][2] == 'values' and \
                t[1][1][1][0] == 'v' and t[1][1][1][1] == 'latter_map':
            return True
        return False

    def fresh(t):
        return t[0] in ('list', 'comp') or is_call(t, 'builtins.list', 'builtins.sorted') or \
            (t[0] == 'call' and t[1][0] == 'attr' and t[1][2] == 'copy') or (t[0] == 'sub' and t[2][0] == 'slice')
    k = 0
    for nd in g.nodes:
        for d in nd.defs:
            if d.kind == 'mutate' and isinstance(d.extra, ast.Subscript) and isinstance(nd.stmt, ast.Assign) and d.name != 'latter_map' \
                    and nd.loops and d.value is not None:
                v = g.term(d.value, nd)
                alts = g.alternatives(v)
                # in-place growth (append / extend / +=) of a list keeps its identity: only the bindings decide
                terms = [t for d_, t in alts if d_.kind not in ('mutate', 'aug')] if alts else [v]
                if any(t is not None and own_row(t) for t in terms):
                    k += 1
                    run.refute('R-KEEP', g, 'rows-are-new-lists', nd.lineno,
                               'remove_useless stores the argument\'s own row object %s into the map it returns: the result shares its rows '
                               'with the input, so the documented in-place arc removal on the result also edits the caller\'s original map'
                               % show([t for t in terms if t is not None and own_row(t)][0])[:60],
                               inputs='trim, then remove_nasty_arc on the trimmed map, then use of the original map')
                elif all(t is not None and fresh(t) for t in terms) or \
                        all(t is not None and (fresh(t) or (t[0] == 'v' and any(
                            d2.kind == 'assign' and d2.value is not None and isinstance(d2.value, (ast.List, ast.ListComp))
                            for d2 in g.defs if d2.name == t[1]))) for t in terms):
                    k += 1
                    run.ok('R-KEEP', g, 'rows-are-new-lists', nd.lineno, 'every stored row is a list built in this call')
                else:
                    run.undecided('R-KEEP', g, 'rows-are-new-lists', nd.lineno, 'stored row %s not classified' % show(v)[:60])


def _empty_when(test, var, pol):
    """does `test` having truth value `pol` mean that the collection `var` is empty?  True / False / None (not classified)"""
    def ev(n):
        # truth of the test for a collection of n items; only len() and truthiness of var are interpreted
        def val(t):
            if t == var:
                return ('coll', n)
            if t[0] == 'c':
                return ('c', t[1])
            if is_call(t, 'builtins.len') and len(t[2]) == 1 and t[2][0] == var:
                return ('c', n)
            if t[0] == 'attr' and t[1] == var and t[2] == 'size':
                return ('c', n)
            return None
        def truth(t):
            if t == var:
                return n > 0
            if t[0] == 'un' and t[1] == 'not':
                r = truth(t[2])
                return None if r is None else (not r)
            if t[0] == 'cmp' and t[1] in ('<', '<=', '==', '!='):
                a, b = val(t[2]), val(t[3])
                if a is None or b is None:
                    return None
                if a[0] == 'coll' or b[0] == 'coll':
                    # frontier == []  /  frontier != []
                    other = b if a[0] == 'coll' else a
                    if other[0] == 'c':
                        return None
                    return None
                try:
                    return {'<': a[1] < b[1], '<=': a[1] <= b[1], '==': a[1] == b[1], '!=': a[1] != b[1]}[t[1]]
                except TypeError:
                    return None
            v_ = val(t)
            if v_ is not None and v_[0] == 'c':
                return bool(v_[1])
            return None
        return truth(test)
    r0, r1, r2 = ev(0), ev(1), ev(2)
    if None in (r0, r1, r2):
        return None
    if r0 == pol and r1 != pol and r2 != pol:
        return True
    return False


def r_verts(ctx):
    """obtain_vertices lists row indices (the vertices that have an arc), never entries (the vertices arcs point to)"""
    run = ctx.run
    run.rule('R-VERTS', "obtain_vertices returns positions of rows selected by a row predicate (where(P(rows))[0] and wrappers): "
                        "no accessor entry flows into the returned collection")
    f = ctx.p.func('dsw.graphized.obtain_vertices')
    K = ctx.kinds
    n = 0
    for nd in f.stmts(ast.Return):
        if nd.stmt.value is None:
            continue
        n += 1
        t = f.term(nd.stmt.value, nd)

        def strip(x):
            while True:
                if x[0] == 'call' and x[1][0] == 'attr' and x[1][2] in ('astype', 'tolist', 'copy', 'flatten', 'ravel'):
                    x = x[1][1]
                elif is_call(x, 'builtins.list', 'builtins.sorted', 'numpy.array', 'numpy.asarray', 'numpy.sort', 'numpy.unique',
                             'builtins.int') and x[2]:
                    x = x[2][0]
                else:
                    return x
        core = strip(t)
        positions = (core[0] == 'sub' and core[2] == ('c', 0) and is_call(core[1], 'numpy.where', 'numpy.nonzero')) or \
            is_call(core, 'numpy.flatnonzero') or \
            (core[0] == 'sub' and core[2] == ('c', 0) and core[1][0] == 'call' and core[1][1][0] == 'attr' and core[1][1][2] == 'nonzero')
        comp_pos = core[0] == 'comp' and core[2][0] in ('idx', 'item', 'iter') and not any(
            K.kind(x, f) in ('ENTRY',) for x in walk_term(core[2]))
        entries = []
        if is_call(core, 'numpy.union1d', 'numpy.concatenate', 'numpy.append', 'numpy.hstack', 'numpy.unique') or \
                (core[0] == 'bin' and core[1] in ('+', '|')):
            parts = list(core[2]) if core[0] == 'call' else [core[2], core[3]]
            flat = []
            for p_ in parts:
                flat.extend(p_[1:] if p_[0] in ('tuple', 'list') else [p_])
            for p_ in flat:
                s_ = strip(p_)
                if K.kind(s_, f) in ('ROW', 'COL', 'ENTRY', 'ACC') or \
                        (s_[0] == 'sub' and K.kind(s_[1], f) == 'ACC' and s_[2][0] == 'cmp'):
                    entries.append(show(s_)[:50])
        if not entries and not positions and not comp_pos:
            # the selected ENTRIES themselves: ACC[ACC >= 0], ACC[mask].ravel(), a set / sorted list of successors
            if (core[0] == 'sub' and K.kind(core[1], f) == 'ACC' and core[2][0] == 'cmp') or K.kind(core, f) in ('ENTRY', 'ROW'):
                entries.append(show(core)[:50])
            elif core[0] == 'comp' and any(K.kind(x, f) == 'ENTRY' for x in walk_term(core[2])):
                entries.append(show(core[2])[:50])
        if entries:
            run.refute('R-VERTS', f, 'return#%d:row-positions-only' % n, nd.lineno,
                       'obtain_vertices merges accessor entries (%s) into its result: a vertex that is only the target of an arc '
                       '(a sink) is listed although it has no arc' % entries[0],
                       inputs='graphs with a vertex that has incoming but no outgoing arcs')
        elif positions or comp_pos:
            run.ok('R-VERTS', f, 'return#%d:row-positions-only' % n, nd.lineno, 'positions of the rows selected by a row predicate')
        else:
            run.undecided('R-VERTS', f, 'return#%d:row-positions-only' % n, nd.lineno,
                          'the returned collection %s is not in a recognised form' % show(core)[:80])
    run.floor('R-VERTS', 'returns of obtain_vertices', n, 1)
