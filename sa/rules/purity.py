"""E5 effect / alias analysis and the rules built on it: R-PURE, R-STATE, R-VERB."""
import ast
import re

from ..core import AnalysisError, MUTATING_METHODS, TermBuilder, base_name, call_name, is_call, show, walk_term

PURE_FUNCS = {
    'builtins.' + n for n in (
        'len range enumerate zip list tuple set dict str int float bool sorted reversed min max sum abs all any map '
        'filter print isinstance type round divmod repr iter next id hash frozenset').split()
} | {
    'numpy.' + n for n in (
        'where nonzero flatnonzero argsort argmax argmin sum max min abs all any median unique intersect1d union1d log '
        'log2 array asarray zeros ones zeros_like ones_like full empty arange concatenate copy mean std prod cumsum '
        'sort transpose reshape ravel dot').split()
} | {'itertools.product', 'itertools.combinations', 'itertools.permutations', 'collections.Counter',
     'networkx.DiGraph', 'networkx.find_cycle', 'datetime.datetime.now'}
PURE_METHODS = set(
    'index count replace upper lower zfill join startswith endswith split strip lstrip rstrip rjust ljust center find rfind '
    'isdigit isalpha partition rpartition splitlines title capitalize encode format astype tolist copy reshape '
    'ravel view items keys values get T sum max min mean all any nonzero argsort argmax valid total_seconds '
    'flatten transpose'.split())
EXTERNAL_MUTATORS = {'numpy.random.shuffle': [0], 'numpy.copyto': [0], 'numpy.put': [0], 'numpy.place': [0],
                     'numpy.fill_diagonal': [0], 'random.shuffle': [0]}
FRESH_CALLS = PURE_FUNCS     # results of these never alias an argument in a way that matters, except the view makers:
VIEW_FUNCS = {'numpy.transpose', 'numpy.reshape', 'numpy.ravel', 'numpy.asarray'}
VIEW_METHODS = {'reshape', 'ravel', 'view', 'transpose', 'T', 'values', 'items', 'keys', 'get'}
MUTABLE_TYPE_WORDS = ('ndarray', 'list', 'dict', 'set', 'array')
MUTABLE_PARAM_NAMES = {'accessor', 'binary_message', 'shuffles', 'vertices', 'matrix', 'latter_map', 'bit_array',
                       'scores', 'undesired_motifs', 'gc_range', 'extra'}
IMMUTABLE_PARAM_NAMES = {'dna_sequence', 'dna_string', 'vt_check', 'number', 'base', 'decimal_number', 'observed_length',
                         'start_index', 'bit_length', 'vt_length', 'verbose', 'is_faster', 'need_path', 'threshold',
                         'has_indel', 'heap_size', 'random_seed', 'depth', 'vertex_index', 'current', 'iteration',
                         'has_insertion', 'has_deletion', 'is_string', 'dna_length', 'maximum_length', 'tolerance_level',
                         'repeats', 'maximum_iteration', 'process', 'previous_index', 'occur_location', 'nucleotides',
                         'current_state', 'total_state', 'screen_name', 'max_homopolymer_runs', 'only_last', 'self',
                         'bio_filter'}


def param_mutable(f, p):
    doc = ast.get_docstring(f.node) or ''
    m = re.search(r':type %s:\s*(.+)' % re.escape(p), doc)
    if m:
        return any(w in m.group(1) for w in MUTABLE_TYPE_WORDS)
    if p in MUTABLE_PARAM_NAMES:
        return True
    if p in IMMUTABLE_PARAM_NAMES:
        return False
    return True


SHALLOW = 'shallow:'
SHALLOW_COPY_FUNCS = {'builtins.dict', 'builtins.list', 'builtins.tuple', 'builtins.sorted', 'copy.copy', 'builtins.reversed'}


def _shallow(names):
    """the result is a new container whose elements are still the argument's elements"""
    return {n if n.startswith(SHALLOW) else SHALLOW + n for n in names}


def _elements(names):
    """taking an element of (or iterating) a shallow copy reaches the argument's own objects again"""
    return {n[len(SHALLOW):] if n.startswith(SHALLOW) else n for n in names}


def _direct(names):
    """aliases through which a write changes the argument itself (a write into a shallow copy does not)"""
    return {n for n in names if not n.startswith(SHALLOW)}


class Effects:
    """per function: which parameters may be written (transitively through dsw callees)"""

    def __init__(self, ctx):
        self.ctx = ctx
        self.writes = {}       # fq -> list of (param, node, text)
        self.ret_alias = {}    # fq -> set of params the return value may alias
        self.unknown = []      # (f, node, text) unknown callee effects
        self._alias_memo = {}
        order = self._topo()
        for fq in order:
            self._analyse(ctx.p.funcs[fq])

    def _topo(self):
        calls = self.ctx.calls()
        seen, out = set(), []

        def visit(q, stack):
            if q in seen:
                return
            seen.add(q)
            for nd, c, callee, qq in calls.get(q, []):
                if callee is not None and callee.fq not in stack:
                    visit(callee.fq, stack | {q})
            out.append(q)
        for q in sorted(self.ctx.p.funcs):
            visit(q, frozenset())
        return out

    # ------------------------------------------------------------ aliases
    def alias_of_name(self, f, name, node_id, depth=0):
        """set of parameter names that `name` may alias at node (IN state)"""
        key = (f.fq, name, f.reaching(node_id, name))
        if key in self._alias_memo:
            return self._alias_memo[key]
        self._alias_memo[key] = set()
        res = set()
        if depth < 25:
            for di in f.reaching(node_id, name):
                d = f.defs[di]
                if d.kind == 'param':
                    res.add(d.name)
                elif d.kind == 'assign' and d.value is not None:
                    if d.path:
                        res |= self.alias_of_unpacked(f, d.value, d.path, d.node, depth + 1)
                    else:
                        res |= self.alias_of_expr(f, d.value, d.node, depth + 1)
                elif d.kind == 'for':
                    res |= self.alias_of_iter(f, d.value, d.node, depth + 1)
                elif d.kind == 'aug' and not isinstance(f.nodes[d.node].stmt, ast.AugAssign):
                    pass        # `x = x op e` (normalised to an augmented definition) binds a new object
                elif d.kind in ('mutate', 'aug'):
                    # the object is the same as before the statement
                    res |= self.alias_of_name(f, name, d.node, depth + 1)
                elif d.kind == 'with':
                    res |= self.alias_of_expr(f, d.value, d.node, depth + 1)
        self._alias_memo[key] = res
        return res

    def alias_of_unpacked(self, f, value, path, node_id, depth):
        if isinstance(value, (ast.Tuple, ast.List)) and isinstance(path[0], int) and path[0] < len(value.elts):
            e = value.elts[path[0]]
            return self.alias_of_unpacked(f, e, path[1:], node_id, depth) if path[1:] else self.alias_of_expr(f, e, node_id, depth)
        if isinstance(value, ast.Call):
            q, callee = self.ctx.resolve_call(f, value)
            if callee is not None:
                out = set()
                ra = self.ret_alias.get(callee.fq, set())
                for p in ra:
                    sh = p.startswith(SHALLOW)
                    a = self._arg_for(callee, value, p[len(SHALLOW):] if sh else p)
                    if a is not None:
                        got = self.alias_of_expr(f, a, node_id, depth)
                        out |= _shallow(got) if sh else got
                return out
            if q in PURE_FUNCS and q not in ('builtins.zip', 'builtins.enumerate') and q not in SHALLOW_COPY_FUNCS:
                return set()
        return self.alias_of_expr(f, value, node_id, depth)

    def alias_of_iter(self, f, it, node_id, depth):
        """elements yielded by iterating expression `it`"""
        return _elements(self._alias_of_iter(f, it, node_id, depth))

    def _alias_of_iter(self, f, it, node_id, depth):
        if isinstance(it, ast.Call):
            q, callee = self.ctx.resolve_call(f, it)
            if q in ('builtins.enumerate', 'builtins.zip', 'builtins.reversed', 'builtins.iter', 'builtins.list',
                     'builtins.tuple', 'builtins.sorted', 'builtins.filter'):
                out = set()
                for a in it.args:
                    out |= self.alias_of_iter(f, a, node_id, depth)
                return out
            if q in ('builtins.range', 'itertools.product', 'itertools.combinations', 'builtins.map'):
                if q == 'itertools.product':
                    out = set()
                    for a in it.args:
                        out |= self.alias_of_expr(f, a.value if isinstance(a, ast.Starred) else a, node_id, depth)
                    return out
                return set()
        return self.alias_of_expr(f, it, node_id, depth)

    def alias_of_expr(self, f, e, node_id, depth=0):
        if depth > 25:
            return set()
        if isinstance(e, ast.Name):
            if e.id in f.locals:
                return self.alias_of_name(f, e.id, node_id, depth)
            return set()
        if isinstance(e, ast.Subscript):
            base = self.alias_of_expr(f, e.value, node_id, depth + 1)
            if not base:
                return set()
            s = e.slice
            if not isinstance(s, ast.Slice):
                base = _elements(base)
            # fancy / boolean indexing of an array copies; everything else may share storage
            if isinstance(s, ast.Compare):
                return set()
            if isinstance(s, ast.Call):
                q, _ = self.ctx.resolve_call(f, s)
                if q in ('numpy.where', 'numpy.nonzero', 'numpy.argsort', 'numpy.flatnonzero'):
                    return set()
            if isinstance(s, ast.Name) and s.id in f.locals:
                # an index that is itself an array produced by where()/argsort() selects a copy
                t = f.var(s.id, node_id)
                if any(is_call(x, 'numpy.where', 'numpy.nonzero', 'numpy.argsort', 'numpy.flatnonzero')
                       for x in [t] + ([t[1]] if t[0] == 'sub' else [])) and t[0] != 'iter':
                    return set()
            if isinstance(s, ast.Tuple) and any(isinstance(x, ast.Name) and x.id in f.locals and
                                                self._is_index_array(f, x.id, node_id) for x in s.elts):
                return set()
            return base
        if isinstance(e, ast.Attribute):
            if e.attr in ('T', 'real', 'flat'):
                return self.alias_of_expr(f, e.value, node_id, depth + 1)
            return self.alias_of_expr(f, e.value, node_id, depth + 1) if e.attr.startswith('_') else \
                self.alias_of_expr(f, e.value, node_id, depth + 1)
        if isinstance(e, ast.Call):
            q, callee = self.ctx.resolve_call(f, e)
            if callee is not None:
                out = set()
                for p in self.ret_alias.get(callee.fq, set()):
                    sh = p.startswith(SHALLOW)
                    a = self._arg_for(callee, e, p[len(SHALLOW):] if sh else p)
                    if a is not None:
                        got = self.alias_of_expr(f, a, node_id, depth + 1)
                        out |= _shallow(got) if sh else got
                return out
            if isinstance(e.func, ast.Attribute):
                if e.func.attr in VIEW_METHODS:
                    got = self.alias_of_expr(f, e.func.value, node_id, depth + 1)
                    return _elements(got) if e.func.attr == 'get' else got
                if e.func.attr == 'copy' and not e.args:
                    # dict.copy() / list.copy() share their elements with the original; ndarray.copy() does not
                    got = self.alias_of_expr(f, e.func.value, node_id, depth + 1)
                    return _shallow({p for p in got if self._container_of_objects(f, p)})
                if e.func.attr in ('pop', 'popitem', 'setdefault') :
                    return _elements(self.alias_of_expr(f, e.func.value, node_id, depth + 1))
                return set()
            if q in VIEW_FUNCS and e.args:
                return self.alias_of_expr(f, e.args[0], node_id, depth + 1)
            if q in SHALLOW_COPY_FUNCS and len(e.args) == 1:
                got = self.alias_of_expr(f, e.args[0], node_id, depth + 1)
                return _shallow({p for p in got if self._container_of_objects(f, p)})
            return set()
        if isinstance(e, ast.IfExp):
            return self.alias_of_expr(f, e.body, node_id, depth + 1) | self.alias_of_expr(f, e.orelse, node_id, depth + 1)
        if isinstance(e, (ast.Tuple, ast.List)):
            out = set()
            for x in e.elts:
                out |= self.alias_of_expr(f, x.value if isinstance(x, ast.Starred) else x, node_id, depth + 1)
            return out
        if isinstance(e, ast.NamedExpr):
            return self.alias_of_expr(f, e.value, node_id, depth + 1)
        if isinstance(e, ast.BoolOp):
            out = set()
            for x in e.values:
                out |= self.alias_of_expr(f, x, node_id, depth + 1)
            return out
        return set()       # constants, arithmetic, comparisons, comprehensions, f-strings: fresh

    @staticmethod
    def _container_of_objects(f, p):
        """can the elements of parameter p be mutable objects (dict of lists, list of lists / arrays, 2-d array rows)?"""
        p = p[len(SHALLOW):] if p.startswith(SHALLOW) else p
        if p not in f.params:
            return True
        doc = ast.get_docstring(f.node) or ''
        m = re.search(r':type %s:\s*(.+)' % re.escape(p), doc)
        if m:
            return any(w in m.group(1) for w in ('dict', 'list', 'ndarray', 'array', 'set', 'tuple'))
        return param_mutable(f, p)

    def _is_index_array(self, f, name, node_id):
        t = f.var(name, node_id)
        return t[0] != 'iter' and any(is_call(x, 'numpy.where', 'numpy.nonzero', 'numpy.argsort', 'numpy.flatnonzero')
                                      for x in [t] + ([t[1]] if t[0] == 'sub' else []))

    @staticmethod
    def _arg_for(callee, call, pname):
        if pname in callee.positional:
            i = callee.positional.index(pname)
            if callee.cls is not None and callee.positional and callee.positional[0] == 'self':
                i -= 1
            if 0 <= i < len(call.args) and not any(isinstance(a, ast.Starred) for a in call.args[:i + 1]):
                return call.args[i]
        for k in call.keywords:
            if k.arg == pname:
                return k.value
        return None

    # ------------------------------------------------------------ effects
    def _analyse(self, f):
        writes = []
        ctx = self.ctx

        def add(names, nd, text):
            for p in sorted(_direct(names)):
                writes.append((p, nd, text))
        for nd in f.nodes:
            st = nd.stmt
            for d in nd.defs:
                if d.kind == 'mutate':
                    tgt = d.extra
                    if isinstance(tgt, ast.Subscript):
                        add(self.alias_of_expr(f, tgt.value, nd.id), nd, 'store through %s' % ast.unparse(tgt))
                    elif isinstance(tgt, ast.Attribute) and isinstance(st, (ast.Assign, ast.AugAssign, ast.AnnAssign)) \
                            and isinstance(tgt.ctx, ast.Store):
                        add(self.alias_of_expr(f, tgt.value, nd.id), nd, 'attribute store %s' % ast.unparse(tgt))
                    elif isinstance(tgt, ast.Attribute):      # method / shuffle(...)
                        if tgt.attr in MUTATING_METHODS:
                            add(self.alias_of_expr(f, tgt.value, nd.id), nd, 'mutating method .%s()' % tgt.attr)
                elif d.kind == 'aug' and isinstance(st, ast.AugAssign):
                    al = {p for p in _direct(self.alias_of_name(f, d.name, nd.id)) if param_mutable(f, p)}
                    add(al, nd, 'augmented assignment %s (in place on arrays and lists)' % ast.unparse(st)[:40])
            if isinstance(st, ast.Delete):
                for t in st.targets:
                    if isinstance(t, (ast.Subscript, ast.Attribute)):
                        add(self.alias_of_expr(f, t.value, nd.id), nd, 'del %s' % ast.unparse(t))
            # calls
            for r in ctx.roots(nd):
                for c in ast.walk(r):
                    if not isinstance(c, ast.Call):
                        continue
                    q, callee = ctx.resolve_call(f, c)
                    if callee is not None:
                        for p, n2, text in self.writes.get(callee.fq, []):
                            a = self._arg_for(callee, c, p)
                            if a is not None:
                                add(self.alias_of_expr(f, a, nd.id), nd,
                                    'passed to %s, which writes its %s (%s at %s)' % (callee.name, p, text, callee.where(n2.lineno)))
                        continue
                    if q in EXTERNAL_MUTATORS:
                        for i in EXTERNAL_MUTATORS[q]:
                            if i < len(c.args):
                                add(self.alias_of_expr(f, c.args[i], nd.id), nd, '%s(...) mutates its argument' % q)
                        continue
                    for k in c.keywords:
                        if k.arg == 'out':
                            add(self.alias_of_expr(f, k.value, nd.id), nd, 'out= argument of %s' % q)
                    # a parameter alias handed to an unknown external callee
                    if q is None or q in PURE_FUNCS or q.startswith('numpy.') and q.split('.')[-1] in {x.split('.')[-1] for x in PURE_FUNCS}:
                        continue
                    if isinstance(c.func, ast.Attribute):
                        m = c.func.attr
                        if m in PURE_METHODS or m in MUTATING_METHODS or m in ('shuffle', 'seed', 'random', 'add_edge'):
                            continue
                        recv = _direct(self.alias_of_expr(f, c.func.value, nd.id))
                        if recv:
                            self.unknown.append((f, nd, 'method .%s() on an alias of parameter %s' % (m, sorted(recv))))
                        continue
                    for a in list(c.args) + [k.value for k in c.keywords]:
                        al = self.alias_of_expr(f, a.value if isinstance(a, ast.Starred) else a, nd.id)
                        al = {p for p in _elements(al) if param_mutable(f, p)}
                        if al and q and not q.startswith('?.') and ctx.p.resolve_func(q) is None and \
                                not (q + '.__init__' in ctx.p.funcs or q + '.__call__' in ctx.p.funcs):
                            self.unknown.append((f, nd, 'parameter alias %s passed to external %s' % (sorted(al), q)))
        self.writes[f.fq] = writes
        ra = set()
        for nd in f.stmts(ast.Return):
            if nd.stmt.value is not None:
                ra |= self.alias_of_expr(f, nd.stmt.value, nd.id)
        self.ret_alias[f.fq] = ra


INPLACE_DOCUMENTED = {('dsw.spiderweb.remove_nasty_arc', 'accessor'), ('dsw.spiderweb.remove_nasty_arc', 'latter_map')}

CONTROL_SRC = '''
def control(items, table):
    alias = items
    row = table[0]
    alias.append(1)
    row[0] = 5
    fresh = list(items)
    fresh.append(2)
    items = [int(i) for i in items]
    items.append(3)
    return fresh


def control2(table):
    mine = dict(table)
    del mine[0]
    for key, row in mine.items():
        row.remove(key)
    return mine
'''


def positive_control():
    """R-PURE must flag exactly the two writes through parameters in CONTROL_SRC"""
    from ..core import Project
    from ..report import Run
    from ..ctx import Ctx
    import tempfile
    # analysed from memory through the overlay mechanism
    p = Project.__new__(Project)
    from ..core import Module
    p.root, p.package = '<control>', 'ctl'
    m = Module('ctl.m', 'ctl/m.py', CONTROL_SRC)
    m.project = p
    m._scan()
    p.modules = {'ctl.m': m}
    p.funcs = {'ctl.m.control': m.funcs['control'], 'ctl.m.control2': m.funcs['control2']}
    p.exports = {}
    run = Run('control')
    ctx = Ctx(p, run)
    eff = Effects(ctx)
    ws = eff.writes['ctl.m.control']
    got = sorted((pn, nd.lineno) for pn, nd, t in ws)
    got2 = sorted((pn, nd.lineno) for pn, nd, t in eff.writes['ctl.m.control2'])
    # control2: deleting from the shallow copy is no write, removing from a shared row is
    return got == [('items', 5), ('table', 6)] and got2 == [('table', 18)], got + got2


def r_pure(ctx, fqs=None, only_params=None, floor=0):
    run = ctx.run
    run.rule('R-PURE', "flow-sensitive may-alias + write-effect analysis (subscript / attribute stores and deletes, "
                       "in-place augmented assignment, mutating methods, mutating library calls, dsw callees through "
                       "their summaries): no write effect reaches any parameter of any public function; the documented "
                       "exception is remove_nasty_arc(accessor, latter_map)")
    run.trusted.add('effect tables: pure functions/methods, mutating methods, view-vs-copy indexing (sa/rules/purity.py)')
    ok, got = positive_control()
    if not ok:
        raise AnalysisError("R-PURE positive control not flagged as expected: %s" % got)
    eff = Effects(ctx)
    n = 0
    for fq in sorted(fqs or ctx.reachable()):
        f = ctx.p.func(fq)
        ws = eff.writes.get(fq, [])
        for p in f.params:
            if only_params and p not in only_params:
                continue
            if p == 'self':
                continue
            n += 1
            mine = [(nd, t) for pn, nd, t in ws if pn == p]
            role = 'parameter:%s' % p
            if not mine:
                run.ok('R-PURE', f, role, f.node.lineno, 'no write effect reaches `%s`' % p, nontrivial=param_mutable(f, p))
            elif (fq, p) in INPLACE_DOCUMENTED:
                run.ok('R-PURE', f, role, mine[0][0].lineno, 'documented in-place update (%d write sites)' % len(mine))
            else:
                nd, t = mine[0]
                run.refute('R-PURE', f, role, nd.lineno,
                           "%s writes its argument `%s`: %s (line %d)%s" % (f.name, p, t, nd.lineno,
                                                                           '; %d further sites' % (len(mine) - 1) if len(mine) > 1 else ''),
                           inputs='every call sharing that argument with a later call')
        if f.cls is not None and f.name != '__init__' and f.module.name.endswith('biofilter'):
            stores = [(nd, t) for pn, nd, t in ws if pn == 'self']
            run.check(not stores, 'R-PURE', f, 'self-unchanged', f.node.lineno, 'the filter does not store to self outside __init__',
                      'filter method %s stores to self (%s): the verdict depends on the call history'
                      % (f.qual, stores[0][1] if stores else ''), inputs='two calls on one filter object')
    for f, nd, text in eff.unknown:
        if fqs is None or f.fq in fqs:
            run.undecided('R-PURE', f, 'unknown-callee-effect', nd.lineno, text)
    run.floor('R-PURE', 'parameters analysed', n, floor)
    return eff


# ----------------------------------------------------------------------------------------------
def r_state(ctx):
    run = ctx.run
    run.rule('R-STATE', "no global/nonlocal, no store into a module-level object, no function-attribute store, immutable "
                        "defaults; the numpy global generator is touched only by create_random_shuffles and "
                        "approximate_capacity; clock reads only inside Monitor; the iteration order of a set reaches a "
                        "return value only through sorted / len / another set")
    allowed_rng = {'dsw.spiderweb.create_random_shuffles', 'dsw.graphized.approximate_capacity'}
    for fq in sorted(ctx.reachable()):
        f = ctx.p.func(fq)
        bad = state_violations(ctx, f)
        run.check(not bad, 'R-STATE', f, 'no-module-state', bad[0][0] if bad else f.node.lineno,
                  'no global state, immutable defaults',
                  '%s keeps state across calls: %s' % (f.name, '; '.join(b[1] for b in bad)),
                  inputs='any two calls in one process', nontrivial=False)
        # RNG / clock
        rng, clock = [], []
        for nd, c, callee, q in ctx.calls()[fq]:
            if q and (q.startswith('numpy.random') or q.startswith('random.')):
                rng.append((nd, q))
            if q and (q.startswith('datetime.') or q.startswith('time.') or q in ('builtins.open', 'builtins.input')
                      or q.startswith('os.')):
                clock.append((nd, q))
        if rng:
            run.check(fq in allowed_rng, 'R-STATE', f, 'rng-confined', rng[0][0].lineno,
                      'one of the two randomised calls (%d generator calls)' % len(rng),
                      '%s draws from / reseeds the global numpy generator (%s): results depend on the call history'
                      % (f.name, rng[0][1]), inputs='any history of calls')
        if rng and fq == 'dsw.graphized.approximate_capacity':
            # the documented deterministic mode (repeats = 1, the default) never touches the generator: every draw sits under a
            # test that fails for repeats = 1
            from ..finite import feval, UNKNOWN
            for nd_, q_ in rng:
                excluded = False
                for atom, pol in ctx.conds(f, nd_):
                    v_ = feval(atom, lambda x: 1 if x == ('v', 'repeats', 'P') else UNKNOWN)
                    if v_ is not UNKNOWN and bool(v_) != pol:
                        excluded = True
                # a draw written inside a conditional expression is excluded by that expression's test
                for t_ in [t for n2, r_, t in ctx.root_terms(f) if n2.id == nd_.id and t is not None]:
                    for x in walk_term(t_):
                        if x[0] == 'ifexp':
                            v_ = feval(x[1], lambda y: 1 if y == ('v', 'repeats', 'P') else UNKNOWN)
                            arm = x[3] if v_ is False else (x[2] if v_ is True else None)
                            other = x[2] if v_ is False else (x[3] if v_ is True else None)
                            if other is not None and any(call_name(y) and 'random' in call_name(y) for y in walk_term(other)) and \
                                    not any(call_name(y) and 'random' in call_name(y) for y in walk_term(arm)):
                                excluded = True
                run.check(excluded, 'R-STATE', f, 'rng-only-when-repeated', nd_.lineno,
                          'the generator is drawn from only when repeats > 1',
                          'approximate_capacity draws from the global numpy generator (%s) on a path that repeats = 1 reaches: the '
                          'default, documented-deterministic call now advances the generator, so later seeded results depend on whether '
                          'it was called' % q_, inputs='random.seed(s); approximate_capacity(accessor); then any seeded draw')
        if clock:
            run.check(f.cls is not None and f.cls.name == 'Monitor', 'R-STATE', f, 'clock-confined', clock[0][0].lineno,
                      'clock read only inside the progress monitor',
                      '%s reads %s: the result can depend on the environment' % (f.name, clock[0][1]),
                      inputs='any call')
        check_set_order(ctx, f)
    # module-level mutable objects
    for m in ctx.p.modules.values():
        for name, v in m.globals.items():
            ok = _immutable_default(v, m.globals)
            if not ok:
                # a mutable module-level object carries state only through a function that touches it
                users, writers = [], []
                for m2 in ctx.p.modules.values():
                    visible = m2 is m or any(q == m.name + '.' + name for q in m2.imports.values()) or \
                        any(q == m.name for q in m2.imports.values())
                    if not visible:
                        continue
                    for fn in ast.walk(m2.tree):
                        if not isinstance(fn, (ast.FunctionDef, ast.Lambda)):
                            continue
                        for n_ in ast.walk(fn):
                            if isinstance(n_, ast.Name) and n_.id == name:
                                users.append((m2.name, n_.lineno))
                            elif isinstance(n_, ast.Attribute) and n_.attr == name and m2 is not m:
                                users.append((m2.name, n_.lineno))
                            if isinstance(n_, ast.Global) and name in n_.names:
                                writers.append((m2.name, n_.lineno))
                            if isinstance(n_, ast.Call) and isinstance(n_.func, ast.Attribute) and n_.func.attr in MUTATING_METHODS \
                                    and isinstance(n_.func.value, ast.Name) and n_.func.value.id == name:
                                writers.append((m2.name, n_.lineno))
                            if isinstance(n_, (ast.Subscript, ast.Attribute)) and isinstance(n_.ctx, (ast.Store, ast.Del)) and \
                                    isinstance(n_.value, ast.Name) and n_.value.id == name:
                                writers.append((m2.name, n_.lineno))
                if not users and not writers:
                    run.ok('R-STATE', m.name + '.<module>', 'module-global:%s' % name, getattr(v, 'lineno', 0),
                           'mutable module-level value that no function of the package touches', nontrivial=False)
                    continue
                if not writers:
                    run.undecided('R-STATE', m.name + '.<module>', 'module-global:%s' % name, getattr(v, 'lineno', 0),
                                  'mutable module-level object %s is read by functions (%s line %d); whether it escapes to a '
                                  'caller is not tracked' % (name, users[0][0], users[0][1]))
                    continue
            run.check(ok, 'R-STATE', m.name + '.<module>', 'module-global:%s' % name, getattr(v, 'lineno', 0),
                      'immutable module-level value', 'module-level mutable object %s = %s can carry state between calls'
                      % (name, ast.unparse(v)[:60]), inputs='any two calls in one process', nontrivial=False)


CACHE_DECORATORS = {'lru_cache', 'cache', 'cached_property', 'memoize', 'memoized'}


def state_violations(ctx, f):
    """constructs that let a call's result depend on earlier calls: [(line, text)]"""
    bad = []
    for n in ast.walk(f.node):
        if isinstance(n, (ast.Global, ast.Nonlocal)):
            bad.append((n.lineno, 'global/nonlocal %s' % n.names))
    for dec in f.node.decorator_list:
        d = dec.func if isinstance(dec, ast.Call) else dec
        name = d.id if isinstance(d, ast.Name) else (d.attr if isinstance(d, ast.Attribute) else '')
        if name in CACHE_DECORATORS:
            bad.append((dec.lineno, 'memoising decorator @%s: results (and any mutable object returned) are shared between '
                                    'calls' % name))
    for nd in f.nodes:
        st = nd.stmt
        tgts = []
        if isinstance(st, ast.Assign):
            tgts = st.targets
        elif isinstance(st, (ast.AugAssign, ast.AnnAssign)):
            tgts = [st.target]
        elif isinstance(st, ast.Delete):
            tgts = st.targets
        for t in tgts:
            for s_ in ast.walk(t):
                if isinstance(s_, (ast.Subscript, ast.Attribute)) and isinstance(s_.ctx, (ast.Store, ast.Del)):
                    b = base_name(s_)
                    if b is not None and b not in f.locals:
                        bad.append((nd.lineno, 'store into module-level object %s' % ast.unparse(s_)))
        for r in ctx.roots(nd):
            for c in ast.walk(r):
                if isinstance(c, ast.Call) and isinstance(c.func, ast.Attribute) and c.func.attr in MUTATING_METHODS:
                    b = base_name(c.func.value)
                    if b is not None and b not in f.locals and b in f.module.globals:
                        bad.append((nd.lineno, 'mutating call on module-level object %s' % ast.unparse(c.func)))
                if isinstance(c, ast.Name) and isinstance(c.ctx, ast.Load) and c.id not in f.locals \
                        and c.id in f.module.globals and not _immutable_default(f.module.globals[c.id], f.module.globals):
                    bad.append((nd.lineno, 'reads the module-level mutable object %s' % c.id))
                if isinstance(c, ast.Attribute) and isinstance(c.ctx, ast.Store) and isinstance(c.value, ast.Name) \
                        and c.value.id in f.module.funcs:
                    bad.append((nd.lineno, 'function attribute store %s' % ast.unparse(c)))
    for p, d in f.defaults.items():
        if not _immutable_default(d, f.module.globals):
            bad.append((f.node.lineno, 'mutable default %s=%s' % (p, ast.unparse(d))))
    # de-duplicate
    seen, out = set(), []
    for b in bad:
        if b not in seen:
            seen.add(b)
            out.append(b)
    return out


def r_state_closure(ctx, *entries):
    """history independence of everything the given entry points call"""
    run = ctx.run
    run.rule('R-STATE', "no function in the closure of the property's entry points keeps state between calls: no "
                        "global/nonlocal, no store into / mutation of / read of a mutable module-level object, no "
                        "memoising decorator, no mutable default, no function attribute; the global numpy generator is "
                        "touched only by the two randomised calls")
    allowed_rng = {'dsw.spiderweb.create_random_shuffles', 'dsw.graphized.approximate_capacity'}
    clo = ctx.closure(*entries)
    for fq in sorted(clo):
        f = ctx.p.func(fq)
        bad = state_violations(ctx, f)
        run.check(not bad, 'R-STATE', f, 'no-module-state', bad[0][0] if bad else f.node.lineno,
                  'no state survives a call',
                  '%s keeps state across calls, so its result depends on the call history, not only on its arguments: %s'
                  % (f.name, '; '.join('line %d: %s' % b for b in bad[:3])),
                  inputs='a sequence of calls sharing (or re-using the identity of) an argument', nontrivial=False)
        rng = [(nd, q) for nd, c, callee, q in ctx.calls()[fq] if q and (q.startswith('numpy.random') or q.startswith('random.'))]
        if rng and fq not in allowed_rng:
            run.refute('R-STATE', f, 'rng-confined', rng[0][0].lineno,
                       '%s draws from / reseeds the global numpy generator (%s)' % (f.name, rng[0][1]),
                       inputs='any history of calls')
    r_namesake(ctx, clo)
    r_view(ctx, clo)
    # a crash on a path that never binds a local breaks whatever the property promises about these entry points
    from .exc import r_unbound
    r_unbound(ctx, entries)
    r_none(ctx, clo)
    r_zero(ctx, clo)
    r_dtype(ctx, clo)
    r_negslice(ctx, clo)
    r_fancy(ctx, clo)
    return clo


def r_fancy(ctx, fqs):
    """`a[idx] += v` with an index ARRAY applies a repeated position once (the last value wins): it does not accumulate"""
    run = ctx.run
    run.rule('R-FANCY', "an augmented assignment through an index array whose positions repeat by construction (the inverse indices of "
                        "numpy.unique, the members of all pairs of a combination) is not an accumulation: numpy evaluates a[idx] + v "
                        "once and stores it back, so every repeated position receives a single contribution (numpy.add.at / bincount "
                        "accumulate)")
    from ..ctx import _as_load
    n = 0
    for fq in sorted(fqs):
        f = ctx.p.func(fq)
        if f is None:
            continue
        for nd in f.nodes:
            if not isinstance(nd.stmt, ast.AugAssign) or not isinstance(nd.stmt.target, ast.Subscript):
                continue
            t = f.term(_as_load(nd.stmt.target), nd)
            if t[0] != 'sub':
                continue
            idx = t[2]
            why = None

            def outside_iteration(t_):
                """sub-terms of t_ that are not inside the element of an iteration (a loop element is one position, not an array)"""
                yield t_
                if t_[0] in ('iter', 'idx', 'c', 'v', 'g', 'b'):
                    return
                from ..core import children
                for c_ in children(t_):
                    yield from outside_iteration(c_)
            for x in outside_iteration(idx):
                if x[0] in ('item', 'sub') and (x[2] == 1 or x[2] == ('c', 1)) and is_call(x[1], 'numpy.unique') and \
                        dict(x[1][3]).get('return_inverse') == ('c', True):
                    why = 'the inverse indices of numpy.unique (one entry per original element, equal for equal elements)'
                elif is_call(x, 'itertools.combinations', 'itertools.permutations', 'itertools.combinations_with_replacement'):
                    why = 'the members of all pairs (every member occurs in several pairs)'
            if why:
                n += 1
                run.refute('R-FANCY', f, 'repeated-positions-accumulate', nd.lineno,
                           '`%s` adds through positions that repeat: %s; numpy applies each repeated position once, so contributions '
                           'that should add up are lost' % (ast.unparse(nd.stmt)[:70], why),
                           inputs='inputs in which two contributions fall on the same position (two walks reaching one vertex)')
    run.notes.append('R-FANCY: %d augmented assignments through repeating index arrays' % n)


_PARAM_MIN = {'observed_length': 1, 'vt_length': 1, 'dna_length': 0, 'bit_length': 0, 'max_homopolymer_runs': 1}


def r_negslice(ctx, fqs):
    """s[-0:] is the whole sequence and s[:-0] the empty one"""
    run = ctx.run
    run.rule('R-NEGZERO', "a slice bound written as -(E), E affine in a length parameter, is never 0 for an admissible value of that "
                          "parameter (observed_length >= 1, vt_length >= 1, dna_length >= 0): -0 is 0, so s[-0:] is ALL of s and "
                          "s[:-0] is empty - the opposite of the 'last 0' / 'all but the last 0' items that were meant")
    from .repair import affine
    n = 0
    for fq in sorted(fqs):
        f = ctx.p.func(fq)
        if f is None:
            continue
        seen = set()
        for nd, s in ctx.all_subterms(f):
            if s[0] != 'slice':
                continue
            for which, b in (('lower', s[1]), ('upper', s[2])):
                if not (b[0] == 'un' and b[1] == '-') and not (b[0] == 'bin' and b[1] == '-' and b[2] == ('c', 0)):
                    continue
                e = b[2] if b[0] == 'un' else b[3]
                # -len(L) for a local list L that starts empty and is only filled by a loop: nothing makes the loop run
                e_in = e[2][0] if is_call(e, 'builtins.len') and len(e[2]) == 1 else None
                if e_in is not None and e_in[0] == 'sub' and e_in[2][0] == 'slice' and e_in[1][0] == 'v':
                    e_in = e_in[1]          # len(L[:n]) is 0 as well when L is empty
                if e_in is not None and e_in[0] == 'v' and isinstance(e_in[2], tuple):
                    L = e_in
                    starts_empty = any(f.defs[i].kind == 'assign' and TermBuilder(f, f.defs[i].node).def_term(i) in (('list',), ('c', ''))
                                       for i in L[2])
                    grows_in_loop = [d for d in f.defs if d.name == L[1] and d.kind == 'mutate' and f.nodes[d.node].loops]
                    grows_outside = [d for d in f.defs if d.name == L[1] and d.kind in ('mutate', 'aug') and not f.nodes[d.node].loops]
                    if starts_empty and grows_in_loop and not grows_outside:
                        from ..finite import feval as _fe, UNKNOWN as _U
                        excl = False
                        for a_, pol_ in ctx.conds(f, nd):
                            v_ = _fe(a_, lambda x: 0 if x == e else ([] if x == L else _U))
                            if v_ is not _U and bool(v_) != pol_:
                                excl = True
                        if not excl and (nd.id, which, b) not in seen:
                            seen.add((nd.id, which, b))
                            n += 1
                            run.refute('R-NEGZERO', f, 'slice-bound-minus-zero', nd.lineno,
                                       'the %s slice bound %s is -0 = 0 when the list `%s` is still empty (it starts as [] and is only filled '
                                       'inside a loop that need not run): the slice is then %s, not %s'
                                       % (which, show(b)[:40], L[1], 'the whole sequence' if which == 'lower' else 'empty',
                                          'the empty suffix' if which == 'lower' else 'the whole sequence'),
                                       inputs='the input for which the filling loop does not run (e.g. the number 0)')
                    continue
                a = affine(e)
                if not a:
                    continue
                syms = [x for x in a if x != 1]
                if len(syms) != 1 or syms[0][0] != 'v' or syms[0][2] != 'P' or syms[0][1] not in _PARAM_MIN or a[syms[0]] <= 0:
                    continue
                p = syms[0][1]
                # E = c*p + d is zero at p0 = -d/c
                c, d = a[syms[0]], a.get(1, 0)
                if (-d) % c != 0:
                    continue
                p0 = (-d) // c
                # a path condition that excludes E = 0 (if E != 0 / if E: / if p > p0) makes the slice safe
                excluded = False
                for a_, pol_ in ctx.conds(f, nd):
                    if not any(x == syms[0] for x in walk_term(a_)):
                        continue
                    from ..finite import feval as _fe, UNKNOWN as _U
                    v_ = _fe(a_, lambda x: p0 if x == syms[0] else _U)
                    if v_ is not _U and bool(v_) != pol_:
                        excluded = True
                if excluded:
                    continue
                if p0 >= _PARAM_MIN[p] and (nd.id, which, b) not in seen:
                    seen.add((nd.id, which, b))
                    n += 1
                    run.refute('R-NEGZERO', f, 'slice-bound-minus-zero', nd.lineno,
                               'the %s slice bound %s is -0 = 0 for %s = %d: the slice is then %s, not %s'
                               % (which, show(b)[:40], p, p0,
                                  'the whole sequence' if which == 'lower' else 'empty',
                                  'the empty suffix' if which == 'lower' else 'the whole sequence'),
                               inputs='%s = %d' % (p, p0))
    run.notes.append('R-NEGZERO: %d slice bounds that can be -0' % n)


def _positions(t):
    """is t the array of positions selected by a predicate: where(c)[0], nonzero(c)[0], c.nonzero()[0], flatnonzero(c)?"""
    if t[0] == 'sub' and t[2] == ('c', 0) and (is_call(t[1], 'numpy.where', 'numpy.nonzero') and len(t[1][2]) == 1 or
                                              (t[1][0] == 'call' and t[1][1][0] == 'attr' and t[1][1][2] == 'nonzero')):
        return True
    return is_call(t, 'numpy.flatnonzero', 'numpy.argwhere')


def _arith_int(t):
    """an integer computed by modular / floor arithmetic: 0 is one of its values"""
    while is_call(t, 'builtins.int') and t[2]:
        t = t[2][0]
    return t[0] == 'bin' and t[1] in ('%', '//', '&', '>>')


def r_zero(ctx, fqs):
    """position 0 (the letter A, the all-A vertex, the first row) is a legitimate member of an index array"""
    run = ctx.run
    run.rule('R-ZERO', "the positions selected by a predicate (where(c)[0], nonzero, flatnonzero) are never reduced by any() / all(): "
                       "position 0 is falsy, so any() answers 'nothing selected' when only position 0 is; emptiness is len() / .size")
    n = 0
    # a helper of the package that answers "the vertex reached, or None": vertex 0 (AA..A) is a vertex, so the answer is compared
    # with None, never used as a truth value
    from ..ctx import flatten_cond
    optional_vertex = {}          # fq -> set of tuple components (None = the whole result) that are `vertex or None`
    for gq, g in ctx.p.funcs.items():
        comps = {}
        for rn in g.stmts(ast.Return):
            if rn.stmt.value is None:
                continue
            rt = g.term(rn.stmt.value, rn)
            parts = list(enumerate(rt[1:])) if rt[0] == 'tuple' else [(None, rt)]
            for i_, pt in parts:
                kd = 'none' if pt == ('c', None) else (
                    'vertex' if ctx.kinds.kind(pt, g) == 'ENTRY' or
                    (pt[0] == 'v' and isinstance(pt[2], tuple) and any(
                        (lambda dt: dt is not None and ctx.kinds.kind(dt, g) == 'ENTRY')(TermBuilder(g, g.defs[j].node).def_term(j))
                        for j in pt[2] if g.defs[j].kind in ('assign', 'for'))) else 'other')
                comps.setdefault(i_, set()).add(kd)
        opt = {i_ for i_, ks in comps.items() if 'none' in ks and 'vertex' in ks}
        if opt:
            optional_vertex[gq] = opt
    for fq in sorted(fqs):
        f = ctx.p.func(fq)
        if f is None:
            continue
        for nd in f.nodes:
            if nd.kind != 'test':
                continue
            t = f.term(nd.ast, nd)
            for atom, pol in flatten_cond(t, True):
                # the same after the helper was inlined: the tested variable is bound to None on one path and to an accessor entry
                # (possibly through a returned tuple) on another
                def _kinds(x, depth=0):
                    if x is None or depth > 4:
                        return {'other'}
                    if x == ('c', None):
                        return {'none'}
                    if ctx.kinds.kind(x, f) == 'ENTRY':
                        return {'vertex'}
                    if x[0] == 'item' and isinstance(x[2], int):
                        out_ = set()
                        for y in ([x[1]] if x[1][0] == 'tuple' else [t2 for _d, t2 in (f.alternatives(x[1]) or [])]):
                            if y is not None and y[0] == 'tuple' and x[2] < len(y) - 1:
                                out_ |= _kinds(y[1 + x[2]], depth + 1)
                            else:
                                out_.add('other')
                        return out_ or {'other'}
                    if x[0] == 'v' and isinstance(x[2], tuple):
                        out_ = set()
                        for _d, t2 in (f.alternatives(x) or []):
                            out_ |= _kinds(t2, depth + 1)
                        return out_ or {'other'}
                    return {'other'}
                if atom[0] in ('v', 'item'):
                    ks_ = _kinds(atom)
                    if 'none' in ks_ and 'vertex' in ks_:
                        n += 1
                        run.refute('R-ZERO', f, 'optional-vertex-as-truth-value', nd.lineno,
                                   'a value that is "the vertex reached, or None" is tested by its truth value: vertex 0 (AA..A) is falsy, so '
                                   'a walk that ends in it is treated as if it had left the graph',
                                   inputs='graphs that contain the all-A vertex, walks ending in it')
                        continue
                src, comp = (atom[1], atom[2]) if atom[0] == 'item' else (atom, None)
                cn = call_name(src) if src[0] == 'call' else None
                if cn and cn in optional_vertex and comp in optional_vertex[cn]:
                    n += 1
                    run.refute('R-ZERO', f, 'optional-vertex-as-truth-value', nd.lineno,
                               'the result of %s - the vertex reached, or None - is tested by its truth value: vertex 0 (AA..A) is falsy, so a '
                               'walk that ends in it is treated as if it had left the graph' % cn.split('.')[-1],
                               inputs='graphs that contain the all-A vertex, walks ending in it')
    for fq in sorted(fqs):
        f = ctx.p.func(fq)
        if f is None:
            continue
        seen = set()
        for nd, s in ctx.all_subterms(f):
            arg = None
            if is_call(s, 'builtins.any', 'numpy.any', 'builtins.all', 'numpy.all') and len(s[2]) == 1:
                arg, fn = s[2][0], s[1][1].split('.')[-1]
            elif s[0] == 'call' and s[1][0] == 'attr' and s[1][2] in ('any', 'all') and not s[2]:
                arg, fn = s[1][1], s[1][2]
            if arg is None:
                continue
            while is_call(arg, 'builtins.list', 'builtins.tuple', 'numpy.array', 'numpy.asarray', 'numpy.unique', 'numpy.sort') and arg[2]:
                arg = arg[2][0]
            while arg[0] == 'call' and arg[1][0] == 'attr' and arg[1][2] in ('tolist', 'copy', 'astype'):
                arg = arg[1][1]
            if _positions(arg) and (nd.id, arg) not in seen:
                seen.add((nd.id, arg))
                n += 1
                run.refute('R-ZERO', f, 'positions-reduced-by-%s' % fn, nd.lineno,
                           '%s() is applied to the positions %s: position 0 (nucleotide A / vertex AA..A / the first row) is falsy, so a '
                           'selection that consists of position 0 alone is judged empty' % (fn, show(arg)[:60]),
                           inputs='a vertex whose only arc is A; a mask that selects only the all-A k-mer')
    # numpy.all / numpy.any of a GENERATOR: numpy wraps the generator object in a 0-d object array, which is truthy - the
    # elements are never looked at (a module that does `from numpy import all, any` shadows the builtins)
    for fq in sorted(fqs):
        f = ctx.p.func(fq)
        if f is None:
            continue
        seen = set()
        for nd, s in ctx.all_subterms(f):
            if is_call(s, 'numpy.all', 'numpy.any') and len(s[2]) == 1 and s[2][0][0] == 'comp' and s[2][0][1] == 'gen' and \
                    (nd.id, s) not in seen:
                seen.add((nd.id, s))
                n += 1
                run.refute('R-ZERO', f, 'numpy-reduction-of-a-generator', nd.lineno,
                           '`%s` resolves to numpy.%s here (imported from numpy in this module) and is given a generator expression: numpy '
                           'does not iterate it, the result is True whatever the elements are, so the test it implements never fails'
                           % (show(s)[:60], s[1][1].split('.')[-1]),
                           inputs='every input for which some element violates the tested condition')
    # `c and v or d`: the pre-conditional-expression idiom answers d whenever v is falsy - vertex 0, letter index 0
    K = ctx.kinds
    for fq in sorted(fqs):
        f = ctx.p.func(fq)
        if f is None:
            continue
        for nd in f.nodes:
            for r in ctx.roots(nd):
                for e in ast.walk(r):
                    if isinstance(e, ast.BoolOp) and isinstance(e.op, ast.Or) and len(e.values) == 2 and \
                            isinstance(e.values[0], ast.BoolOp) and isinstance(e.values[0].op, ast.And) and len(e.values[0].values) == 2:
                        v = e.values[0].values[1]
                        if isinstance(v, (ast.Compare, ast.Constant)):
                            continue
                        try:
                            tv = f.term(v, nd)
                        except AnalysisError:
                            continue
                        src = tv
                        if src[0] == 'v' and src[2] != 'P' and src[1] not in f.params:
                            pass
                        comp_src = None
                        if isinstance(v, ast.Name):
                            # a comprehension variable: look at what it iterates
                            for c_ in ast.walk(r):
                                if isinstance(c_, (ast.ListComp, ast.GeneratorExp, ast.SetComp)):
                                    for g_ in c_.generators:
                                        if isinstance(g_.target, ast.Name) and g_.target.id == v.id:
                                            comp_src = f.term(g_.iter, nd)
                        is_index = K.kind(tv, f) == 'ENTRY' or tv[0] == 'idx' or \
                            (tv[0] == 'iter' and (is_call(tv[1], 'builtins.range') or K.kind(tv[1], f) in ('ROW', 'ENTRY'))) or \
                            (comp_src is not None and (is_call(comp_src, 'builtins.range') or K.kind(comp_src, f) in ('ROW', 'ENTRY') or
                                                       any((call_name(x) or '').endswith(('.obtain_latters', '.obtain_formers'))
                                                           for x in walk_term(comp_src)) or
                                                       (comp_src[0] == 'v' and any(
                                                           d.kind == 'mutate' and d.value is not None and
                                                           (K.kind(f.term(d.value, f.nodes[d.node])[2][0], f) == 'ENTRY' or
                                                            _arith_int(f.term(d.value, f.nodes[d.node])[2][0]))
                                                           for d in f.defs if d.name == comp_src[1] and isinstance(d.extra, ast.Attribute)
                                                           and d.extra.attr == 'append' and f.term(d.value, f.nodes[d.node])[2]))))
                        if is_index:
                            n += 1
                            run.refute('R-ZERO', f, 'and-or-idiom-on-an-index', nd.lineno,
                                       '`%s` yields the fallback whenever `%s` is falsy: vertex index 0 (AA..A) / position 0 is a legitimate '
                                       'value and is replaced by the fallback' % (ast.unparse(e)[:60], ast.unparse(v)[:30]),
                                       inputs='graphs or masks that contain the all-A vertex 0')
    run.notes.append('R-ZERO: %d reductions of position arrays' % n)


_UNSIGNED = {'uint8', 'uint16', 'uint32', 'uint64', 'uint', 'uintc', 'uintp', 'ubyte', 'ushort', 'ulonglong', 'u1', 'u2', 'u4', 'u8',
             'B', 'H', 'I', 'L', 'Q', '<u1', '<u2', '<u4', '<u8', 'bool', 'bool_', '?'}


def r_dtype(ctx, fqs):
    """-1 is the library's 'no arc / not visited' value: an array that holds it is signed"""
    run = ctx.run
    run.rule('R-DTYPE', "an array that is negated, filled with or assigned a negative constant is not allocated with an unsigned (or "
                        "boolean) dtype, and does not inherit its dtype from an argument through *_like(): -1 would wrap to the "
                        "largest value and every `>= 0` liveness test would hold")
    n = 0
    for fq in sorted(fqs):
        f = ctx.p.func(fq)
        if f is None:
            continue
        for nd, s in ctx.all_subterms(f):
            # -alloc(..., dtype=U)   /  full(shape, -c, dtype=U)
            neg = None
            if s[0] == 'un' and s[1] == '-' and s[2][0] == 'call':
                neg = s[2]
            elif s[0] == 'bin' and s[1] == '-' and s[2][0] == 'call' and s[3][0] == 'c' and isinstance(s[3][1], (int, float)) and s[3][1] > 0:
                neg = s[2]
            elif is_call(s, 'numpy.full', 'numpy.full_like') and len(s[2]) >= 2 and s[2][1][0] == 'c' and \
                    isinstance(s[2][1][1], (int, float)) and s[2][1][1] < 0:
                neg = s
            if neg is None or neg[1][0] != 'g' or not neg[1][1].startswith('numpy.'):
                continue
            n += 1
            dt = dict(neg[3]).get('dtype')
            name = None
            if dt is not None:
                if dt[0] == 'c' and isinstance(dt[1], str):
                    name = dt[1]
                elif dt[0] == 'g':
                    name = dt[1].split('.')[-1]
                elif dt[0] == 'attr':
                    name = dt[2]
            if name is not None and name in _UNSIGNED:
                run.refute('R-DTYPE', f, 'negative-in-unsigned', nd.lineno,
                           '%s builds an array of negative values with dtype %s: the value wraps (‑1 becomes the largest unsigned '
                           'number, or True), so the "no entry" marker can no longer be told from a vertex and indexing with it raises '
                           'IndexError' % (show(s)[:70], name), inputs='every input that reads an unset entry')
            elif dt is None and neg[1][1].endswith('_like') and neg[2] and \
                    any(x[0] == 'v' and x[2] == 'P' for x in walk_term(neg[2][0])):
                run.refute('R-DTYPE', f, 'dtype-inherited-from-argument', nd.lineno,
                           '%s takes its dtype from the caller\'s array: for an unsigned or boolean argument (a 0/1 adjacency matrix is '
                           'naturally uint8 or bool) -1 wraps to 255 / True, for a narrow one vertex indices overflow' % show(s)[:70],
                           inputs='arguments of dtype uint8 / bool / int8')
    # a difference of two unsigned arrays wraps below zero
    def dtype_name(call):
        dt = dict(call[3]).get('dtype')
        if dt is None and call[1][0] == 'g' and call[1][1] in ('numpy.frombuffer', 'numpy.array', 'numpy.asarray') and len(call[2]) >= 2:
            dt = call[2][1]
        if dt is None:
            return None
        if dt[0] == 'c' and isinstance(dt[1], str):
            return dt[1]
        if dt[0] == 'g':
            return dt[1].split('.')[-1]
        if dt[0] == 'attr':
            return dt[2]
        return None

    def unsigned_root(t, depth=0):
        if depth > 12:
            return None
        if t[0] == 'sub':
            return unsigned_root(t[1], depth + 1)
        if t[0] == 'bin' and t[1] in ('>>', '&', '|', '^', '<<', '//', '%'):
            return unsigned_root(t[2], depth + 1) or (unsigned_root(t[3], depth + 1) if t[3][0] != 'c' else None)
        if t[0] == 'call' and t[1][0] == 'attr' and t[1][2] == 'astype' and t[2]:
            nm = t[2][0][1] if t[2][0][0] == 'c' else (t[2][0][1].split('.')[-1] if t[2][0][0] == 'g' else None)
            return nm if nm in _UNSIGNED and not str(nm).startswith('bool') and nm != '?' else None
        if t[0] == 'call' and t[1][0] == 'g' and t[1][1].startswith('numpy.'):
            nm = dtype_name(t)
            return nm if nm in _UNSIGNED and not str(nm).startswith('bool') and nm != '?' else None
        return None
    for fq in sorted(fqs):
        f = ctx.p.func(fq)
        if f is None:
            continue
        seen = set()
        for nd, s in ctx.all_subterms(f):
            if s[0] == 'bin' and s[1] == '-' and s not in seen:
                a, b = unsigned_root(s[2]), unsigned_root(s[3])
                if a and b:
                    seen.add(s)
                    n += 1
                    run.refute('R-DTYPE', f, 'unsigned-difference', nd.lineno,
                               'the difference %s is taken between two %s arrays: where the right operand is larger the result wraps to '
                               '%s instead of going negative, and everything accumulated from it is wrong'
                               % (show(s)[:70], a, {'uint8': '255', 'u1': '255', 'B': '255'}.get(a, 'a huge positive number')),
                               inputs='inputs for which the subtrahend exceeds the minuend at some position')
    run.notes.append('R-DTYPE: %d negative-valued allocations / unsigned differences' % n)


def r_none(ctx, fqs):
    """an optional parameter (default None) is recognised by `is None` / `is not None`, never by its truth value: 0, an empty
    map, an empty string and an empty list are values, not absences"""
    run = ctx.run
    run.rule('R-NONE', "every parameter whose default is None is tested for presence with `is None` / `is not None`; a truth-value "
                       "test (`if p:`, `not p`, `p or d`, `x if p else y`) treats 0 / {} / '' / [] like a missing argument")
    n = 0
    for fq in sorted(fqs):
        f = ctx.p.func(fq)
        opt = {p for p, d in f.defaults.items() if isinstance(d, ast.Constant) and d.value is None}
        if not opt:
            continue
        n += 1
        hits = []
        rebound = {t.id for x in ast.walk(f.node) if isinstance(x, (ast.Assign, ast.AugAssign, ast.AnnAssign))
                   for tg in (x.targets if isinstance(x, ast.Assign) else [x.target]) for t in ast.walk(tg)
                   if isinstance(t, ast.Name) and isinstance(t.ctx, ast.Store)}

        def truthy_use(e):
            """names of optional parameters whose truth value decides expression e"""
            if isinstance(e, ast.Name) and e.id in opt and e.id not in rebound:
                return [e.id]
            if isinstance(e, ast.UnaryOp) and isinstance(e.op, ast.Not):
                return truthy_use(e.operand)
            if isinstance(e, ast.BoolOp):
                out = []
                for v in e.values:
                    out += truthy_use(v)
                return out
            return []
        for x in ast.walk(f.node):
            if isinstance(x, (ast.FunctionDef, ast.Lambda)) and x is not f.node:
                continue
            if isinstance(x, (ast.If, ast.While, ast.IfExp, ast.Assert)):
                for p in truthy_use(x.test):
                    hits.append((x.lineno, p, ast.unparse(x.test)[:40]))
            elif isinstance(x, ast.BoolOp) and isinstance(x.op, ast.Or) and isinstance(x.values[0], ast.Name) and \
                    x.values[0].id in opt and x.values[0].id not in rebound:
                hits.append((x.lineno, x.values[0].id, ast.unparse(x)[:40]))
            elif isinstance(x, ast.comprehension):
                for c_ in x.ifs:
                    for p in truthy_use(c_):
                        hits.append((getattr(c_, 'lineno', f.node.lineno), p, ast.unparse(c_)[:40]))
        seen = set()
        for line, p, txt in hits:
            if (line, p) in seen:
                continue
            seen.add((line, p))
            run.refute('R-NONE', f, 'presence-by-identity:%s' % p, line,
                       "%s decides whether the optional argument `%s` was given by its truth value (`%s`): 0, an empty map / list / "
                       "string are legitimate values and are silently treated as \"not given\"" % (f.name, p, txt),
                       inputs='%s=0 / {} / [] / ""' % p)
        if not hits:
            run.ok('R-NONE', f, 'presence-by-identity', f.node.lineno, 'optional parameters are tested with `is None`', nontrivial=False)
    return n


def r_namesake(ctx, fqs):
    """a parameter forwarded to a dsw callee goes to the callee's parameter of the same name, not to a sibling"""
    run = ctx.run
    run.rule('R-NAMESAKE', "when a function forwards its own parameter q to a dsw callee that also has a parameter q, it binds "
                           "it to q - not to another parameter p of the callee whose own namesake the caller has as well "
                           "(swapped / crossed arguments)")
    n = 0
    for fq in sorted(fqs):
        f = ctx.p.func(fq)
        for nd, c, callee, q in ctx.calls()[fq]:
            if callee is None:
                continue
            bound = []
            pos = [x for x in callee.positional if x != 'self'] if callee.cls is not None else list(callee.positional)
            for i, a in enumerate(c.args):
                if isinstance(a, ast.Name) and i < len(pos):
                    bound.append((pos[i], a.id))
            for k in c.keywords:
                if k.arg and isinstance(k.value, ast.Name):
                    bound.append((k.arg, k.value.id))
            for k in c.keywords:
                if k.arg is None:
                    # **{name: value for name, value in {...}.items() if value}: falsy values are not forwarded at all
                    v = k.value
                    if isinstance(v, ast.DictComp) and len(v.generators) == 1 and v.generators[0].ifs:
                        gen = v.generators[0]
                        src = gen.iter.func.value if isinstance(gen.iter, ast.Call) and isinstance(gen.iter.func, ast.Attribute) and \
                            gen.iter.func.attr == 'items' else None
                        if isinstance(src, ast.Name):
                            ds = [d for d in f.defs if d.name == src.id and d.kind == 'assign']
                            src = ds[0].value if len(ds) == 1 else None
                        filt_on_value = isinstance(v.value, ast.Name) and any(
                            isinstance(t_, ast.Name) and t_.id == v.value.id for t_ in gen.ifs)
                        if isinstance(src, ast.Dict) and filt_on_value:
                            for kk in src.keys:
                                if isinstance(kk, ast.Constant) and kk.value in callee.defaults:
                                    dflt = callee.defaults[kk.value]
                                    if isinstance(dflt, ast.Constant) and dflt.value:
                                        n += 1
                                        run.refute('R-NAMESAKE', f, 'dropped-falsy-argument:%s' % kk.value, nd.lineno,
                                                   "%s forwards `%s` to %s only when it is truthy: for a false value the callee falls back "
                                                   "to its own default %r, i.e. the opposite of what the caller asked for"
                                                   % (f.name, kk.value, callee.name, dflt.value),
                                                   inputs='%s=False' % kk.value)
                            continue
                    run.undecided('R-NAMESAKE', f, 'star-forwarding', nd.lineno,
                                  'arguments of %s are forwarded through ** in a form that is not resolved' % callee.name)
            # a parameter the caller has itself and the callee offers with a default is forwarded: otherwise the callee's default
            # silently replaces what the caller was asked for (holds at every call site of the package)
            if not any(k.arg is None for k in c.keywords) and not any(isinstance(a, ast.Starred) for a in c.args):
                given = set(pos[:len(c.args)]) | {k.arg for k in c.keywords if k.arg}
                for qn in f.params:
                    if qn != 'self' and qn in callee.params and qn in callee.defaults and qn not in given:
                        n += 1
                        run.refute('R-NAMESAKE', f, 'not-forwarded:%s' % qn, nd.lineno,
                                   "%s has the parameter `%s` and calls %s, which has it too, without passing it: the callee uses its own "
                                   "default %s whatever the caller was given" % (f.name, qn, callee.name, ast.unparse(callee.defaults[qn])),
                                   inputs='%s different from the default of %s' % (qn, callee.name))
            # the same through an inlined private helper: the helper's own default (bound to `_i<n>_<q>` by the inliner) reaches the
            # callee's q although the enclosing function has a parameter q of its own
            import re as _re
            for p, arg in bound:
                m_ = _re.match(r'^_i\d+_(.+)$', arg)
                if m_ and m_.group(1) == p and p in f.params and p in callee.params:
                    ds_ = [d for d in f.defs if d.name == arg and d.kind != 'param']
                    if len(ds_) == 1 and isinstance(ds_[0].value, ast.Constant):
                        n += 1
                        run.refute('R-NAMESAKE', f, 'not-forwarded:%s' % p, nd.lineno,
                                   "%s has the parameter `%s`, but %s receives the default %r of a private helper that was called "
                                   "without it: the value the caller was given is ignored"
                                   % (f.name, p, callee.name, ds_[0].value.value), inputs='%s different from %r' % (p, ds_[0].value.value))
            for p, arg in bound:
                if arg in f.params and arg != p and arg in callee.params and p in f.params and arg not in {d.name for d in f.defs if d.kind != 'param'}:
                    n += 1
                    run.refute('R-NAMESAKE', f, 'crossed-argument:%s<-%s' % (p, arg), nd.lineno,
                               "%s passes its parameter `%s` as `%s` of %s although both functions have parameters named `%s` "
                               "and `%s`: the two are crossed" % (f.name, arg, p, callee.name, p, arg),
                               inputs='calls where the two arguments differ')
    if not n:
        run.ok('R-NAMESAKE', 'dsw', 'no-crossed-arguments', 'dsw', 'forwarded parameters reach their namesakes in %d functions' % len(fqs),
               nontrivial=False)


_IMMUTABLE_RESULT = {'len', 'int', 'float', 'str', 'bool', 'abs', 'min', 'max', 'round', 'pow', 'frozenset', 'tuple', 'ord',
                     'chr', 'sum', 'divmod', 'bytes', 'complex', 'hash', 'repr'}


def _immutable_default(d, globals_=None, depth=0):
    """is the value of expression d an immutable object built from immutable parts (so that it cannot carry state)?"""
    if depth > 8:
        return False
    rec = lambda x: _immutable_default(x, globals_, depth + 1)
    if isinstance(d, ast.Constant):
        return True
    if isinstance(d, ast.UnaryOp):
        return rec(d.operand)
    if isinstance(d, ast.BinOp):
        return rec(d.left) and rec(d.right)
    if isinstance(d, ast.Compare):
        return rec(d.left) and all(rec(x) for x in d.comparators)
    if isinstance(d, ast.Tuple):
        return all(rec(x) for x in d.elts)
    if isinstance(d, ast.Subscript):
        return rec(d.value) and (isinstance(d.slice, ast.Slice) or rec(d.slice))
    if isinstance(d, ast.Name):
        if d.id in ('True', 'False', 'None'):
            return True
        return globals_ is not None and d.id in globals_ and globals_[d.id] is not d and rec(globals_[d.id])
    if isinstance(d, ast.Call) and isinstance(d.func, ast.Name) and d.func.id in _IMMUTABLE_RESULT and not d.keywords \
            and not (globals_ is not None and d.func.id in globals_):
        return all(rec(a) for a in d.args)
    if isinstance(d, ast.JoinedStr):
        return True
    return False


def check_set_order(ctx, f):
    """taint: list(S) / tuple(S) / iteration over a set S -> value depends on hash order; sanitisers: sorted, len,
    set.add / set(...) ; sink: return values"""
    run = ctx.run
    setnames = set()
    for d in f.defs:
        if d.kind == 'assign' and d.value is not None:
            v = d.value
            for i in d.path:
                if isinstance(v, (ast.Tuple, ast.List)) and isinstance(i, int) and i < len(v.elts):
                    v = v.elts[i]
            if _is_set_expr(v):
                setnames.add(d.name)
            if isinstance(v, ast.ListComp) and _is_set_expr(v.elt):
                setnames.add(d.name + '[]')
    if not setnames:
        return
    lists_of_sets = {n[:-2] for n in setnames if n.endswith('[]')}
    setnames = {n for n in setnames if not n.endswith('[]')}

    def is_set(e):
        if isinstance(e, ast.Name) and e.id in setnames:
            return True
        if isinstance(e, ast.Subscript) and isinstance(e.value, ast.Name) and e.value.id in lists_of_sets:
            return True
        return _is_set_expr(e)

    ORDER_KEEPING = ('list', 'tuple', 'array', 'asarray', 'join', 'enumerate', 'iter', 'next', 'product', 'zip', 'reversed', 'str',
                     'map', 'filter', 'chain', 'tolist', 'copy', 'format')
    opaque_hits = []

    def tainted_expr(e, tainted):
        """does the value of e depend on a set's iteration order?"""
        if isinstance(e, ast.Call):
            fn = e.func
            name = fn.id if isinstance(fn, ast.Name) else (fn.attr if isinstance(fn, ast.Attribute) else None)
            if name in ('sorted', 'len', 'set', 'frozenset', 'sum', 'min', 'max', 'any', 'all', 'prod'):
                return False
            if name in ('list', 'tuple', 'array', 'join', 'enumerate', 'iter', 'next', 'product', 'zip', 'reversed') and e.args:
                if any(is_set(a.value if isinstance(a, ast.Starred) else a) for a in e.args):
                    return True
            if name not in ORDER_KEEPING:
                # a call this analysis does not know (reduce with a commutative lambda, a helper): what it makes of the order
                # of its argument is not known - recorded, and the sink answers undecided instead of reporting
                inner = any(tainted_expr(c, tainted) for c in ast.iter_child_nodes(e) if isinstance(c, ast.expr)) or \
                    any(tainted_expr(c.value, tainted) for c in ast.iter_child_nodes(e) if isinstance(c, (ast.keyword, ast.Starred)))
                if inner:
                    opaque_hits.append(name or '?')
                return inner
        if isinstance(e, ast.Name):
            return e.id in tainted
        if isinstance(e, (ast.ListComp, ast.GeneratorExp, ast.SetComp, ast.DictComp)):
            if isinstance(e, ast.SetComp):
                return False
            for g in e.generators:
                if is_set(g.iter) or tainted_expr(g.iter, tainted):
                    return True
        return any(tainted_expr(c, tainted) for c in ast.iter_child_nodes(e) if isinstance(c, ast.expr) or
                   isinstance(c, (ast.keyword, ast.Starred)) and False) or \
            any(tainted_expr(c.value, tainted) for c in ast.iter_child_nodes(e) if isinstance(c, (ast.keyword, ast.Starred)))
    tainted = set()
    changed = True
    while changed:
        changed = False
        for nd in f.nodes:
            st = nd.stmt
            if nd.kind == 'for':
                if is_set(st.iter) or tainted_expr(st.iter, tainted):
                    for n in ast.walk(st.target):
                        if isinstance(n, ast.Name) and n.id not in tainted:
                            tainted.add(n.id)
                            changed = True
            elif isinstance(st, ast.Assign) and len(st.targets) == 1 and isinstance(st.targets[0], ast.Tuple) and \
                    _tuple_value(f, st.value) is not None and len(_tuple_value(f, st.value).elts) == len(st.targets[0].elts):
                # element-wise: a, b = (x, y)   /   t = (x, y) ... a, b = t
                for tgt, val in zip(st.targets[0].elts, _tuple_value(f, st.value).elts):
                    if tainted_expr(val, tainted):
                        for n in ast.walk(tgt):
                            if isinstance(n, ast.Name) and n.id not in tainted:
                                tainted.add(n.id)
                                changed = True
            elif isinstance(st, ast.Assign) and isinstance(st.value, ast.Tuple) and len(st.targets) == 1 and \
                    isinstance(st.targets[0], ast.Name) and _only_unpacked(f, st.targets[0].id):
                pass        # a tuple that is only ever unpacked element-wise: handled at the unpacking
            elif isinstance(st, ast.Assign):
                if tainted_expr(st.value, tainted):
                    for t in st.targets:
                        b = base_name(t) if not isinstance(t, (ast.Tuple, ast.List)) else None
                        names = [b] if b else [n.id for n in ast.walk(t) if isinstance(n, ast.Name)]
                        for n in names:
                            if n and n not in tainted:
                                tainted.add(n)
                                changed = True
            elif isinstance(st, ast.AugAssign):
                if tainted_expr(st.value, tainted) and not isinstance(st.op, ast.Mult):
                    b = base_name(st.target)
                    if b and b not in tainted and b not in setnames:
                        # numeric accumulators (sum of counts) are order independent only for + of numbers; strings are not
                        tainted.add(b)
                        changed = True
            elif isinstance(st, ast.Expr) and isinstance(st.value, ast.Call) and isinstance(st.value.func, ast.Attribute):
                c = st.value
                if c.func.attr in ('append', 'extend', 'insert') and any(tainted_expr(a, tainted) for a in c.args):
                    b = base_name(c.func.value)
                    if b and b not in tainted:
                        tainted.add(b)
                        changed = True
                # set.add(tainted) does not taint: membership is order independent
    k = 0
    for nd in f.stmts(ast.Return):
        if nd.stmt.value is None:
            continue
        k += 1
        bad = tainted_expr(nd.stmt.value, tainted)
        if bad and opaque_hits:
            run.undecided('R-STATE', f, 'return#%d:independent-of-set-order' % k, nd.lineno,
                          'a value derived from the iteration order of a set passes through %s(), whose dependence on the order of its '
                          'argument is not known' % sorted(set(opaque_hits))[0])
            continue
        run.check(not bad, 'R-STATE', f, 'return#%d:independent-of-set-order' % k, nd.lineno,
                  'no returned component depends on the iteration order of a set',
                  'a returned value of %s depends on the iteration order of a set (hash randomisation makes it differ '
                  'between processes): %s' % (f.name, ast.unparse(nd.stmt.value)[:80]),
                  inputs='two or more elements in the set')


def _tuple_value(f, v):
    """the tuple display an expression denotes: itself, or the single tuple display assigned to the name"""
    if isinstance(v, ast.Tuple):
        return v
    if isinstance(v, ast.Name):
        vals = [d.value for d in f.defs if d.name == v.id and d.kind == 'assign' and not d.path]
        if len(vals) == 1 and isinstance(vals[0], ast.Tuple):
            return vals[0]
    return None


def _only_unpacked(f, name):
    """every load of `name` is the whole right-hand side of a tuple-unpacking assignment"""
    loads = [n for n in ast.walk(f.node) if isinstance(n, ast.Name) and n.id == name and isinstance(n.ctx, ast.Load)]
    if not loads:
        return False
    rhs = {id(st.value) for st in ast.walk(f.node) if isinstance(st, ast.Assign) and len(st.targets) == 1 and
           isinstance(st.targets[0], ast.Tuple)}
    return all(id(n) in rhs for n in loads)


def _is_set_expr(v):
    if isinstance(v, (ast.Set, ast.SetComp)):
        return True
    if isinstance(v, ast.Call) and isinstance(v.func, ast.Name) and v.func.id in ('set', 'frozenset'):
        return True
    if isinstance(v, ast.BinOp) and isinstance(v.op, (ast.BitOr, ast.BitAnd, ast.Sub)) and (_is_set_expr(v.left) or _is_set_expr(v.right)):
        return True
    return False


# ----------------------------------------------------------------------------------------------
PURE_IN_VERBOSE = {'str', 'round', 'sum', 'len', 'max', 'min', 'int', 'float', 'number_to_dna', 'repr', 'abs', 'print',
                   'sorted', 'list', 'tuple', 'set', 'dict', 'join', 'format', 'bool', 'divmod', 'enumerate', 'zip', 'range'}


def r_verb(ctx, floor_funcs=0):
    run = ctx.run
    run.rule('R-VERB', "a `verbose` parameter is used only (1) as the test of regions that contain nothing but calls of "
                       "print and of a Monitor instance (and nested ifs), with side-effect-free arguments, and (2) passed "
                       "down as the verbose argument of a dsw function; the Monitor instance is used nowhere else")
    nf = nreg = npass = 0
    for fq in sorted(ctx.reachable()):
        f = ctx.p.func(fq)
        if 'verbose' not in f.params:
            continue
        nf += 1
        monitors = {d.name for d in f.defs if d.kind == 'assign' and d.value is not None and
                    _is_monitor_ctor(f, d)}
        monitors = {m for m in monitors if all(_is_monitor_ctor(f, d) for d in f.defs if d.name == m)}
        if 'monitor' in f.params:
            monitors.add('monitor')     # a helper that is handed the caller's progress monitor
        # plain copies (x = verbose / m = monitor, e.g. parameter bindings of an inlined helper) are the same thing
        vnames = {'verbose'}
        changed = True
        while changed:
            changed = False
            for d in f.defs:
                if d.kind == 'assign' and isinstance(d.value, ast.Name) and not d.path and d.name not in vnames | monitors:
                    if d.value.id in vnames and all(isinstance(x.value, ast.Name) and x.value.id in vnames
                                                    for x in f.defs if x.name == d.name and x.kind != 'param'):
                        vnames.add(d.name)
                        changed = True
                    elif d.value.id in monitors and all(isinstance(x.value, ast.Name) and x.value.id in monitors
                                                        for x in f.defs if x.name == d.name):
                        monitors.add(d.name)
                        changed = True
        regions = []           # (if node, stmts)
        handed = set()
        pre_accounted = set()
        # `m = M if verbose else None` (the binding an inlined helper leaves behind for an optional progress monitor): `m is not None`
        # is the verbose test, m is the monitor
        opt = set()
        for d in f.defs:
            if d.kind == 'assign' and isinstance(d.value, ast.IfExp) and not d.path and \
                    len([x for x in f.defs if x.name == d.name and x.kind != 'param']) == 1 and d.name not in f.params:
                t_, on_, off_ = d.value.test, d.value.body, d.value.orelse
                if isinstance(t_, ast.UnaryOp) and isinstance(t_.op, ast.Not):
                    t_, on_, off_ = t_.operand, d.value.orelse, d.value.body
                if isinstance(t_, ast.Name) and t_.id in vnames and isinstance(on_, ast.Name) and on_.id in monitors and \
                        isinstance(off_, ast.Constant) and off_.value is None:
                    opt.add(d.name)
                    pre_accounted.add(id(t_))
                    handed.add(id(on_))

        def _opt_test(t):
            if isinstance(t, ast.Name) and t.id in opt:
                return True
            return isinstance(t, ast.Compare) and len(t.ops) == 1 and isinstance(t.ops[0], ast.IsNot) and isinstance(t.left, ast.Name) and \
                t.left.id in opt and isinstance(t.comparators[0], ast.Constant) and t.comparators[0].value is None
        vnames = vnames | opt
        monitors = monitors | opt
        uses = [n for n in ast.walk(f.node) if isinstance(n, ast.Name) and n.id in vnames and isinstance(n.ctx, ast.Load)]
        accounted = set(pre_accounted)
        bad = []
        for n in ast.walk(f.node):
            if isinstance(n, ast.Call) and isinstance(n.func, ast.Name) and n.func.id in opt and _inside_verbose_region(f.node, n.func, vnames):
                accounted.add(id(n.func))
            if isinstance(n, ast.Assign) and isinstance(n.value, ast.Name) and n.value.id in vnames and \
                    all(isinstance(t, ast.Name) and t.id in vnames for t in n.targets):
                accounted.add(id(n.value))
            if isinstance(n, ast.If) and any(_mentions(n.test, v) for v in vnames):
                ok_test = _verbose_test(n.test) if not any(_mentions(n.test, v) for v in opt) else _opt_test(n.test)
                for u in ast.walk(n.test):
                    if isinstance(u, ast.Name) and u.id in vnames:
                        accounted.add(id(u))
                        handed.add(id(u))
                if not ok_test and any(_mentions(n.test, v) for v in opt):
                    bad.append((n.lineno, 'UNCLEAR: the optional monitor is tested as %s' % ast.unparse(n.test)[:40]))
                    continue
                if not ok_test:
                    bad.append((n.lineno, 'verbose is combined in the test %s in a way that is not a pure guard' % ast.unparse(n.test)))
                    continue
                nreg += 1
                twin_arms = bool(n.orelse) and _dump_without_progress(n.body, monitors) == _dump_without_progress(n.orelse, monitors)
                for st in ([] if twin_arms else n.body):
                    b = _region_violation(st, monitors, _region_locals(f.node, vnames))
                    if b:
                        bad.append((st.lineno, b))
                if n.orelse and not _positive_guard(n.test):
                    pass
                if n.orelse and _positive_guard(n.test) and \
                        _dump_without_progress(n.body, monitors) == _dump_without_progress(n.orelse, monitors):
                    pass        # both arms do the same work; the verbose arm only adds progress output
                elif n.orelse and _positive_guard(n.test):
                    # the else arm runs when verbose is off: it must be effect-free too (otherwise results differ)
                    for st in n.orelse:
                        b = _region_violation(st, monitors, _region_locals(f.node, vnames))
                        if b:
                            bad.append((st.lineno, 'the else-arm of a verbose test: ' + b))
            elif isinstance(n, ast.Call):
                # `monitor=M if verbose else None` handed to a dsw helper that treats the parameter as an optional progress monitor
                q_, callee_ = ctx.resolve_call(f, n)
                for pname_, a_ in [(k.arg, k.value) for k in n.keywords] + \
                        [(callee_.positional[i_] if callee_ is not None and i_ < len(callee_.positional) else None, a_)
                         for i_, a_ in enumerate(n.args)]:
                    if isinstance(a_, ast.IfExp) and callee_ is not None and pname_ in callee_.params:
                        t_, on_, off_ = a_.test, a_.body, a_.orelse
                        if isinstance(t_, ast.UnaryOp) and isinstance(t_.op, ast.Not):
                            t_, on_, off_ = t_.operand, a_.orelse, a_.body
                        if isinstance(t_, ast.Name) and t_.id in vnames and isinstance(on_, ast.Name) and on_.id in monitors and \
                                isinstance(off_, ast.Constant) and off_.value is None and _optional_monitor_param_ok(callee_, pname_):
                            accounted.add(id(t_))
                            handed.add(id(on_))
                            npass += 1
                for k in n.keywords:
                    if isinstance(k.value, ast.Name) and k.value.id in vnames:
                        q, callee = ctx.resolve_call(f, n)
                        if k.arg == 'verbose' and callee is not None and 'verbose' in callee.params:
                            accounted.add(id(k.value))
                            npass += 1
                        else:
                            bad.append((n.lineno, 'verbose passed as %s= to %s' % (k.arg, q)))
                            accounted.add(id(k.value))
                q, callee = ctx.resolve_call(f, n)
                for i, a in enumerate(n.args):
                    if isinstance(a, ast.Name) and a.id in vnames:
                        if callee is not None and i < len(callee.positional) and callee.positional[i] == 'verbose':
                            accounted.add(id(a))
                            npass += 1
        for u in uses:
            if id(u) not in accounted:
                as_argument = any(isinstance(c_, ast.Call) and (u in c_.args or any(k_.value is u for k_ in c_.keywords))
                                  for c_ in ast.walk(f.node))
                # an argument expression that contains verbose: does its value depend on verbose at all?
                inside = [a_ for c_ in ast.walk(f.node) if isinstance(c_, ast.Call)
                          for a_ in list(c_.args) + [k_.value for k_ in c_.keywords]
                          if a_ is not u and any(x_ is u for x_ in ast.walk(a_))]
                dep = None
                if inside:
                    from ..finite import feval as _fe, UNKNOWN as _UNK
                    nd_ = next((n_ for n_ in f.nodes for r_ in ctx.roots(n_) if any(x_ is u for x_ in ast.walk(r_))), None)
                    if nd_ is not None:
                        ta = f.term(inside[0], nd_)
                        vals = [_fe(ta, lambda x, b=b: b if (x[0] == 'v' and x[1] in vnames) else _UNK) for b in (True, False)]
                        if all(v is not _UNK for v in vals):
                            dep = vals[0] != vals[1]
                if as_argument or dep is True:
                    bad.append((u.lineno, 'verbose is passed to a call as something other than its verbose parameter'
                                if as_argument else 'the argument `%s` of a call takes a different value when verbose is on'
                                % ast.unparse(inside[0])[:40]))
                elif dep is False:
                    pass        # e.g. `not verbose or True`: the value does not depend on verbose
                else:
                    bad.append((u.lineno, 'UNCLEAR: verbose is used outside a guard test / pass-down (%s)'
                                % 'its value flows into an expression this rule does not follow'))
        # monitor used outside regions
        for n in ast.walk(f.node):
            if isinstance(n, ast.Name) and n.id in monitors and isinstance(n.ctx, ast.Load):
                if id(n) in handed:
                    continue
                if not _inside_verbose_region(f.node, n, vnames) and not _is_alias_binding(f.node, n, monitors):
                    called = any(isinstance(c_, ast.Call) and c_.func is n for c_ in ast.walk(f.node))
                    bad.append((n.lineno, ('' if called else 'UNCLEAR: ') + 'the Monitor instance is %s outside a verbose region'
                                % ('called' if called else 'used')))
        bad.extend(_read_after_delete(f, vnames))
        unclear = [b for b in bad if b[1].startswith('UNCLEAR:')]
        bad = [b for b in bad if not b[1].startswith('UNCLEAR:')]
        if not bad and unclear:
            run.undecided('R-VERB', f, 'verbose-neutral', unclear[0][0], '; '.join('line %d: %s' % (b[0], b[1][9:]) for b in unclear[:3]))
            continue
        run.check(not bad, 'R-VERB', f, 'verbose-neutral', bad[0][0] if bad else f.node.lineno,
                  'verbose only guards print / monitor calls or is passed down',
                  'turning verbose on changes more than the output in %s: %s' % (f.name, '; '.join('line %d: %s' % b for b in bad[:3])),
                  inputs='verbose=True')
    run.floor('R-VERB', 'functions taking verbose', nf, floor_funcs)
    run.notes.append('R-VERB: %d functions, %d guarded regions, %d pass-down arguments' % (nf, nreg, npass))
    # Monitor.__call__ must not raise explicitly and only writes its own timer
    return nf, nreg, npass


def r_view(ctx, fqs):
    """R-VIEW: a before/after comparison made through two numpy views of the same memory compares a value with itself"""
    run = ctx.run
    run.rule('R-VIEW', "a variable bound to a basic-indexing view of an array (`p = A[i]`, no call, no copy) sees every later "
                       "store into A: a comparison between two such variables taken from the same place before and after a "
                       "store into A compares the current content with itself")
    n = 0
    for fq in sorted(fqs):
        f = ctx.p.func(fq)
        if f is None:
            continue
        views = {}
        for d in f.defs:
            if d.kind != 'assign' or d.value is None or d.path:
                continue
            v = d.value
            if not isinstance(v, ast.Subscript):
                continue
            b = v
            plain = True
            while isinstance(b, ast.Subscript):
                idx = b.slice
                for e_ in (idx.elts if isinstance(idx, ast.Tuple) else [idx]):
                    if not isinstance(e_, (ast.Name, ast.Constant, ast.Slice, ast.BinOp, ast.UnaryOp)):
                        plain = False       # fancy indexing (lists, arrays, masks) copies
                b = b.value
            if not plain or not isinstance(b, ast.Name):
                continue
            # only arrays: the base is a parameter or a local that is stored into with a tuple / 2-D subscript somewhere, or an
            # accessor-like kind
            if ctx.kinds.kind(f.term(b, f.nodes[d.node]), f) not in ('ACC', 'ROW'):
                continue
            if sum(1 for d2 in f.defs if d2.name == d.name and d2.kind in ('assign', 'aug')) != 1:
                continue
            tv = f.term(v, f.nodes[d.node])
            idxs = []
            while tv[0] == 'sub':
                idxs.append(tv[2])
                tv = tv[1]
            views[d.name] = (d, b.id, tuple(idxs))
        if len(views) < 2:
            continue
        for nd in f.nodes:
            for r in ctx.roots(nd):
                for c in ast.walk(r):
                    if not (isinstance(c, ast.Compare) and len(c.ops) >= 1):
                        continue
                    sides = [c.left] + list(c.comparators)
                    for a_, b_ in zip(sides, sides[1:]):
                        na = {x.id for x in ast.walk(a_) if isinstance(x, ast.Name)} & set(views)
                        nb = {x.id for x in ast.walk(b_) if isinstance(x, ast.Name)} & set(views)
                        for p in na:
                            for q in nb:
                                if p == q:
                                    continue
                                dp, bp, tp = views[p]
                                dq, bq, tq = views[q]
                                if bp != bq or tp != tq:
                                    continue
                                if ast.dump(a_).replace(repr(p), '#') != ast.dump(b_).replace(repr(q), '#'):
                                    continue
                                # a store into the base between the two bindings
                                first, second = (dp, dq) if dp.node < dq.node else (dq, dp)
                                between = [d3 for d3 in f.defs if d3.name == bp and d3.kind == 'mutate' and
                                           d3.node in f.reachable_from(first.node) and second.node in f.reachable_from(d3.node)]
                                n += 1
                                if between:
                                    run.refute('R-VIEW', f, 'before-after-through-views', nd.lineno,
                                               '`%s` and `%s` are both views of %s (bound at lines %d and %d, no copy); the store at line %d '
                                               'between them is visible through both, so `%s` compares the row with itself and the branch '
                                               'it guards can never be taken'
                                               % (p, q, '%s[%s]' % (bp, ', '.join(show(i_)[:30] for i_ in reversed(tp))), f.nodes[dp.node].lineno, f.nodes[dq.node].lineno,
                                                  f.nodes[between[0].node].lineno, ast.unparse(c)[:60]),
                                               inputs='every input that reaches the comparison')
    run.notes.append('R-VIEW: %d before/after comparisons through views examined' % n)


def _read_after_delete(f, vnames):
    """a progress call that reads X[k] on a path on which `del X[k]` (or X.pop(k)) has run raises KeyError with verbose on.
    Only unguarded reads: a read under a test that mentions X is left alone."""
    out = []
    dels = []
    for nd in f.nodes:
        st = nd.stmt
        if isinstance(st, ast.Delete):
            for t in st.targets:
                if isinstance(t, ast.Subscript) and isinstance(t.value, ast.Name) and not isinstance(t.slice, ast.Slice):
                    dels.append((nd, t.value.id, ast.dump(t.slice)))
        elif isinstance(st, ast.Expr) and isinstance(st.value, ast.Call) and isinstance(st.value.func, ast.Attribute) and \
                st.value.func.attr == 'pop' and isinstance(st.value.func.value, ast.Name) and len(st.value.args) == 1:
            dels.append((nd, st.value.func.value.id, ast.dump(st.value.args[0])))
    if not dels:
        return out

    def guards_of(target, tree, acc):
        for n in ast.iter_child_nodes(tree):
            if n is target:
                return acc
            if isinstance(n, ast.If):
                r = guards_of(target, n, acc + [n.test])
            else:
                r = guards_of(target, n, acc)
            if r is not None:
                return r
        return None
    for nd in f.nodes:
        st = nd.stmt
        if not (isinstance(st, ast.Expr) and isinstance(st.value, ast.Call)):
            continue
        gs = guards_of(st, f.node, [])
        if gs is None or not any(_mentions(t, v) for t in gs for v in vnames):
            continue
        for x in ast.walk(st):
            if isinstance(x, ast.Subscript) and isinstance(x.ctx, ast.Load) and isinstance(x.value, ast.Name):
                for dn, name, key in dels:
                    if name != x.value.id or key != ast.dump(x.slice):
                        continue
                    if any(_mentions(t, name) for t in gs):
                        continue
                    # a path from the deletion to the read on which X[k] is not stored again and k is not rebound
                    keynames = {n.id for n in ast.walk(x.slice) if isinstance(n, ast.Name)}
                    seen, todo, hit = set(), list(dn.succ), False
                    while todo:
                        i = todo.pop()
                        if i in seen:
                            continue
                        seen.add(i)
                        m = f.nodes[i]
                        if m is nd:
                            hit = True
                            break
                        ms = m.stmt
                        if isinstance(ms, (ast.Assign, ast.AugAssign, ast.For)):
                            tg = ms.targets if isinstance(ms, ast.Assign) else [ms.target]
                            if any((isinstance(n_, ast.Name) and (n_.id in keynames or n_.id == name)) or
                                   (isinstance(n_, ast.Subscript) and isinstance(n_.value, ast.Name) and n_.value.id == name)
                                   for t_ in tg for n_ in ast.walk(t_) if isinstance(getattr(n_, 'ctx', None), ast.Store) or n_ is t_):
                                continue
                        todo.extend(m.succ)
                    if hit:
                        out.append((st.lineno, 'the progress call reads %s after `%s` at line %d may have removed that entry: KeyError '
                                    'only when verbose is on' % (ast.unparse(x)[:40], ast.unparse(dn.stmt)[:40], dn.lineno)))
    return out


def _is_monitor_ctor(f, d):
    v = d.value
    for i in d.path:
        if isinstance(v, (ast.Tuple, ast.List)) and isinstance(i, int) and i < len(v.elts):
            v = v.elts[i]
        else:
            return False
    return isinstance(v, ast.Call) and isinstance(v.func, ast.Name) and v.func.id == 'Monitor' and not v.args


def _mentions(e, name):
    return any(isinstance(n, ast.Name) and n.id == name for n in ast.walk(e))


def _optional_monitor_param_ok(g, p):
    """the callee g treats its parameter p as an optional progress monitor: every use of p is the test `p is not None` / `p is None`
    / `p` of an if whose guarded arm contains nothing but calls of p and print with effect-free arguments, or such a call"""
    fn = g.node
    accounted, guards = set(), 0
    for n in ast.walk(fn):
        if not isinstance(n, ast.If):
            continue
        t, pos = n.test, None
        if isinstance(t, ast.Compare) and len(t.ops) == 1 and isinstance(t.left, ast.Name) and t.left.id == p and \
                isinstance(t.comparators[0], ast.Constant) and t.comparators[0].value is None and isinstance(t.ops[0], (ast.Is, ast.IsNot)):
            pos = isinstance(t.ops[0], ast.IsNot)
        elif isinstance(t, ast.Name) and t.id == p:
            pos = True
        if pos is None:
            continue
        arm, other = (n.body, n.orelse) if pos else (n.orelse, n.body)
        if not arm or (other and not all(isinstance(s, ast.Pass) for s in other)):
            return False
        for st in arm:
            if _region_violation(st, {p}, frozenset()):
                return False
        guards += 1
        for u in ast.walk(n):
            if isinstance(u, ast.Name) and u.id == p:
                accounted.add(id(u))
    uses = [u for u in ast.walk(fn) if isinstance(u, ast.Name) and u.id == p and isinstance(u.ctx, ast.Load)]
    return guards > 0 and all(id(u) in accounted for u in uses) and \
        not any(isinstance(u, ast.Name) and u.id == p and isinstance(u.ctx, (ast.Store, ast.Del)) for u in ast.walk(fn))


def _verbose_test(t):
    """verbose | verbose and <pure expr> | <pure> and verbose"""
    if isinstance(t, ast.Name):
        return True
    if isinstance(t, ast.BoolOp) and isinstance(t.op, ast.And):
        return all(_pure_expr(v) for v in t.values)
    return False


def _positive_guard(t):
    return True


_EFFECT_METHODS = {'append', 'add', 'pop', 'remove', 'sort', 'update', 'extend', 'insert', 'clear', 'discard', 'setdefault',
                   'popitem', 'reverse', 'fill', 'put', 'shuffle', 'seed', 'write', 'resize', 'itemset', 'partition', 'byteswap'}
_PURE_METHODS = {'replace', 'items', 'astype', 'total_seconds', 'tolist', 'sum', 'any', 'all', 'count', 'index', 'keys', 'values',
                 'get', 'upper', 'lower', 'join', 'format', 'strip', 'lstrip', 'rstrip', 'copy', 'max', 'min', 'mean', 'round',
                 'rjust', 'ljust', 'zfill', 'center', 'split', 'startswith', 'endswith', 'nonzero', 'flatten', 'ravel', 'reshape',
                 'argmax', 'argmin', 'argsort', 'find', 'title', 'capitalize', 'most_common'}
_PURE_NUMPY = {'count_nonzero', 'sum', 'where', 'nonzero', 'flatnonzero', 'mean', 'median', 'max', 'min', 'amax', 'amin', 'argmax',
               'argmin', 'argsort', 'unique', 'array', 'asarray', 'round', 'around', 'any', 'all', 'log', 'log2', 'abs', 'zeros', 'ones',
               'full', 'arange', 'sort', 'cumsum', 'prod', 'isin', 'in1d', 'intersect1d', 'union1d', 'diff', 'floor', 'ceil', 'sqrt'}


def _purity(e, module=None):
    """'pure' | 'effect' | 'unknown' for an expression used inside a progress call"""
    worst = 'pure'
    for n in ast.walk(e):
        if isinstance(n, (ast.NamedExpr, ast.Await, ast.Yield, ast.YieldFrom)):
            return 'effect'
        if isinstance(n, ast.Call):
            fn = n.func
            if isinstance(fn, ast.Name):
                if fn.id in PURE_IN_VERBOSE or fn.id in _PURE_NUMPY:
                    continue
                worst = 'unknown'
            elif isinstance(fn, ast.Attribute):
                if fn.attr in _EFFECT_METHODS:
                    return 'effect'
                if fn.attr in _PURE_METHODS or fn.attr in _PURE_NUMPY or fn.attr in PURE_IN_VERBOSE:
                    continue
                worst = 'unknown'
            else:
                worst = 'unknown'
    return worst


def _pure_expr(e):
    return _purity(e) == 'pure'


def _dump_without_progress(stmts, monitors):
    """structure of a statement list with print(...) / monitor(...) statements removed"""
    import copy

    def strip(block):
        out = []
        for st in block:
            if isinstance(st, ast.Expr) and isinstance(st.value, ast.Call) and isinstance(st.value.func, ast.Name) and \
                    (st.value.func.id == 'print' or st.value.func.id in monitors):
                continue
            st = copy.copy(st)
            for field in ('body', 'orelse', 'finalbody'):
                b = getattr(st, field, None)
                if isinstance(b, list) and b and isinstance(b[0], ast.stmt):
                    setattr(st, field, strip(b) or [ast.Pass()])
            out.append(st)
        return out
    return [ast.dump(s) for s in strip(stmts)]


def _region_locals(fn, vnames):
    """names assigned inside verbose regions that are never read outside of them"""
    inside_nodes = set()
    for n in ast.walk(fn):
        if isinstance(n, ast.If) and any(_mentions(n.test, v) for v in vnames):
            for st in n.body:
                for x in ast.walk(st):
                    inside_nodes.add(id(x))
    assigned = set()
    for n in ast.walk(fn):
        if isinstance(n, ast.Name) and isinstance(n.ctx, ast.Store) and id(n) in inside_nodes:
            assigned.add(n.id)
    for n in ast.walk(fn):
        if isinstance(n, ast.Name) and n.id in assigned and id(n) not in inside_nodes:
            assigned.discard(n.id)          # read or written outside a region: not region-local
    return assigned


def _is_alias_binding(fn, name_node, monitors):
    for n in ast.walk(fn):
        if isinstance(n, ast.Assign) and n.value is name_node and all(isinstance(t, ast.Name) and t.id in monitors for t in n.targets):
            return True
    return False


def _region_violation(st, monitors, region_locals=frozenset()):
    if isinstance(st, ast.Expr) and isinstance(st.value, ast.Call):
        c = st.value
        fn = c.func
        if isinstance(fn, ast.Name) and (fn.id == 'print' or fn.id in monitors):
            for a in list(c.args) + [k.value for k in c.keywords]:
                pu = _purity(a)
                if pu == 'effect':
                    return 'argument %s of a progress call has side effects' % ast.unparse(a)[:60]
                if pu == 'unknown':
                    return 'UNCLEAR: argument %s of a progress call calls something this rule does not classify' % ast.unparse(a)[:60]
            return None
        return 'statement `%s` inside a verbose region is not a print / monitor call' % ast.unparse(st)[:60]
    if isinstance(st, ast.Assign) and _pure_expr(st.value) and \
            all(isinstance(e_, ast.Name) and e_.id in region_locals
                for t in st.targets for e_ in (t.elts if isinstance(t, (ast.Tuple, ast.List)) else [t])):
        return None         # a temporary that lives only inside verbose regions
    if isinstance(st, ast.If):
        if not _pure_expr(st.test):
            return 'nested test with side effects'
        for s in st.body + st.orelse:
            b = _region_violation(s, monitors, region_locals)
            if b:
                return b
        return None
    if isinstance(st, ast.Pass):
        return None
    return 'statement `%s` inside a verbose region is not a print / monitor call' % ast.unparse(st)[:70]


def _inside_verbose_region(fn, name_node, vnames=('verbose',)):
    for n in ast.walk(fn):
        if isinstance(n, ast.If) and any(_mentions(n.test, v) for v in vnames):
            for st in n.body + n.orelse:
                for x in ast.walk(st):
                    if x is name_node:
                        return True
    return False


def r_monitor(ctx):
    """Monitor.__call__ has no explicit raise and returns None on every path"""
    run = ctx.run
    f = ctx.p.func('dsw.operation.Monitor.__call__')
    raises = [nd for nd in f.stmts(ast.Raise)]
    run.check(not raises, 'R-VERB', f, 'monitor:no-explicit-raise', raises[0].lineno if raises else f.node.lineno,
              'the progress monitor never raises explicitly', 'Monitor.__call__ raises at line %s' % (raises[0].lineno if raises else ''),
              inputs='verbose=True', nontrivial=False)
    # a division by a state argument that call sites can pass as 0 needs a dominating early return on == 0
    # (total_state is positive at every call site: a length inside a loop over that collection, or 4^k; assumed)
    dom = f.dominators()
    for nd, s in ctx.all_subterms(f):
        if s[0] == 'bin' and s[1] in ('/', '//', '%') and s[3] == ('v', 'current_state', 'P'):
            guards = []
            for g in f.stmts(ast.Return):
                for atom, pol in ctx.conds(f, g):
                    if pol and atom[0] == 'cmp' and atom[1] == '==' and atom[2] == ('v', 'current_state', 'P') and atom[3] == ('c', 0):
                        guards.append(g.conds[-1][2])
            ok = any(gid in dom[nd.id] for gid in guards)
            if not ok:
                # the division sits under a test that current_state == 0 fails
                from ..finite import feval, UNKNOWN
                for atom, pol in ctx.conds(f, nd):
                    v_ = feval(atom, lambda x: 0 if x == ('v', 'current_state', 'P') else UNKNOWN)
                    if v_ is not UNKNOWN and bool(v_) != pol:
                        ok = True
            run.check(ok, 'R-VERB', f, 'monitor:division-by-current_state-guarded', nd.lineno,
                      'the division by current_state is dominated by the early return on current_state == 0',
                      "Monitor.__call__ divides by current_state without a dominating `current_state == 0` early return: "
                      "encode(verbose=True) calls monitor(total - len(quotient), total) with a first argument of 0 whenever a "
                      "division keeps the digit count, and raises ZeroDivisionError", inputs='verbose=True, messages such as 2, 20, 200')
            break
    seen = set()
    k = 0
    for nd, s in ctx.all_subterms(f):
        if s[0] == 'bin' and s[1] in ('/', '//', '%') and s not in seen:
            seen.add(s)
            dv = s[3]
            if dv[0] == 'c' and dv[1] not in (0, 0.0):
                continue
            if dv in (('v', 'current_state', 'P'), ('v', 'total_state', 'P')):
                continue        # current_state: guarded above; total_state: positive at every call site (assumed)
            if s[2][0] == 'c' and isinstance(s[2][1], str):
                continue        # "%04d" % (...) string formatting
            k += 1
            run.refute('R-VERB', f, 'monitor:derived-divisor#%d' % k, nd.lineno,
                       "Monitor.__call__ divides by %s, a derived quantity that is 0 for small arguments (e.g. fewer than 100 "
                       "states): ZeroDivisionError as soon as verbose=True is used on a small job" % show(dv)[:60],
                       inputs='verbose=True with a small number of states')
    # the values of `extra` are whatever the call sites pass (counts, numpy integers): they may only reach the text
    # through str() / format, never through string concatenation or str.join
    extra = ('v', 'extra', 'P')

    def from_extra(x):
        return x[0] in ('iter', 'item', 'sub') and any(y == extra for y in walk_term(x)) and \
            not any(is_call(y, 'builtins.str', 'builtins.repr', 'builtins.format') for y in walk_term(x))

    def stringish(x):
        return (x[0] == 'c' and isinstance(x[1], str)) or (x[0] == 'bin' and x[1] == '+' and (stringish(x[2]) or stringish(x[3]))) \
            or x[0] == 'fstr'
    bad = None
    for nd, s_ in ctx.all_subterms(f):
        if s_[0] == 'bin' and s_[1] == '+':
            for a, b in ((s_[2], s_[3]), (s_[3], s_[2])):
                if from_extra(a) and stringish(b):
                    bad = (nd.lineno, 'concatenates %s to a string' % show(a)[:40])
        if s_[0] == 'call' and s_[1][0] == 'attr' and s_[1][2] == 'join' and len(s_[2]) == 1 and s_[2][0][0] == 'comp' and \
                from_extra(s_[2][0][2]):
            bad = (nd.lineno, 'joins %s as if it were a string' % show(s_[2][0][2])[:40])
    run.check(bad is None, 'R-VERB', f, 'monitor:extra-values-only-through-str', bad[0] if bad else f.node.lineno,
              'values of `extra` reach the progress line only through str()',
              "Monitor.__call__ %s: the call sites pass counts (find_vertices: {'valid': sum(...)}, remove_useless: {'round': n}), so "
              "the progress output raises TypeError as soon as verbose=True is used there" % (bad[1] if bad else ''),
              inputs='find_vertices / remove_useless / latter_map_to_accessor with verbose=True', nontrivial=False)
    rets = [nd for nd in f.stmts(ast.Return) if nd.stmt.value is not None and
            not (isinstance(nd.stmt.value, ast.Constant) and nd.stmt.value.value is None)]
    run.check(not rets, 'R-VERB', f, 'monitor:returns-nothing', rets[0].lineno if rets else f.node.lineno,
              'the progress monitor returns nothing', 'Monitor.__call__ returns a value', nontrivial=False)
