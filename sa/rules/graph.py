"""Graph construction rules: R-SHIFT, R-KPLUMB, R-MASK, R-IFACE, R-ARC, R-ORD, R-FIX, R-ARB, R-LEGAL, R-BFS."""
import ast
import os
import re

from ..core import AnalysisError, TermBuilder, call_arg, call_name, is_call, show, walk_term, children
from ..ctx import flatten_cond, walk_path
from ..finite import UNKNOWN, feval
from ..kinds import acc_alloc, find_k_term, is_k_derivation, is_four

GRAMMAR_OPS = {'+', '-', '*', '//', '%', '**', '<<', '>>', '&', '|', '^'}


def strip_int(t):
    while is_call(t, 'builtins.int') and len(t[2]) == 1 and not t[3]:
        t = t[2][0]
    return t


def in_arith_grammar(t, syms):
    if t in syms:
        return True
    t = strip_int(t)
    if t[0] == 'c':
        return isinstance(t[1], int) and not isinstance(t[1], bool)
    if t in syms:
        return True
    if t[0] == 'bin' and t[1] in GRAMMAR_OPS:
        return in_arith_grammar(t[2], syms) and in_arith_grammar(t[3], syms)
    return False


def eval_arith(t, env):
    return feval(t, lambda x: env[x] if x in env else UNKNOWN)


def successor_verdict(term, u, j, K, kmax=4):
    """is `term` the shift-append successor (u*4 + j) mod 4^K ?  True / False (with a counter-example) / None (not arithmetic)"""
    su, sj = strip_int(u), strip_int(j)
    if K is None or not in_arith_grammar(term, (su, sj, K)):
        return None, None
    if not any(x == su for x in walk_term(term)) or not any(x == sj for x in walk_term(term)):
        return None, None
    for k in range(1, kmax + 1):
        for uv in range(4 ** k):
            for jv in range(4):
                v = eval_arith(term, {su: uv, sj: jv, K: k})
                if v is UNKNOWN:
                    return None, None
                if v != (uv * 4 + jv) % 4 ** k:
                    return False, (uv, jv, k, v)
    return True, None


def appended_terms(ctx, f):
    """for a list-building helper: (loop node, iter var term, appended term, list name) of the returned list"""
    rets = [nd for nd in f.stmts(ast.Return) if nd.stmt.value is not None]
    if len(rets) != 1 or not isinstance(rets[0].stmt.value, ast.Name):
        return None
    lst = rets[0].stmt.value.id
    out = []
    for nd in f.nodes:
        if nd.kind != 'stmt' or not isinstance(nd.stmt, ast.Expr):
            continue
        c = nd.stmt.value
        if isinstance(c, ast.Call) and isinstance(c.func, ast.Attribute) and c.func.attr == 'append' \
                and isinstance(c.func.value, ast.Name) and c.func.value.id == lst and len(c.args) == 1 and nd.loops:
            loop = f.nodes[nd.loops[-1]]
            out.append((loop, f.term(c.args[0], nd), nd))
    # list comprehension form: return [expr for j in range(4)]
    return lst, out


def r_shift(ctx, which=('obtain_latters', 'obtain_formers'), with_latter=False):
    run = ctx.run
    run.rule('R-SHIFT', "the j-th element produced by obtain_latters / obtain_formers (and `latter` in remove_nasty_arc) "
                        "is the shift-append / shift-prepend index: accepted normal forms (4c+j) mod 4^k, "
                        "(c mod 4^(k-1))*4+j, c//4 + j*4^(k-1); a term inside the integer-arithmetic grammar that "
                        "differs from the closed form on some (c, j, k) is refuted with that witness")
    c, K = ('v', 'current', 'P'), ('v', 'observed_length', 'P')
    for name in which:
        f = ctx.p.func('dsw.graphized.' + name)
        # the neighbour lists are total on the vertices of the graph: a raise is unreachable for every k >= 1 and 0 <= c < 4^k
        for rn in f.stmts(ast.Raise):
            if rn.kind != 'stmt':
                continue
            conds_ = ctx.conds(f, rn)
            verdict_, cex_ = 'unreachable', None
            for kv in range(1, 5):
                for cv in range(4 ** kv):
                    vals_ = [feval(a_, lambda x: {c: cv, K: kv}.get(x, UNKNOWN)) for a_, p_ in conds_]
                    if any(v_ is UNKNOWN for v_ in vals_):
                        verdict_ = 'open' if verdict_ != 'reachable' else verdict_
                        continue
                    if all(bool(v_) == p_ for v_, (a_, p_) in zip(vals_, conds_)):
                        verdict_, cex_ = 'reachable', (cv, kv)
                        break
                if verdict_ == 'reachable':
                    break
            if verdict_ == 'reachable':
                run.refute('R-SHIFT', f, 'total-on-the-graph', rn.lineno,
                           '%s raises for vertex %d at observed length %d, a vertex of the graph: every caller that lists the '
                           'neighbours of that vertex now fails' % (name, cex_[0], cex_[1]),
                           inputs='vertex %d, k = %d' % cex_)
            elif verdict_ == 'open':
                run.undecided('R-SHIFT', f, 'total-on-the-graph', rn.lineno, 'a raise in %s under conditions that are not evaluable' % name)
            else:
                run.ok('R-SHIFT', f, 'total-on-the-graph', rn.lineno, 'the raise is unreachable for 0 <= c < 4^k, k = 1..4')
        got = appended_terms(ctx, f)
        if not got or not got[1]:
            if check_list_form(ctx, f, name, c, K, 'succ' if name == 'obtain_latters' else 'pred'):
                continue
            raise AnalysisError("rule R-SHIFT lost its anchor: %s neither appends in a loop nor returns an evaluable list" % name)
        lst, apps = got
        if len(apps) != 1:
            raise AnalysisError("rule R-SHIFT: %s appends at %d sites" % (name, len(apps)))
        loop, term, nd = apps[0]
        from ..ctx import loop_vars
        lv = [t for t in loop_vars(f, loop).values() if t is not None and t[0] == 'iter' and is_call(t[1], 'builtins.range')]
        it = lv[0][1] if lv else f.term(loop.stmt.iter, loop)
        # the loop runs over something else than range(4) (a tuple of expressions, a counted-down range ...): the closed form is
        # evaluated over the values the loop variable actually takes, in order
        loopsyms = [x for x in walk_term(term) if x[0] == 'iter' and len(x) == 3 and x[2] == loop.id]
        jvals = None
        if loopsyms and len(set(loopsyms)) == 1 and not (lv and it[2] == (('c', 4),)):
            its_ = loopsyms[0][1]

            def jvals(env, its_=its_):
                if its_[0] in ('tuple', 'list'):
                    vals = [eval_arith(e_, env) for e_ in its_[1:]]
                elif is_call(its_, 'builtins.range') and not its_[3]:
                    args_ = [eval_arith(a_, env) for a_ in its_[2]]
                    if any(a_ is UNKNOWN or isinstance(a_, bool) or not isinstance(a_, int) for a_ in args_) or \
                            (len(args_) == 3 and args_[2] == 0):
                        return UNKNOWN
                    vals = list(range(*args_))
                else:
                    return UNKNOWN
                return UNKNOWN if any(v_ is UNKNOWN for v_ in vals) else vals
            if jvals({c: 1, K: 2}) is UNKNOWN:
                jvals = None
        if jvals is not None:
            run.ok('R-SHIFT', f, 'letter-range', loop.lineno, 'the loop values are enumerated by evaluation in the closed-form clause',
                   nontrivial=False)
            check_closed_form(ctx, f, name, term, c, loopsyms[0], K, nd.lineno, 'succ' if name == 'obtain_latters' else 'pred', jvals=jvals)
            j = None
        elif not lv:
            run.undecided('R-SHIFT', f, 'letter-range', loop.lineno, 'the letter loop iterates %s' % show(f.term(loop.stmt.iter, loop))[:60])
        else:
          run.check(bool(lv) and it[2] == (('c', 4),), 'R-SHIFT', f, 'letter-range', loop.lineno,
                  'letters enumerated as 0..3 in A,C,G,T order',
                  'the appended letter ranges over %s, not over the 4 letter indices' % show(f.term(loop.stmt.iter, loop)),
                  inputs='every vertex', nontrivial=False)
        if jvals is None:
            j = lv[0] if lv else ('iter', it, loop.id)
            check_closed_form(ctx, f, name, term, c, j, K, nd.lineno, 'succ' if name == 'obtain_latters' else 'pred')
        # all four are listed: the append is not conditioned on anything inside the letter loop
        inner = [(a, p) for a, p in ctx.conds(f, nd) if any(x[0] == 'iter' or x == c for x in walk_term(a))]
        inner = [(a, p) for a, p in inner if a not in [a2 for a2, p2 in ctx.conds(f, loop)]]
        run.check(not inner, 'R-SHIFT', f, 'all-four-listed', nd.lineno, 'one element per letter, unconditionally',
                  "%s lists a neighbour only when %s: some of the four shift neighbours are omitted (a homopolymer vertex is its own "
                  "%s), so `u precedes v` and `v succeeds u` no longer describe the same arcs"
                  % (name, ' and '.join(('' if p else 'not ') + show(a)[:40] for a, p in inner),
                     'successor' if name == 'obtain_latters' else 'predecessor'),
                  inputs='the vertices AA..A, CC..C, GG..G, TT..T (every vertex for k = 1)')
    if with_latter:
        f = ctx.p.func('dsw.spiderweb.remove_nasty_arc')
        Kt = find_k_term(f)
        found = 0
        from .graph2 import acc_stores as _acc_stores
        cleared = [(tg, v) for nd_, d_, tg, v in _acc_stores(ctx, f) if v == ('c', -1) and tg[0] == 'sub' and tg[1][0] == 'sub']
        for d in f.defs:
            if d.kind != 'assign':
                continue
            t = TermBuilder(f, d.node).def_term(d.id)
            if t is None:
                continue
            t0 = strip_int(t)
            if not (t0[0] == 'bin' and t0[1] == '%' and Kt is not None and is_pow4k(t0[3], Kt)):
                # another closed form of the successor of the cleared entry, decided by evaluation
                if cleared and t0[0] == 'bin':
                    verdict, cex = successor_verdict(t, cleared[0][0][1][2], cleared[0][0][2], Kt)
                    if verdict is True:
                        found += 1
                        run.ok('R-SHIFT', f, 'removed-arc-target', f.nodes[d.node].lineno,
                               'equal to (former*4 + column) mod 4^k for the cleared entry on every (former, column) for k <= 4',
                               extracted=show(t)[:200])
                    elif verdict is False:
                        found += 1
                        run.refute('R-SHIFT', f, 'removed-arc-target', f.nodes[d.node].lineno,
                                   'the removed arc target %s is %s for former %d, column %d, k = %d; the successor is %d'
                                   % (show(t)[:100], cex[3], cex[0], cex[1], cex[2], (cex[0] * 4 + cex[1]) % 4 ** cex[2]),
                                   extracted=show(t)[:200], inputs='former %d, column %d, k = %d' % cex[:3])
                continue
            found += 1
            check_latter(ctx, f, t, Kt, f.nodes[d.node].lineno)
        if not found:
            raise AnalysisError("rule R-SHIFT lost its anchor: removed-arc target in remove_nasty_arc")


def check_list_form(ctx, f, name, c, K, kind):
    """the function returns a whole list expression (list(range(..)), a comprehension over range(4)): evaluate it"""
    run = ctx.run
    rets = [nd for nd in f.stmts(ast.Return) if nd.stmt.value is not None]
    if len(rets) != 1:
        return False
    t = f.term(rets[0].stmt.value, rets[0])
    line = rets[0].lineno

    def ev(cv, k):
        env = {c: cv, K: k}
        if t[0] == 'comp' and t[1] == 'list' and len(t[3]) == 1 and not t[3][0][1]:
            it = feval(t[3][0][0], lambda x: env[x] if x in env else UNKNOWN)
            if it is UNKNOWN:
                return UNKNOWN
            out = []
            bound = [x for x in walk_term(t[2]) if x[0] == 'iter' and x[1] == t[3][0][0]]
            for jv in it:
                e2 = dict(env)
                for b in bound:
                    e2[b] = jv
                v = feval(t[2], lambda x: e2[x] if x in e2 else UNKNOWN)
                if v is UNKNOWN:
                    return UNKNOWN
                out.append(v)
            return out
        return feval(t, lambda x: env[x] if x in env else UNKNOWN)
    witness, n = None, 0
    for k in range(1, 5):
        for cv in range(4 ** k):
            n += 1
            got = ev(cv, k)
            if got is UNKNOWN:
                return False
            want = [reference(kind, cv, jv, k) for jv in range(4)]
            if list(got) != want:
                witness = (cv, k, got, want)
                break
        if witness:
            break
    run.count('cases', n)
    if witness:
        cv, k, got, want = witness
        run.refute('R-SHIFT', f, 'closed-form', line,
                   "%s(%d, %d) evaluates to %s; the shift-%s list is %s (term %s)"
                   % (name, cv, k, got, 'append' if kind == 'succ' else 'prepend', want, show(t)[:100]),
                   extracted=show(t)[:160], inputs='vertex %d at k=%d' % (cv, k))
    else:
        run.ok('R-SHIFT', f, 'closed-form', line, 'list expression equals the closed form for all vertices, k <= 4 (bounded)',
               extracted=show(t)[:160])
    return True


def reference(kind, c, j, k):
    if kind == 'succ':
        return (4 * c + j) % (4 ** k)
    return c // 4 + j * 4 ** (k - 1)


def check_closed_form(ctx, f, name, term, c, j, K, line, kind, jvals=None):
    run = ctx.run
    role = 'closed-form'
    syms = (c, j, K)
    if not in_arith_grammar(term, syms):
        run.undecided('R-SHIFT', f, role, line, 'term outside the integer-arithmetic grammar: ' + show(term))
        return
    witness = None
    n = 0
    for k in range(1, 6):
        for cv in range(4 ** k):
            vals = jvals({c: cv, K: k}) if jvals is not None else [0, 1, 2, 3]
            if vals is UNKNOWN:
                run.undecided('R-SHIFT', f, role, line, 'the values of the letter loop are not evaluable')
                return
            if len(vals) != 4:
                run.refute('R-SHIFT', f, role, line, '%s lists %d elements for vertex %d at k=%d, not one per letter' % (name, len(vals), cv, k),
                           inputs='vertex %d, k=%d' % (cv, k))
                return
            for jv in range(4):
                n += 1
                v = eval_arith(term, {c: cv, j: vals[jv], K: k})
                if v is UNKNOWN or v != reference(kind, cv, jv, k):
                    witness = (cv, jv, k, v, reference(kind, cv, jv, k))
                    break
            if witness:
                break
        if witness:
            break
    run.count('cases', n)
    if witness:
        cv, jv, k, v, r = witness
        run.refute('R-SHIFT', f, role, line,
                   "%s: element %d of vertex %d at k=%d evaluates to %s; the shift-%s index is %d (term %s)"
                   % (name, jv, cv, k, v, 'append' if kind == 'succ' else 'prepend', r, show(term)),
                   extracted=show(term), inputs='vertex %d, letter %d, k=%d' % (cv, jv, k))
    else:
        proven = normal_form(term, c, j, K, kind)
        run.ok('R-SHIFT', f, role, line,
               ('matches accepted normal form %s' % proven) if proven else
               'inside the arithmetic grammar and equal to the closed form on all (c, j) for k <= 5 (bounded)',
               extracted=show(term))


def normal_form(term, c, j, K, kind):
    t = strip_int(term)

    def pow4(x, off):
        x = strip_int(x)
        if x[0] == 'bin' and x[1] == '**' and x[2] == ('c', 4):
            e = x[3]
            if off == 0:
                return e == K
            return e == ('bin', '-', K, ('c', -off)) or e == ('bin', '+', K, ('c', off))
        return False

    def comm(x, op):
        return [(x[2], x[3]), (x[3], x[2])] if x[0] == 'bin' and x[1] == op else []
    if kind == 'succ':
        if t[0] == 'bin' and t[1] == '%' and pow4(t[3], 0):
            for a, b in comm(strip_int(t[2]), '+'):
                if b == j and any(p == c and q == ('c', 4) for p, q in comm(a, '*')):
                    return '(4c + j) mod 4^k'
        for a, b in comm(t, '+'):
            if b == j:
                for p, q in comm(a, '*'):
                    if q == ('c', 4) and p[0] == 'bin' and p[1] == '%' and p[2] == c and pow4(p[3], -1):
                        return '(c mod 4^(k-1))*4 + j'
    else:
        for a, b in comm(t, '+'):
            if a == ('bin', '//', c, ('c', 4)):
                for p, q in comm(b, '*'):
                    if p == j and pow4(q, -1):
                        return 'c//4 + j*4^(k-1)'
    return None


def check_latter(ctx, f, t, Kt, line):
    """latter = (former*4 + column) mod 4^k in remove_nasty_arc"""
    run = ctx.run
    t0 = strip_int(t)
    ok = False
    if t0[0] == 'bin' and t0[1] == '%':
        m = strip_int(t0[3])
        if m[0] == 'bin' and m[1] == '**' and m[2] == ('c', 4) and Kt is not None and m[3] == Kt:
            a = strip_int(t0[2])
            if a[0] == 'bin' and a[1] == '+':
                for p, q in ((a[2], a[3]), (a[3], a[2])):
                    if p[0] == 'bin' and p[1] == '*' and ('c', 4) in (p[2], p[3]):
                        ok = (p, q)
    why = 'the removed arc target is computed as %s, not (former*4 + column) mod 4^k' % show(t)[:160]
    if ok:
        # the row and the column must be those of the -1 store into the accessor
        from .graph2 import acc_stores
        p, q = ok
        row = p[2] if p[3] == ('c', 4) else p[3]
        stores = [(tg, v) for nd, d, tg, v in acc_stores(ctx, f) if v == ('c', -1) and tg[0] == 'sub' and tg[1][0] == 'sub']
        if not stores:
            ok = False
            why = 'no -1 store into the accessor to compare the removed arc with'
        else:
            tg = stores[0][0]
            if strip_int(row) != strip_int(tg[1][2]) or strip_int(q) != strip_int(tg[2]):
                ok = False
                why = ("the arc deleted from the latter map is (%s*4 + %s) mod 4^k but the accessor entry cleared is "
                       "[%s, %s]: the two views lose different arcs" % (show(row), show(q), show(tg[1][2]), show(tg[2])))
    run.check(bool(ok), 'R-SHIFT', f, 'removed-arc-target', line, '(former*4 + column) mod 4^k for the cleared entry',
              why, extracted=show(t)[:200], inputs='every arc removal')
    return ok


# ----------------------------------------------------------------------------------------------
def r_kplumb(ctx, fqs=None, floor=0):
    run = ctx.run
    run.rule('R-KPLUMB', "inside a function that has the observed length K in scope, every call of a dsw function with "
                         "an observed_length parameter (or dna_length when rendering a k-mer) passes that K - not a "
                         "literal, another variable or the callee's default")
    n = 0
    for fq in sorted(fqs or ctx.reachable()):
        f = ctx.p.func(fq)
        K = find_k_term(f)
        if K is None:
            continue
        k = 0
        for nd, c, callee, q in ctx.calls()[fq]:
            if callee is None:
                continue
            pname = None
            if 'observed_length' in callee.params:
                pname = 'observed_length'
            elif callee.name == 'number_to_dna':
                pname = 'dna_length'
            if pname is None:
                continue
            n += 1
            k += 1
            t = f.term(c, nd)
            pos = callee.positional.index(pname) if pname in callee.positional else None
            if t[0] == 'call' and (call_name(t) or '').split('.')[-1] == callee.name:
                arg = call_arg(t, pos, pname)
            else:
                # the call was replaced by the callee's body when the term was built: read the argument from the call itself
                a_ = next((kw.value for kw in c.keywords if kw.arg == pname), None)
                if a_ is None and pos is not None and pos < len(c.args) and not any(isinstance(x, ast.Starred) for x in c.args):
                    a_ = c.args[pos]
                try:
                    arg = f.term(a_, nd) if a_ is not None else None
                except AnalysisError:
                    continue
            role = '%s(%s)#%d' % (callee.name, pname, k)
            if arg is None:
                run.refute('R-KPLUMB', f, role, nd.lineno,
                           "%s is called without %s: the callee's default %s is used instead of the observed length in "
                           "scope" % (callee.name, pname, ast.unparse(callee.defaults[pname]) if pname in callee.defaults else '?'),
                           inputs='every observed length other than the default')
            elif arg == K or strip_int(arg) == K:
                run.ok('R-KPLUMB', f, role, nd.lineno, extracted=show(arg))
            else:
                run.refute('R-KPLUMB', f, role, nd.lineno,
                           "%s receives %s=%s; the observed length in scope is %s"
                           % (callee.name, pname, show(arg), show(K)), extracted=show(arg), expected=show(K),
                           inputs='every observed length for which %s differs from k' % show(arg))
    run.floor('R-KPLUMB', 'observed-length plumbing sites', n, floor)


# ----------------------------------------------------------------------------------------------
def mask_alloc(t):
    """zeros(shape=(int(4**K),), dtype=bool) -> rows term"""
    if is_call(t, 'numpy.zeros', 'numpy.full', 'numpy.empty'):
        shape = call_arg(t, 0, 'shape')
        if shape is not None:
            if shape[0] == 'tuple' and len(shape) == 2:
                return shape[1]
            if shape[0] != 'tuple':
                return shape
    return None


def is_pow4k(t, K):
    t = strip_int(t)
    return t[0] == 'bin' and t[1] == '**' and t[2] == ('c', 4) and t[3] == K


def r_mask(ctx):
    run = ctx.run
    run.rule('R-MASK', "find_vertices: the mask has 4^K entries, the loop ranges over all of them, entry i is the filter "
                       "verdict on number_to_dna(i, K), nothing else stores into the mask, the mask is returned")
    f = ctx.p.func('dsw.spiderweb.find_vertices')
    K = ('v', 'observed_length', 'P')
    stores = []
    for nd in f.nodes:
        for d in nd.defs:
            if d.kind == 'mutate' and isinstance(d.extra, ast.Subscript) and isinstance(nd.stmt, ast.Assign):
                tgt = f.term(ast.Subscript(d.extra.value, d.extra.slice, ast.Load()), nd)
                stores.append((nd, d, tgt, f.term(nd.stmt.value, nd)))
    verdict_stores = [s for s in stores if s[3][0] == 'call' and s[3][1][0] == 'attr' and s[3][1][2] == 'valid'
                      and s[3][1][1] == ('v', 'bio_filter', 'P')]
    if not verdict_stores:
        # the verdict compared by identity with True / False: a filter may return numpy.bool_ or a truthy value
        for s in stores:
            v = s[3]
            if v[0] == 'cmp' and v[1] in ('is', 'is not') and v[3] in (('c', True), ('c', False)) and v[2][0] == 'call' and \
                    v[2][1][0] == 'attr' and v[2][1][2] == 'valid':
                run.refute('R-MASK', f, 'verdict-stored-as-returned', s[0].lineno,
                           'the mask stores `%s`: a user-defined filter whose judgement is numpy.bool_(True) or another truthy value '
                           'marks nothing, and find_vertices raises "No vertex is collected" although k-mers are accepted'
                           % show(v)[:60], inputs='filters returning numpy booleans or non-bool truthy judgements')
                return
        raise AnalysisError("rule R-MASK lost its anchor: no store of bio_filter.valid(...) in find_vertices")
    # every execution fills the mask: the discovery loops together cover all cases (one unconditional loop, or one per
    # arm of a single test such as `if verbose`)
    cover = [frozenset((a, p) for a, p in ctx.conds(f, f.nodes[s[0].loops[-1]])) for s in verdict_stores if s[0].loops]
    covered = any(not c for c in cover) or any(len(a) == 1 and len(b) == 1 and next(iter(a))[0] == next(iter(b))[0] and
                                               next(iter(a))[1] != next(iter(b))[1] for a in cover for b in cover)
    if not covered:
        only = sorted({show(a)[:30] + ('' if p else ' is false') for c in cover for a, p in c})
        one_sided = len(cover) == 1 and len(cover[0]) == 1
        (run.refute if one_sided else run.undecided)(
            'R-MASK', f, 'mask-filled-on-every-path', verdict_stores[0][0].lineno,
            'the discovery loop only runs when %s: on the other path the mask stays all-zero whatever the filter accepts' % only,
            **({'inputs': 'calls on the other arm of that test'} if one_sided else {}))
    else:
        run.ok('R-MASK', f, 'mask-filled-on-every-path', verdict_stores[0][0].lineno, 'a discovery loop runs on every path')
    mask_name = verdict_stores[0][1].name
    for nd, d, tgt, val in verdict_stores:
        # allocation
        allocs = [TermBuilder(f, x.node).def_term(x.id) for x in f.defs if x.name == mask_name and x.kind == 'assign']
        rows = [mask_alloc(a) for a in allocs if a is not None]
        if not rows or rows[0] is None or len(rows) != 1:
            run.undecided('R-MASK', f, 'mask-size', nd.lineno, 'the allocation of the mask is not recognised: %s' % [show(a_)[:40] for a_ in allocs if a_])
        else:
          run.check(len(rows) == 1 and rows[0] is not None and is_pow4k(rows[0], K), 'R-MASK', f, 'mask-size', nd.lineno,
                  'mask allocated with 4^K entries',
                  'the mask is allocated with %s entries, not 4^observed_length' % [show(r) if r else None for r in rows],
                  inputs='every observed length')
        # loop range
        if not nd.loops:
            raise AnalysisError("R-MASK: verdict store outside a loop")
        loop = f.nodes[nd.loops[-1]]
        it = f.term(loop.stmt.iter, loop)
        from ..ctx import loop_vars
        full, i = False, None
        for name_, t in loop_vars(f, loop).items():
            if t is None:
                continue
            # index over the mask itself (range(len(mask)) / enumerate(mask)), or range(4^K)
            if t[0] == 'idx' and ((t[1][0] == 'v' and t[1][1] == mask_name) or t[1] in allocs):
                full, i = True, t
            elif t[0] == 'iter' and is_call(t[1], 'builtins.range') and len(t[1][2]) == 1 and is_pow4k(t[1][2][0], K):
                full, i = True, t
            elif t[0] == 'iter' and is_call(t[1], 'builtins.range') and len(t[1][2]) == 1 and t[1][2][0][0] == 'attr' and \
                    t[1][2][0][2] == 'size' and ((t[1][2][0][1][0] == 'v' and t[1][2][0][1][1] == mask_name) or t[1][2][0][1] in allocs):
                full, i = True, t
            elif i is None and t[0] in ('iter', 'idx'):
                i = t
        shifted = None
        if not full and is_call(it, 'builtins.range') and tgt[0] == 'sub':
            # decided by evaluation: for mask sizes N = 1, 2, 3, 5 the indices stored while the loop variable runs over the range
            # must be exactly 0 .. N-1
            def _size(x, _m=mask_name, _a=allocs):
                if is_call(x, 'builtins.len') and len(x[2]) == 1 and ((x[2][0][0] == 'v' and x[2][0][1] == _m) or x[2][0] in _a):
                    return True
                if x[0] == 'attr' and x[2] == 'size' and ((x[1][0] == 'v' and x[1][1] == _m) or x[1] in _a):
                    return True
                return is_pow4k(x, K)
            verdicts_ = []
            for N_ in (1, 2, 3, 5):
                at_ = lambda x, N_=N_: N_ if _size(x) else UNKNOWN
                args_ = [feval(a_, at_) for a_ in it[2]]
                if any(a_ is UNKNOWN or isinstance(a_, bool) or not isinstance(a_, int) for a_ in args_) or (len(args_) == 3 and args_[2] == 0):
                    verdicts_ = None
                    break
                got_ = []
                for x_ in range(*args_):
                    v_ = feval(tgt[2], lambda x, x_=x_, N_=N_: x_ if (x[0] == 'iter' and x[1] == it) else (N_ if _size(x) else UNKNOWN))
                    if v_ is UNKNOWN or isinstance(v_, bool) or not isinstance(v_, int):
                        got_ = None
                        break
                    got_.append(v_ + N_ if -N_ <= v_ < 0 else v_)
                if got_ is None:
                    verdicts_ = None
                    break
                verdicts_.append(sorted(got_) == list(range(N_)))
            if verdicts_ and all(verdicts_):
                full, shifted = True, tgt[2]
                i = tgt[2]          # the index of the round, as the store writes it
        partial = False
        if not full and is_call(it, 'builtins.range'):
            # a recognised partial range: explicit start, or a stop that is the full count minus something
            if len(it[2]) >= 2 and it[2][0] != ('c', 0):
                partial = True
            stop = it[2][-1] if len(it[2]) <= 2 else it[2][1]
            if stop[0] == 'bin' and stop[1] == '-' and stop[3][0] == 'c':
                partial = True
        if not full and not partial:
            run.undecided('R-MASK', f, 'loop-covers-all-indices', loop.lineno, 'loop range %s not recognised' % show(it)[:60])
        else:
          run.check(full, 'R-MASK', f, 'loop-covers-all-indices', loop.lineno, 'loop ranges over every index of the mask',
                  'the discovery loop ranges over %s, not over all 4^K indices' % show(it),
                  inputs='the k-mers the loop skips')
        idx_ok = tgt[0] == 'sub' and tgt[2] == i
        from .repair import affine as _aff
        ia_ = _aff(tgt[2]) if tgt[0] == 'sub' else None
        wit_idx = not idx_ok and ia_ is not None and i is not None and set(ia_) <= {i, 1} and ia_.get(i, 0) != 0
        if not idx_ok and not wit_idx:
            run.undecided('R-MASK', f, 'store-index', nd.lineno, 'the verdict is stored at %s, which is not the loop index in a recognised form' % show(tgt)[:60])
        else:
          run.check(idx_ok, 'R-MASK', f, 'store-index', nd.lineno, 'mask[i] is stored for the loop index i',
                  'the verdict is stored at %s, not at the loop index' % show(tgt), inputs='every k-mer')
        arg = val[2][0] if val[2] else (val[3][0][1] if val[3] else None)
        ok = arg is not None and call_name(arg) and call_name(arg).endswith('.number_to_dna') \
            and strip_int(call_arg(arg, 0, 'decimal_number')) == i and call_arg(arg, 1, 'dna_length') == K
        is_n2d = arg is not None and call_name(arg) is not None and call_name(arg).endswith('.number_to_dna')
        rev_ = arg is not None and any((x[0] == 'sub' and x[2] == ('slice', ('c', None), ('c', None), ('c', -1))) or
                                       is_call(x, 'builtins.reversed') for x in walk_term(arg))
        ser_ = _inline_render(f, arg, i, K) if arg is not None and not ok else None
        if ser_ is None and arg is not None and not ok:
            ser_ = _comp_render(arg, i, K)
        if ser_ == 'msb-first':
            run.ok('R-MASK', f, 'verdict-on-own-kmer', nd.lineno, 'the k-mer of the index is rendered digit by digit, most significant first')
        elif ser_ == 'lsb-first':
            run.refute('R-MASK', f, 'verdict-on-own-kmer', nd.lineno,
                       'the judged string is rendered from the index digit by digit, but each peeled digit (the LEAST significant remaining '
                       'one) is appended at the end: the filter judges the reversed k-mer, so mask[i] does not say whether the k-mer of '
                       'index i is valid', inputs='every k-mer that is not a palindrome')
        elif not ok and not is_n2d and not rev_:
            run.undecided('R-MASK', f, 'verdict-on-own-kmer', nd.lineno, 'the judged string %s is not number_to_dna(index, K) in a recognised form'
                          % (show(arg)[:60] if arg else None))
        else:
          run.check(bool(ok), 'R-MASK', f, 'verdict-on-own-kmer', nd.lineno, 'verdict is taken on number_to_dna(i, K)',
                  'the filter judges %s, not the k-mer of the index being stored' % (show(arg) if arg else None),
                  inputs='every k-mer')
    nd = verdict_stores[0][0]
    others = [s for s in stores if s[1].name == mask_name and s not in verdict_stores]
    run.check(not others, 'R-MASK', f, 'single-writer', nd.lineno, 'no other store into the mask',
              'the mask is also written at line %s' % (others[0][0].lineno if others else ''), inputs='all filters')
    rets = [r for r in f.stmts(ast.Return)]
    ok = rets and all(isinstance(r.stmt.value, ast.Name) and r.stmt.value.id == mask_name for r in rets)
    run.check(bool(ok), 'R-MASK', f, 'returns-mask', rets[0].lineno if rets else nd.lineno, 'the mask is returned',
              'find_vertices returns something other than the mask it filled', nontrivial=False)
    return val, nd


def _comp_render(arg, i, K):
    """''.join(ALPHA[D(i, p)] for p in range(K)): the digit expression D is evaluated for K = 1..3 and every index and position
    against the digit number_to_dna puts at string position p.  'msb-first' / 'lsb-first' / None"""
    from .walk import is_alpha
    t = arg
    if not (t[0] == 'call' and t[1][0] == 'attr' and t[1][2] == 'join' and len(t[2]) == 1 and t[2][0][0] == 'comp'):
        return None
    comp = t[2][0]
    if len(comp[3]) != 1 or comp[3][0][1]:
        return None
    it = comp[3][0][0]
    elt = comp[2]
    if not (is_call(it, 'builtins.range') and len(it[2]) == 1 and it[2][0] == K):
        return None
    if not (elt[0] == 'sub' and is_alpha(elt[1])):
        return None
    pos = [x for x in walk_term(elt[2]) if x[0] == 'iter' and x[1] == it]
    if not pos:
        return None
    pos = pos[0]
    si = strip_int(i)
    same = rev = True
    for k in (1, 2, 3):
        for iv in range(4 ** k):
            for p in range(k):
                v = feval(elt[2], lambda x: iv if x in (i, si) else (p if x == pos else (k if x == K else UNKNOWN)))
                if v is UNKNOWN:
                    return None
                if v != (iv // 4 ** (k - 1 - p)) % 4:
                    same = False
                if v != (iv // 4 ** p) % 4:
                    rev = False
    return 'msb-first' if same else ('lsb-first' if rev else None)


def _inline_render(f, arg, i, K):
    """S = ""; r = i; for _ in range(K): r, d = divmod(r, 4); S = ALPHA[d] + S   ->  'msb-first'
    the same with S = S + ALPHA[d] -> 'lsb-first'; anything else -> None"""
    if not (arg[0] == 'v' and isinstance(arg[2], tuple) and len(arg[2]) == 2):
        return None
    by_id = {d.id: d for d in f.defs}
    terms = {v: TermBuilder(f, by_id[v].node).def_term(v) for v in arg[2] if v in by_id}
    if len(terms) != 2:
        return None
    init = [v for v, t in terms.items() if t == ('c', '')]
    step = [v for v, t in terms.items() if t is not None and t[0] == 'bin' and t[1] == '+']
    if len(init) != 1 or len(step) != 1:
        return None
    sd = by_id[step[0]]
    sn = f.nodes[sd.node]
    if not sn.loops:
        return None
    L = f.nodes[sn.loops[-1]]
    if not isinstance(L.stmt, ast.For):
        return None
    it = f.term(L.stmt.iter, L)
    if not (is_call(it, 'builtins.range') and len(it[2]) == 1 and it[2][0] == K):
        return None
    if sn.loops[-1] in f.nodes[by_id[init[0]].node].loops:
        return None
    a, b = terms[step[0]][2], terms[step[0]][3]
    if a == arg:
        order, dig = 'lsb-first', b
    elif b == arg:
        order, dig = 'msb-first', a
    else:
        return None
    from .walk import is_alpha
    if not (dig[0] == 'sub' and is_alpha(dig[1]) and dig[2][0] == 'bin' and dig[2][1] == '%' and dig[2][3] == ('c', 4)):
        return None
    r = dig[2][2]
    if not (r[0] == 'v' and isinstance(r[2], tuple) and len(r[2]) == 2):
        return None
    rt = {v: TermBuilder(f, by_id[v].node).def_term(v) for v in r[2] if v in by_id}
    starts = [t for t in rt.values() if t is not None and strip_int(t) == i]
    divs = [t for t in rt.values() if t == ('bin', '//', r, ('c', 4))]
    if len(starts) != 1 or len(divs) != 1:
        return None
    # the digit is read before the remaining value is divided in the same round (tuple assignment / divmod) or in this order
    return order


def r_iface(ctx, val_nd=None):
    run = ctx.run
    run.rule('R-IFACE', "the filter is called only through the base interface DefaultBioFilter.valid(dna_string): "
                        "positional argument or a keyword of the base signature; every subclass in the package and in "
                        "the documentation's code blocks accepts that call")
    f = ctx.p.func('dsw.spiderweb.find_vertices')
    base = ctx.p.func('dsw.biofilter.DefaultBioFilter.valid')
    base_params = [p for p in base.positional if p != 'self']
    n = 0
    for nd, c, callee, q in ctx.calls()[f.fq]:
        if isinstance(c.func, ast.Attribute) and c.func.attr == 'valid' and isinstance(c.func.value, ast.Name) \
                and c.func.value.id == 'bio_filter':
            n += 1
            kws = [k.arg for k in c.keywords]
            bad = [k for k in kws if k not in base_params]
            run.check(not bad and len(c.args) + len(kws) == 1, 'R-IFACE', f, 'filter-call#%d' % n, nd.lineno,
                      'called with one argument through the base signature (%s)' % base_params,
                      "bio_filter.valid is called with keyword(s) %s; the documented interface is valid(%s): a "
                      "user-defined filter written after the documentation raises TypeError"
                      % (bad, ', '.join(base_params)), inputs='every user-defined filter')
            # subclasses in the package
            for fq2, g in ctx.p.funcs.items():
                if g.cls is not None and g.name == 'valid' and g is not base and \
                        any(isinstance(b, ast.Name) and b.id == 'DefaultBioFilter' for b in g.cls.bases):
                    pos = [p for p in g.positional if p != 'self']
                    required = [p for p in pos if p not in g.defaults]
                    accepts = (len(c.args) == 1 and not kws and len(required) <= 1 and len(pos) >= 1) or \
                              (kws and all(k in pos for k in kws) and all(r in kws for r in required))
                    run.check(accepts, 'R-IFACE', g, 'accepts-generator-call', g.node.lineno,
                              'subclass accepts the call made by find_vertices',
                              '%s.valid%s does not accept the call find_vertices makes' % (g.cls.name, tuple(pos)),
                              inputs='LocalBioFilter')
            # documentation examples
            doc = os.path.join(ctx.p.root, 'docs', 'source', 'customization.rst')
            if os.path.exists(doc):
                for cname, pos, required in doc_filter_classes(doc):
                    accepts = (len(c.args) == 1 and not kws and len(required) <= 1 and len(pos) >= 1) or \
                              (kws and all(k in pos for k in kws) and all(r in kws for r in required))
                    run.check(accepts, 'R-IFACE', f, 'documented-example:%s' % cname, nd.lineno,
                              'the documentation\'s example filter accepts the call',
                              "the documentation's example %s.valid(%s) does not accept the call bio_filter.valid(%s)"
                              % (cname, ', '.join(pos), ', '.join(['<arg>'] * len(c.args) + [k + '=' for k in kws])),
                              inputs='the filter from docs/source/customization.rst')
    run.floor('R-IFACE', 'filter calls in find_vertices', n, 1)


def doc_filter_classes(path):
    out = []
    with open(path, encoding='utf-8') as fh:
        text = fh.read()
    blocks = re.findall(r'\.\. code-block:: python\n\n((?:(?:    .*|\s*)\n)+)', text)
    for b in blocks:
        src = '\n'.join(l[4:] if l.startswith('    ') else l for l in b.split('\n'))
        try:
            tree = ast.parse(src)
        except SyntaxError:
            continue
        for n in ast.walk(tree):
            if isinstance(n, ast.ClassDef) and any(getattr(bb, 'id', getattr(bb, 'attr', '')) == 'DefaultBioFilter'
                                                   for bb in n.bases):
                for m in n.body:
                    if isinstance(m, ast.FunctionDef) and m.name == 'valid':
                        pos = [a.arg for a in m.args.args if a.arg != 'self']
                        nd = len(m.args.defaults)
                        required = pos[:len(pos) - nd] if nd else pos
                        out.append((n.name, pos, required))
    return out
