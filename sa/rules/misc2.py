"""R-CONV (number <-> bits / DNA), R-SHUF (shuffle table), R-PAIR (arc removal), R-REPR (C14 converters)."""
import ast

from ..core import AnalysisError, TermBuilder, call_arg, call_name, is_call, show, walk_term
from ..ctx import flatten_cond, walk_path, _as_load
from ..finite import UNKNOWN, feval
from ..kinds import ALPHA, find_k_term, is_four
from .repair import affine, aff_eq, aff_show
from .graph import strip_int, is_pow4k
from .graph2 import acc_stores
from .exc import _exc_type

NONE = ('c', None)


def _radix_ok(t, radix):
    """"2" / 2 / str(4) / 4 ..."""
    if t == ('c', radix) or t == ('c', str(radix)):
        return True
    return False


def _tri(run, ok, witness, rule, f, role, line, good, bad, **kw):
    """ok -> discharged; a positive witness of deviation -> refuted; a shape that is merely not recognised -> undecided"""
    if ok:
        return run.ok(rule, f, role, line, good, **{k: v for k, v in kw.items() if k != 'inputs'})
    if witness:
        return run.refute(rule, f, role, line, bad, **kw)
    return run.undecided(rule, f, role, line, 'construct not in a recognised form (%s)' % good)


def _arm_of(ctx, f, nd, how):
    """which representation reaches loop nd: evaluate its path conditions for the string and for the integer case
    (is_string True / False, or type(decimal_number) str / int).  -> 'string' | 'integer' | None (both or neither)"""
    from ..finite import feval, UNKNOWN
    conds = ctx.conds(f, nd)
    if how == 'flag' and not any(x == ('v', 'is_string', 'P') for a, p in conds for x in walk_term(a)):
        # no test on the flag above the loop: is it reached only after the other arm returned?  (guard-clause form)
        dom = f.dominators()
        for t_ in f.nodes:
            if t_.kind == 'test' and t_.id in dom[nd.id]:
                tt = f.term(t_.ast, t_)
                for pol_true in (True, False):
                    v = feval(tt, lambda x: pol_true if x == ('v', 'is_string', 'P') else UNKNOWN)
                    if v is UNKNOWN:
                        break
                else:
                    # the test is decided by the flag; the arm that always leaves (return / raise) excludes its polarity
                    for pol_true in (True, False):
                        taken = bool(feval(tt, lambda x: pol_true if x == ('v', 'is_string', 'P') else UNKNOWN))
                        arm_nodes = [x for x in f.nodes if any(tid == t_.id and p == taken for _, p, tid in x.conds)]
                        leaves = arm_nodes and not any(nd.id in f.reachable_from(x.id) for x in arm_nodes)
                        if leaves:
                            return 'integer' if pol_true else 'string'
        return None
    got = []
    for label, val in (('string', True if how == 'flag' else str), ('integer', False if how == 'flag' else int)):
        def atom(x, val=val):
            if how == 'flag':
                return val if x == ('v', 'is_string', 'P') else UNKNOWN
            if is_call(x, 'builtins.type') and len(x[2]) == 1 and x[2][0] == ('v', 'decimal_number', 'P'):
                return val
            if is_call(x, 'builtins.isinstance') and len(x[2]) == 2 and x[2][0] == ('v', 'decimal_number', 'P'):
                ty = x[2][1]
                tys = [ty] if ty[0] == 'g' else list(ty[1:]) if ty[0] == 'tuple' else []
                names = {'builtins.str': str, 'builtins.int': int}
                if tys and all(t[0] == 'g' and t[1] in names for t in tys):
                    return val in [names[t[1]] for t in tys]
                return UNKNOWN
            if x == ('g', 'builtins.str'):
                return str
            if x == ('g', 'builtins.int'):
                return int
            return UNKNOWN
        vs = [feval(a, atom) for a, p in conds]
        if any(v is UNKNOWN for v in vs):
            # a condition that does not depend on the representation is no obstacle
            vs = [v if v is not UNKNOWN else p for v, (a, p) in zip(vs, conds)]
        if all(bool(v) == p for v, (a, p) in zip(vs, conds)):
            got.append(label)
    return got[0] if len(got) == 1 else None


def r_conv(ctx):
    run = ctx.run
    _r_conv_tail(ctx)
    run.rule('R-CONV', "for bit_to_number / dna_to_number (string and integer path): accumulation acc*R + d over the "
                       "sequence in forward order with R = 2 / len(ALPHA); for number_to_bit / number_to_dna (string and "
                       "integer path): repeated division by R, digit inserted at the front, left pad with 0 / ALPHA[0] to "
                       "the requested width, type dispatch ends in ValueError")
    OP = 'dsw.operation.'
    # exactness at any length: no floating point and no native-int <-> str round trip inside the converters
    FLOAT_FUNCS = ('math.log', 'math.log2', 'math.log10', 'math.sqrt', 'math.pow', 'math.floor', 'math.ceil', 'numpy.log',
                   'numpy.log2', 'numpy.log10', 'numpy.sqrt', 'numpy.power', 'numpy.floor', 'numpy.ceil', 'builtins.float',
                   'builtins.round', 'builtins.pow')
    # the decimal-string helpers themselves: no whole-number int()/str() round trip, no fixed-width numpy arithmetic
    for name in ('calculus_addition', 'calculus_subtraction', 'calculus_multiplication', 'calculus_division'):
        f = ctx.p.func(OP + name, required=False)
        if f is None:
            continue
        bad = []
        chunked = []
        for nd, c, callee, q in ctx.calls()[f.fq]:
            if q == 'builtins.int' and len(c.args) == 1 and isinstance(c.args[0], ast.Name) and c.args[0].id == 'number':
                bad.append((nd.lineno, 'int(number) on the whole decimal string (CPython refuses more than 4300 digits)'))
            elif q == 'builtins.int' and len(c.args) == 1:
                a_ = f.term(c.args[0], nd)
                multi = (a_[0] == 'call' and a_[1][0] == 'attr' and a_[1][2] == 'join') or \
                    (a_[0] == 'sub' and a_[2][0] == 'slice' and a_[1] == ('v', 'number', 'P')) or \
                    (a_[0] == 'call' and a_[1][0] == 'attr' and a_[1][2] in ('lstrip', 'strip', 'rstrip') and
                     any(x == ('v', 'number', 'P') or (x[0] == 'call' and x[1][0] == 'attr' and x[1][2] == 'join') for x in walk_term(a_)))
                if multi:
                    bad.append((nd.lineno, 'int(%s) on a whole digit string (CPython refuses more than 4300 digits)' % show(a_)[:40]))
                elif any(x[0] == 'sub' and x[2][0] == 'slice' and x[1] == ('v', 'number', 'P') for x in walk_term(a_)):
                    chunked.append((nd.lineno, show(a_)[:50]))
            if q and q.startswith('numpy.'):
                bad.append((nd.lineno, 'fixed-width numpy arithmetic (%s)' % q))
        if not bad and chunked:
            # several decimal digits per step: exact only if every carry / zero run between the chunks is handled; that is the
            # arithmetic of C15 (not decidable here), so the converters that rest on this helper are not decided either
            run.undecided('R-CONV', f, 'digit-serial', chunked[0][0],
                          '%s consumes its operand in multi-digit chunks (int(%s)): its exactness is arithmetic this analysis does not '
                          'decide' % (name, chunked[0][1]))
            continue
        run.check(not bad, 'R-CONV', f, 'digit-serial', bad[0][0] if bad else f.node.lineno, 'works digit by digit',
                  '%s no longer works digit by digit: %s' % (name, bad[0][1] if bad else ''),
                  inputs='numbers of more than 4300 decimal digits (a 14.3 kbit payload)', nontrivial=False)
    for name in ('bit_to_number', 'dna_to_number', 'number_to_bit', 'number_to_dna'):
        f = ctx.p.func(OP + name)
        bad = []
        for nd, c, callee, q in ctx.calls()[f.fq]:
            if q and q.startswith('numpy.') and q not in ('numpy.array', 'numpy.asarray'):
                bad.append((nd.lineno, 'fixed-width numpy arithmetic %s (int64 wraps silently)' % q))
        for nd, c, callee, q in ctx.calls()[f.fq]:
            if q == 'builtins.int' and len(c.args) == 1 and name in ('number_to_bit', 'number_to_dna'):
                a_ = f.term(c.args[0], nd)
                if a_ == ('v', 'decimal_number', 'P') and not any(
                        a2[0] == 'cmp' and a2[1] in ('==', 'is') and p2 and ('g', 'builtins.int') in (a2[2], a2[3])
                        for a2, p2 in ctx.conds(f, nd)):
                    bad.append((nd.lineno, 'int(decimal_number) parses the whole decimal string at once (CPython refuses more than 4300 '
                                           'digits: a 14.3 kbit payload), where the string form was processed digit by digit'))
        seen = set()
        for nd, s in ctx.all_subterms(f):
            if s in seen:
                continue
            seen.add(s)
            if s[0] == 'bin' and s[1] == '/':
                bad.append((nd.lineno, 'true division %s' % show(s)[:50]))
            if s[0] == 'call' and call_name(s) in FLOAT_FUNCS:
                bad.append((nd.lineno, 'floating-point call %s' % show(s)[:50]))
            if s[0] == 'c' and isinstance(s[1], float):
                bad.append((nd.lineno, 'float constant %r' % (s[1],)))
        run.check(not bad, 'R-CONV', f, 'no-floating-point', bad[0][0] if bad else f.node.lineno,
                  'integer / decimal-string arithmetic only',
                  "%s leaves exact integer / decimal-string arithmetic (%s): results differ from the exact value once the number "
                  "exceeds 2^53 (floats) or 2^63 (int64)" % (name, '; '.join(b[1] for b in bad[:2])),
                  inputs='numbers just below a power of the radix beyond 2^53; sequences of 32 symbols and more')
        parsers = []
        for nd, c, callee, q in ctx.calls()[f.fq]:
            if q == 'builtins.int' and isinstance(c.func, ast.Name):
                if len(c.args) == 2 or any(k.arg == 'base' for k in c.keywords):
                    parsers.append((nd.lineno, 'int(text, base) raises ValueError on the empty sequence'))
                elif len(c.args) == 1 and isinstance(c.args[0], ast.Name) and c.args[0].id in f.params:
                    for atom, pol in ctx.conds(f, nd):
                        if pol and atom[0] == 'cmp' and atom[1] in ('==', 'is') and is_call(atom[2], 'builtins.type') \
                                and atom[3] == ('g', 'builtins.str'):
                            parsers.append((nd.lineno, 'int(<decimal string>) is limited to 4300 digits by CPython (>= 3.11)'))
        run.check(not parsers, 'R-CONV', f, 'no-native-parser', parsers[0][0] if parsers else f.node.lineno,
                  'no int(text[, base]) shortcut on a sequence / decimal-string argument',
                  "%s converts through Python's integer parser (%s): the conversion is no longer total at every length"
                  % (name, parsers[0][1] if parsers else ''), inputs='the empty sequence / numbers beyond 4300 decimal digits')
        if name in ('bit_to_number', 'dna_to_number'):
            # string-typed result must come from the decimal-string helpers, not from str(<native int>)
            strs = []
            for nd in f.stmts(ast.Return):
                t = f.term(nd.stmt.value, nd)
                for x in walk_term(t):
                    if is_call(x, 'builtins.str', 'builtins.repr') and x[2] and x[2][0][0] == 'v':
                        strs.append((nd.lineno, show(x)[:40]))
            run.check(not strs, 'R-CONV', f, 'string-path-uses-decimal-helpers', strs[0][0] if strs else f.node.lineno,
                      'no str(<integer accumulator>) in a returned value',
                      "%s returns %s: str() of a native integer is limited to 4300 digits by CPython (>= 3.11), so the "
                      "string-typed path raises ValueError for long inputs and no longer matches the integer path"
                      % (name, strs[0][1] if strs else ''), inputs='sequences longer than about 7000 nucleotides / 14000 bits')
    for name, radix, seqparam in (('bit_to_number', 2, 'bit_array'), ('dna_to_number', 4, 'dna_sequence')):
        f = ctx.p.func(OP + name)
        loops = [nd for nd in f.nodes if nd.kind == 'for']
        n = 0
        # the empty sequence has value 0: no element of the sequence is read by position outside a length / emptiness guard
        bad = []
        for nd_, x in ctx.all_subterms(f):
            derived = x[0] == 'sub' and x[2][0] == 'c' and isinstance(x[2][1], int) and x[1] != ('v', seqparam, 'P') and \
                (is_call(x[1], 'builtins.list', 'builtins.tuple', 'numpy.array') or x[1][0] == 'comp') and \
                any(y == ('v', seqparam, 'P') for y in walk_term(x[1]))
            if (x[0] == 'sub' and x[1] == ('v', seqparam, 'P') and x[2][0] == 'c' and isinstance(x[2][1], int)) or derived:
                guarded = any(any(y == ('v', seqparam, 'P') for y in walk_term(a)) for a, p_ in ctx.conds(f, nd_))
                if not guarded and not nd_.loops:
                    bad.append((nd_.lineno, show(x)))
        run.check(not bad, 'R-CONV', f, 'empty-sequence-is-zero', bad[0][0] if bad else f.node.lineno,
                  'no positional read of the sequence outside a loop / guard',
                  '%s reads %s unconditionally: the empty sequence (value 0) raises IndexError' % (name, bad[0][1] if bad else ''),
                  inputs='the empty sequence', nontrivial=False)
        # digits taken from a numpy array are fixed-width integers: acc * R + d silently becomes int64 and wraps
        for nd in loops:
            if _arm_of(ctx, f, nd, 'flag') == 'string':
                continue
            it = f.term(nd.stmt.iter, nd)
            src = it[2][0] if is_call(it, 'builtins.enumerate') and it[2] else it
            if is_call(src, 'numpy.array', 'numpy.asarray', 'numpy.fromiter', 'numpy.frombuffer') or \
                    (src[0] == 'call' and src[1][0] == 'attr' and src[1][2] == 'astype'):
                conv = False
                for p_, k_ in ctx.body_paths(f, nd.id):
                    for e in walk_path(f, p_)[0]:
                        if e.kind in ('def', 'aug') and e.term[0] == 'bin' and e.term[1] == '+' and \
                                any(is_call(y, 'builtins.int') and y[2] and y[2][0][0] == 'iter' for y in (e.term[2], e.term[3])):
                            conv = True
                if not conv:
                    run.refute('R-CONV', f, 'integer:exact-digits', nd.lineno,
                               '%s (integer path) accumulates digits iterated from %s: the elements are numpy int64, the accumulator '
                               'becomes int64 after the first step and wraps at 2^63, so the integer path no longer equals the '
                               'string path' % (name, show(src)[:50]),
                               inputs='sequences whose value reaches 2^63 (32 nucleotides / 64 bits and more)')
        for nd in loops:
            body = {x.id for x in f.nodes if nd.id in x.loops}
            it = f.term(nd.stmt.iter, nd)
            src = it[2][0] if is_call(it, 'builtins.enumerate') and it[2] else it
            arm = _arm_of(ctx, f, nd, 'flag')
            arms = [arm] if arm else []
            if arm is None:
                # one loop serving both representations: the body branches on the flag
                from ..ctx import path_feasible
                tests_flag = any(x == ('v', 'is_string', 'P') for b_ in body if f.nodes[b_].kind == 'test'
                                 for x in walk_term(f.term(f.nodes[b_].ast, f.nodes[b_])))
                if tests_flag:
                    arms = ['string', 'integer']
            for arm in arms:
                fused = len(arms) == 2
                n += 1
                # forward order over the sequence (or over the values mapped from it)
                fwd = src == ('v', seqparam, 'P') or (src[0] in ('call',) and any(x == ('v', seqparam, 'P') for x in walk_term(src))
                                                       and not any(is_call(x, 'builtins.reversed') or
                                                                   (x[0] == 'sub' and x[2] == ('slice', NONE, NONE, ('c', -1)))
                                                                   for x in walk_term(src)))
                rev = any(is_call(x, 'builtins.reversed') or (x[0] == 'sub' and x[2] == ('slice', NONE, NONE, ('c', -1)))
                          for x in walk_term(src))
                fwd = not rev and any(x == ('v', seqparam, 'P') for x in walk_term(src))
                _tri(run, fwd, rev, 'R-CONV', f, '%s:forward-order' % arm, nd.lineno, 'most significant symbol first',
                          '%s (%s path) iterates %s: the sequence must be accumulated in forward order' % (name, arm, show(src)[:60]),
                          inputs='every non-palindromic input')
                # accumulation
                ok, why, wit = False, 'no accumulation found', False
                for p, k in ctx.body_paths(f, nd.id):
                    if k != 'back':
                        continue
                    if fused and path_feasible(f, p, atom=lambda x, v=(arm == 'string'): v if x == ('v', 'is_string', 'P') else UNKNOWN) is False:
                        continue
                    events, env = walk_path(f, p)
                    for e in events:
                        if e.kind not in ('def', 'aug'):
                            continue
                        t = e.term
                        if arm == 'integer' and t[0] == 'bin' and t[1] == '+':
                            for a, b in ((t[2], t[3]), (t[3], t[2])):
                                from .graph2 import _elemify
                                if a[0] == 'bin' and a[1] == '*' and a[2][0] == 'v' and a[2][1] == e.name and _radix_ok(a[3], radix) \
                                        and (b[0] == 'iter' or _elemify(b)[0] == 'iter'):
                                    ok = True
                                elif a[0] == 'bin' and a[1] == '*' and a[2][0] == 'v' and a[2][1] == e.name and a[3][0] == 'c' \
                                        and not _radix_ok(a[3], radix):
                                    why, wit = 'integer path multiplies by %s, radix is %d' % (show(a[3]), radix), True
                        if arm == 'string' and call_name(t) and call_name(t).endswith('.calculus_addition'):
                            num, base = call_arg(t, 0, 'number'), call_arg(t, 1, 'base')
                            if num is not None and call_name(num) and call_name(num).endswith('.calculus_multiplication'):
                                mb = call_arg(num, 1, 'base')
                                mn = call_arg(num, 0, 'number')
                                from .graph2 import _elemify
                                if _radix_ok(mb, radix) and mn[0] == 'v' and mn[1] == e.name and is_call(base, 'builtins.str') \
                                        and base[2] and (base[2][0][0] == 'iter' or _elemify(base[2][0])[0] == 'iter'):
                                    ok = True
                                elif mb is not None and mb[0] == 'c' and not _radix_ok(mb, radix):
                                    why, wit = 'string path multiplies by %s, radix is %d' % (show(mb), radix), True
                _tri(run, ok, wit and not ok, 'R-CONV', f, '%s:acc*R+d' % arm, nd.lineno, 'acc <- acc * %d + digit' % radix,
                          '%s (%s path): %s; required acc * %d + digit' % (name, arm, why, radix), inputs='every input longer than one symbol')
        # functools.reduce(lambda acc, d: acc * R + d, digits, 0) is the integer accumulation without a loop
        for nd in f.nodes:
            if nd.kind != 'stmt' or not isinstance(nd.stmt, (ast.Assign, ast.Return)) or nd.stmt.value is None:
                continue
            t = f.term(nd.stmt.value, nd)
            if not is_call(t, 'functools.reduce') or len(t[2]) < 2 or t[2][0][0] != 'lambda' or t[2][0][1] != 2:
                continue
            arm = _arm_of(ctx, f, nd, 'flag')
            if arm is None:
                continue
            n += 1
            body, seq = t[2][0][2], t[2][1]
            acc, dig = None, None
            okr = False
            wit = None
            if body[0] == 'bin' and body[1] == '+':
                for a, b in ((body[2], body[3]), (body[3], body[2])):
                    if a[0] == 'bin' and a[1] == '*' and a[2][0] == 'b' and b[0] == 'b' and a[2] != b:
                        acc, dig = a[2], b
                        if _radix_ok(a[3], radix):
                            okr = acc[1] < dig[1]          # the accumulator is the first lambda parameter
                            if not okr:
                                wit = 'the lambda multiplies its second parameter (the digit), not the accumulator'
                        elif a[3][0] == 'c':
                            wit = 'multiplies by %s, radix is %d' % (show(a[3]), radix)
            init_ok = len(t[2]) == 3 and t[2][2] == ('c', 0)
            rev = any(is_call(x, 'builtins.reversed') or (x[0] == 'sub' and x[2] == ('slice', NONE, NONE, ('c', -1)))
                      for x in walk_term(seq))
            fwd = not rev and any(x == ('v', seqparam, 'P') for x in walk_term(seq))
            _tri(run, fwd, rev, 'R-CONV', f, '%s:forward-order' % arm, nd.lineno, 'most significant symbol first',
                 '%s (%s path) reduces over %s: the sequence must be accumulated in forward order' % (name, arm, show(seq)[:60]),
                 inputs='every non-palindromic input')
            _tri(run, okr and init_ok, wit is not None, 'R-CONV', f, '%s:acc*R+d' % arm, nd.lineno,
                 'reduce(lambda acc, d: acc * %d + d, digits, 0)' % radix,
                 '%s (%s path): %s; required acc * %d + digit' % (name, arm, wit, radix), inputs='every input longer than one symbol')
        run.floor('R-CONV', 'accumulation loops of %s' % name, n, 2)
    for name, radix, zero in (('number_to_bit', 2, 0), ('number_to_dna', 4, 'A')):
        f = ctx.p.func(OP + name)
        n = 0
        for nd in f.nodes:
            if nd.kind != 'while':
                continue
            arm = _arm_of(ctx, f, nd, 'type')
            if arm is None:
                # one loop for both representations (the division itself is dispatched inside): still a digit loop
                body_ = {x.id for x in f.nodes if nd.id in x.loops}
                if any(isinstance(d.extra, ast.Attribute) and d.extra.attr in ('insert', 'append') for x in f.nodes
                       if x.id in body_ for d in x.defs if d.kind == 'mutate'):
                    arm = 'merged'
                else:
                    continue
            # `while True: ...digit...; if n == 0: break`: the digit is produced before the test, so 0 renders as one digit
            if isinstance(nd.ast, ast.Constant) and nd.ast.value is True:
                dom_ = f.dominators()
                body_ = {x.id for x in f.nodes if nd.id in x.loops}
                emits = [x.id for x in f.nodes if x.id in body_ for d in x.defs
                         if d.kind == 'mutate' and isinstance(d.extra, ast.Attribute) and d.extra.attr in ('insert', 'append')]
                for x in f.nodes:
                    if x.id in body_ and isinstance(x.stmt, ast.Break) and x.loops[-1] == nd.id and x.conds:
                        tid = x.conds[-1][2]
                        if any(e_ in dom_[tid] for e_ in emits):
                            run.refute('R-CONV', f, '%s:zero-renders-as-no-digit' % arm, x.lineno,
                                       '%s produces a digit before it tests whether the number is exhausted (do-while): the number 0 '
                                       'renders as one digit, so a width of 0 gives a non-empty result and set_vt(strand, 1) returns two '
                                       'symbols' % name, inputs='the number 0 with width 0 (check length 1)')
            if arm == 'merged':
                continue
            n += 1
            ok_div = ok_front = ok_digit = False
            why = ''
            wit_div = wit_front = False
            wit_digit = None
            for p, k in ctx.body_paths(f, nd.id):
                if k != 'back':
                    continue
                events, env = walk_path(f, p)
                for e in events:
                    if e.kind == 'def' and e.term[0] == 'item' and e.term[2] == 0:
                        c = e.term[1]
                        if arm == 'string' and call_name(c) and call_name(c).endswith('.calculus_division'):
                            bs = call_arg(c, 1, 'base')
                            ok_div = _radix_ok(bs, radix)
                            why = 'divides by %s' % show(bs)
                            wit_div = bs is not None and bs[0] == 'c' and not ok_div
                    if e.kind in ('def', 'aug') and arm == 'integer' and e.term[0] == 'bin' and e.term[1] == '//' and \
                            e.term[2][0] == 'v' and e.term[2][1] == e.name:
                        ok_div = _radix_ok(e.term[3], radix)        # n, r = divmod(n, R)  /  n //= R
                        why = 'divides by %s' % show(e.term[3])
                        wit_div = e.term[3][0] == 'c' and not ok_div
                    if e.kind in ('def', 'aug') and arm == 'integer' and e.term[0] == 'bin' and e.term[1] == '>>' and \
                            e.term[2][0] == 'v' and e.term[2][1] == e.name and e.term[3][0] == 'c':
                        ok_div = radix == 2 ** e.term[3][1] if isinstance(e.term[3][1], int) and 0 < e.term[3][1] < 8 else False
                        why = 'shifts right by %s' % show(e.term[3])
                        wit_div = not ok_div
                    if e.kind in ('insert', 'append'):
                        dg = e.term[1] if e.kind == 'insert' and len(e.term) > 1 else e.term[0]
                        if dg[0] == 'sub' and dg[1] == ('c', ALPHA):
                            dg = dg[2]
                        dg = strip_int(dg)
                        if arm == 'integer':
                            # the digit is the remainder of the number *before* this round's division
                            if dg[0] == 'bin' and dg[1] == '//' or (dg[0] == 'item' and dg[2] == 0):
                                wit_digit = 'the quotient (%s) is stored as the digit' % show(dg)[:40]
                            elif dg[0] == 'bin' and dg[1] == '%' and dg[2][0] == 'v' and isinstance(dg[2][2], tuple):
                                ok_digit = _radix_ok(dg[3], radix)
                                if not ok_digit and dg[3][0] == 'c':
                                    wit_digit = 'the digit is taken modulo %s, radix is %d' % (show(dg[3]), radix)
                            elif dg[0] == 'bin' and dg[1] == '&' and dg[2][0] == 'v' and isinstance(dg[2][2], tuple) and dg[3][0] == 'c':
                                ok_digit = dg[3][1] == radix - 1 and radix in (2, 4)
                                if not ok_digit:
                                    wit_digit = 'the digit is masked with %s, radix is %d' % (show(dg[3]), radix)
                        else:
                            if dg[0] == 'item' and dg[2] == 1 and call_name(dg[1]) and call_name(dg[1]).endswith('.calculus_division'):
                                ok_digit = True
                            elif dg[0] == 'item' and dg[2] == 0 and call_name(dg[1]) and call_name(dg[1]).endswith('.calculus_division'):
                                wit_digit = 'the quotient of calculus_division is stored as the digit'
                    if e.kind == 'insert':
                        ok_front = e.term[0] == ('c', 0)
                        digit = e.term[1]
                        if name == 'number_to_dna':
                            direct = digit[0] == 'sub' and digit[1] == ('c', ALPHA)
                            # two-stage form: integer digits are collected, then mapped  ALPHA[d] for d in digits
                            mapped = any(x[0] == 'comp' and x[2][0] == 'sub' and x[2][1] == ('c', ALPHA) and x[2][2][0] == 'iter'
                                         and len(x[3]) == 1 and not x[3][0][1]
                                         for _n, x in ctx.all_subterms(f))
                            ok_front = ok_front and (direct or mapped)
                    if e.kind == 'append':
                        why = 'digit appended at the end'
                        # appended digits are fine when the list is reversed (once) afterwards
                        src_txt = ast.unparse(f.node)
                        wit_front = not ('.reverse()' in src_txt or '[::-1]' in src_txt or 'reversed(' in src_txt)
                        lst = e.name
                        nrev = 0
                        for _n, x in ctx.all_subterms(f):
                            if (is_call(x, 'builtins.reversed') and x[2] and x[2][0][0] == 'v' and x[2][0][1] == lst) or \
                                    (x[0] == 'sub' and x[2] == ('slice', NONE, NONE, ('c', -1)) and x[1][0] == 'v' and x[1][1] == lst):
                                nrev += 1
                        nrev += sum(1 for c_ in ast.walk(f.node) if isinstance(c_, ast.Call) and isinstance(c_.func, ast.Attribute)
                                    and c_.func.attr == 'reverse' and isinstance(c_.func.value, ast.Name) and c_.func.value.id == lst)
                        dgt = e.term[0]
                        mapped_ = any(x[0] == 'comp' and x[2][0] == 'sub' and x[2][1] == ('c', ALPHA) and x[2][2][0] == 'iter'
                                      and len(x[3]) == 1 and not x[3][0][1] for _n, x in ctx.all_subterms(f))
                        letter_ok = name != 'number_to_dna' or (dgt[0] == 'sub' and dgt[1] == ('c', ALPHA)) or mapped_
                        if nrev >= 1 and letter_ok:
                            # the same reversal must serve every arm; one syntactic reversal of the list is what is accepted
                            ok_front = True
            _tri(run, ok_div, wit_div, 'R-CONV', f, '%s:divide-by-%d' % (arm, radix), nd.lineno, 'repeated division by %d' % radix,
                      '%s (%s path) %s; radix is %d' % (name, arm, why, radix), inputs='every number >= the radix')
            _tri(run, ok_digit, wit_digit is not None, 'R-CONV', f, '%s:digit-is-remainder' % arm, nd.lineno,
                 'the stored digit is the remainder of the division by %d' % radix,
                 '%s (%s path): %s' % (name, arm, wit_digit), inputs='every number >= the radix')
            _tri(run, ok_front, wit_front, 'R-CONV', f, '%s:digit-at-front' % arm, nd.lineno, 'each digit is inserted at the front',
                      '%s (%s path) does not insert each digit at position 0 (%s): the rendering is not big-endian' % (name, arm, why),
                      inputs='every number with two or more digits')
        run.floor('R-CONV', 'division loops of %s' % name, n, 2)
        # dispatch raise
        rs = [nd for nd in f.stmts(ast.Raise)]
        width_ = ('v', 'bit_length' if name == 'number_to_bit' else 'dna_length', 'P')
        for r in rs:
            about_width = [a for a, p in ctx.conds(f, r) if any(x == width_ for x in walk_term(a))]
            if about_width:
                run.refute('R-CONV', f, 'no-raise-on-the-width', r.lineno,
                           '%s raises when %s: every width is rendered (width 0 gives the empty result for the number 0, which '
                           'set_vt needs for a check of one symbol)' % (name, show(about_width[0])[:50]),
                           inputs='width 0 (set_vt with vt_length = 1), width below the number of digits')
        for nd_ in f.nodes:
            if nd_.loops or nd_.kind != 'stmt':
                continue
            for d in nd_.defs:
                if d.kind == 'mutate' and isinstance(d.extra, ast.Attribute) and d.extra.attr in ('append', 'insert') and d.value is not None:
                    t_ = f.term(d.value, nd_)
                    arg_ = t_[2][-1] if t_[2] else None
                    zero_sym = arg_ in (('c', 0), ('c', 'A'), ('sub', ('c', ALPHA), ('c', 0)))
                    empt = any(is_call(x, 'builtins.len') or x == ('list',) or x == ('c', '') for a, p in ctx.conds(f, nd_) for x in walk_term(a))
                    digit_lists = {d2.name for x2 in f.nodes if x2.loops for d2 in x2.defs
                                   if d2.kind == 'mutate' and isinstance(d2.extra, ast.Attribute) and d2.extra.attr in ('append', 'insert')}
                    is_digit = arg_ is not None and not zero_sym and arg_[0] != 'c' and d.name in digit_lists
                    if is_digit and not empt:
                        run.refute('R-CONV', f, 'zero-renders-as-no-digit', nd_.lineno,
                                   '%s emits a digit outside its division loop, whatever is left of the number: the number 0 renders as '
                                   'one digit, so a width of 0 gives a non-empty result and set_vt(strand, 1) returns two symbols' % name,
                                   inputs='the number 0 with width 0 (check length 1)')
                    if zero_sym and empt:
                        run.refute('R-CONV', f, 'zero-renders-as-no-digit', nd_.lineno,
                                   '%s puts a zero symbol into an empty digit list: the number 0 renders as one digit, so a width of 0 '
                                   'gives a non-empty result and set_vt(strand, 1) returns two symbols' % name,
                                   inputs='the number 0 with width 0 (check length 1)')
        ZERO_ = (('c', 0), ('c', 'A'), ('c', '0'), ('sub', ('c', ALPHA), ('c', 0)))
        digit_lists_ = {d2.name for x2 in f.nodes if x2.loops for d2 in x2.defs
                        if d2.kind == 'mutate' and isinstance(d2.extra, ast.Attribute) and d2.extra.attr in ('append', 'insert')}
        ret_names_ = {n_.id for r_ in f.stmts(ast.Return) if r_.stmt.value is not None for n_ in ast.walk(r_.stmt.value)
                      if isinstance(n_, ast.Name)}
        for nd_ in f.nodes:
            if nd_.loops or nd_.kind != 'stmt':
                continue
            empt_ = any(is_call(x, 'builtins.len') or x == ('list',) or x == ('c', '') for a, p in ctx.conds(f, nd_) for x in walk_term(a))
            for d in nd_.defs:
                if d.kind == 'assign' and d.value is not None and (d.name in digit_lists_ or d.name in ret_names_):
                    t_ = TermBuilder(f, d.node).def_term(d.id)
                    if empt_ and t_ is not None and (t_ in ZERO_ or (t_[0] == 'list' and len(t_) == 2 and t_[1] in ZERO_)):
                        run.refute('R-CONV', f, 'zero-renders-as-no-digit', nd_.lineno,
                                   '%s replaces an empty digit sequence by the zero symbol: the number 0 renders as one digit, so a width of '
                                   '0 gives a non-empty result and set_vt(strand, 1) returns two symbols' % name,
                                   inputs='the number 0 with width 0 (check length 1)')
            for n2, r_, t_ in ctx.root_terms(f):
                if n2.id != nd_.id:
                    continue
                for x in walk_term(t_):
                    if x[0] == 'bool' and x[1] == 'or' and len(x) == 4 and x[3] in ZERO_ and \
                            any(y[0] == 'v' and y[1] in digit_lists_ for y in walk_term(x[2])):
                        run.refute('R-CONV', f, 'zero-renders-as-no-digit', nd_.lineno,
                                   '%s falls back to the zero symbol when the rendered digits are empty (`... or %s`): the number 0 renders '
                                   'as one digit, so a width of 0 gives a non-empty result and set_vt(strand, 1) returns two symbols'
                                   % (name, show(x[3])), inputs='the number 0 with width 0 (check length 1)')
        run.check(len(rs) >= 1 and all(_exc_type(f, r) == 'ValueError' for r in rs), 'R-CONV', f, 'dispatch-else-raises',
                  rs[0].lineno if rs else f.node.lineno, 'unknown type ends in ValueError',
                  '%s does not end its type dispatch with ValueError' % name, nontrivial=False, inputs='neither str nor int')
        # padding
        width = ('v', 'bit_length' if name == 'number_to_bit' else 'dna_length', 'P')
        rets = list(f.stmts(ast.Return))
        okpad = False
        wit_pad = False
        for r in rets:
            t = f.term(r.stmt.value, r)
            # S.rjust(width, zero symbol): left pad of a string
            if name == 'number_to_dna' and t[0] == 'call' and t[1][0] == 'attr' and t[1][2] in ('rjust', 'ljust', 'zfill', 'center'):
                if t[1][2] == 'rjust' and len(t[2]) == 2 and t[2][0] == width and t[2][1] in (('c', 'A'), ('sub', ('c', ALPHA), ('c', 0))):
                    okpad = True
                elif t[1][2] != 'rjust' or (len(t[2]) == 2 and t[2][1][0] == 'c' and t[2][1] != ('c', 'A')) or \
                        (len(t[2]) >= 1 and t[2][0] != width and t[2][0][0] in ('c', 'bin')):
                    wit_pad = True
                continue
            if t[0] == 'bin' and t[1] == '+':
                pad, body = t[2], t[3]
                # recognised deviations: pad on the right, wrong pad symbol, wrong width
                def _padlike(x):
                    return x[0] == 'bin' and x[1] == '*' and any(y[0] == 'c' or y == ('list', ('c', 0)) for y in (x[2], x[3]))
                if not _padlike(pad) and _padlike(body):
                    wit_pad = True
                if _padlike(pad):
                    for a, b in ((pad[2], pad[3]), (pad[3], pad[2])):
                        if (a[0] == 'c' and isinstance(a[1], str) and a != ('c', 'A')) or \
                                (a[0] == 'list' and a != ('list', ('c', 0))):
                            wit_pad = True
                        ba = affine(b)
                        lens = [x for x in (ba or {}) if x != 1 and is_call(x, 'builtins.len')]
                        if (a == ('c', 'A') or a == ('list', ('c', 0))) and ba is not None and lens and \
                                not aff_eq(ba, {width: 1, lens[0]: -1}) and width in ba:
                            wit_pad = True
                if pad[0] == 'bin' and pad[1] == '*':
                    for a, b in ((pad[2], pad[3]), (pad[3], pad[2])):
                        sym_ok = a == ('list', ('c', 0)) if name == 'number_to_bit' else a == ('c', 'A')
                        ba = affine(b)
                        lens = [x for x in (ba or {}) if x != 1 and is_call(x, 'builtins.len')]
                        if sym_ok and ba is not None and lens and aff_eq(ba, {width: 1, lens[0]: -1}):
                            okpad = True
        _tri(run, okpad, wit_pad and not okpad, 'R-CONV', f, 'left-pad-to-width', rets[-1].lineno if rets else f.node.lineno,
                  'left pad with the zero symbol up to the requested width',
                  '%s does not return <zero symbol> * (width - len) + digits: fixed-width rendering is wrong' % name,
                  inputs='numbers with fewer digits than the width')
        if name == 'number_to_bit':
            # all three arms return exactly bit_length items
            tabs = []
            for r in rets:
                t = f.term(r.stmt.value, r)
                conds = ctx.conds(f, r)
                tabs.append((r, t, conds))
            # the LENGTH of what each return gives, evaluated for digit counts below / at / above the width: always bit_length
            digit_names = {d2.name for x2 in f.nodes if x2.loops for d2 in x2.defs
                           if d2.kind == 'mutate' and isinstance(d2.extra, ast.Attribute) and d2.extra.attr in ('append', 'insert')}

            def is_digits(x):
                return x[0] == 'v' and x[1] in digit_names

            def length_of(x, L, W):
                def env(y):
                    if is_call(y, 'builtins.len') and len(y[2]) == 1:
                        n0 = length_of(y[2][0], L, W)
                        return UNKNOWN if n0 is None else n0
                    return W if y == width else UNKNOWN
                if is_digits(x):
                    return L
                if x[0] == 'list':
                    return len(x) - 1
                if is_call(x, 'builtins.list') and len(x[2]) == 1:
                    return length_of(x[2][0], L, W)
                if x[0] == 'bin' and x[1] == '+':
                    a, b = length_of(x[2], L, W), length_of(x[3], L, W)
                    return None if a is None or b is None else a + b
                if x[0] == 'bin' and x[1] == '*':
                    for lst, cnt in ((x[2], x[3]), (x[3], x[2])):
                        if lst[0] == 'list':
                            c = feval(cnt, env)
                            if c is UNKNOWN or not isinstance(c, int):
                                return None
                            return (len(lst) - 1) * max(c, 0)
                    return None
                if x[0] == 'sub' and x[2][0] == 'slice':
                    base = length_of(x[1], L, W)
                    if base is None:
                        return None
                    bounds = []
                    for b in x[2][1:4]:
                        if b == ('c', None):
                            bounds.append(None)
                        else:
                            v = feval(b, env)
                            if v is UNKNOWN or not isinstance(v, int):
                                return None
                            bounds.append(v)
                    try:
                        return len(range(*slice(*bounds).indices(base)))
                    except Exception:
                        return None
                if x[0] == 'ifexp':
                    c = feval(x[1], env)
                    if c is UNKNOWN:
                        return None
                    return length_of(x[2] if c else x[3], L, W)
                return None
            verdicts = []
            for r, t, conds in tabs:
                for L, W in ((2, 5), (5, 5), (7, 5), (0, 3), (3, 0), (0, 0), (1, 1)):
                    def env(y, L=L, W=W):
                        if is_call(y, 'builtins.len') and len(y[2]) == 1:
                            n0 = length_of(y[2][0], L, W)
                            return UNKNOWN if n0 is None else n0
                        return W if y == width else UNKNOWN
                    feas, unclear_cond = True, False
                    for a, p in conds:
                        v = feval(a, env)
                        if v is not UNKNOWN and bool(v) != p:
                            feas = False
                        elif v is UNKNOWN and any(y == width or is_call(y, 'builtins.len') for y in walk_term(a)):
                            unclear_cond = True     # a condition on the sizes that cannot be evaluated: this case is not decided
                    if not feas:
                        continue
                    n_ = None if unclear_cond else length_of(t, L, W)
                    verdicts.append((r, L, W, n_))
            wrong = [v for v in verdicts if v[3] is not None and v[3] != v[2]]
            unknown = [v for v in verdicts if v[3] is None]
            if wrong:
                r, L, W, n_ = wrong[0]
                run.refute('R-CONV', f, 'result-has-bit_length-items', r.lineno,
                           'number_to_bit returns %d items for a number of %d binary digits and bit_length = %d (return at line %d: %s): '
                           'the result always has exactly bit_length items' % (n_, L, W, r.lineno, show(f.term(r.stmt.value, r))[:60]),
                           inputs='numbers with %s digits than the width' % ('more' if L > W else 'fewer'))
            elif unknown or not verdicts:
                run.undecided('R-CONV', f, 'result-has-bit_length-items', f.node.lineno,
                              'the length of the returned list %s is not evaluable' % (show(unknown[0][0].stmt.value and
                                                                                            f.term(unknown[0][0].stmt.value, unknown[0][0]))[:60]
                                                                                       if unknown else ''))
            else:
                run.ok('R-CONV', f, 'result-has-bit_length-items', f.node.lineno,
                       'every return yields bit_length items for digit counts below, at and above the width (%d cases)' % len(verdicts),
                       nontrivial=False)
            for r, t, conds in tabs:
                if t[0] == 'sub' and t[2][0] == 'slice' and t[2][3] == NONE and (t[2][1] != NONE or t[2][2] != NONE):
                    run.check(t[2] == ('slice', NONE, width, NONE), 'R-CONV', f, 'longer-arm:exact-length', r.lineno,
                              'truncated to bit_length items', 'the longer arm returns %s' % show(t)[:60],
                              inputs='values that do not fit the width')


def _r_conv_tail(ctx):
    r_digit_base(ctx)


def r_digit_base(ctx):
    """the decimal-string helpers take a single-digit `base`: every call site in the package passes one"""
    run = ctx.run
    run.rule('R-DIGITBASE', "calculus_addition / _subtraction / _multiplication / _division are digit-serial in a ONE-digit operand "
                            "`base` (documented): no call site in the package passes str() of a power with a variable exponent or of a "
                            "value accumulated over several digits")
    n = 0
    for fq in sorted(ctx.reachable()):
        f = ctx.p.func(fq)
        for nd, c, callee, q in ctx.calls().get(fq, []):
            if not (q and q.split('.')[-1] in ('calculus_addition', 'calculus_subtraction', 'calculus_multiplication', 'calculus_division')):
                continue
            t = f.term(c, nd)
            b = call_arg(t, 1, 'base')
            if b is None:
                continue
            n += 1
            x = b
            while is_call(x, 'builtins.str', 'builtins.int') and x[2]:
                x = x[2][0]
            wit = None
            for y in walk_term(x):
                if y[0] == 'bin' and y[1] == '**' and y[3][0] != 'c' and not (y[2][0] == 'c' and y[2][1] in (0, 1)):
                    wit = 'the power %s (unbounded exponent)' % show(y)[:40]
            if wit is None and x[0] == 'v' and isinstance(x[2], tuple):
                for di in x[2]:
                    d = f.defs[di]
                    if d.kind == 'aug' and isinstance(d.extra, (ast.Mult, ast.Add)) and f.nodes[d.node].loops:
                        wit = 'the value `%s`, accumulated over several digits in the loop at line %d' % (x[1], f.nodes[d.node].lineno)
                    elif d.kind == 'assign' and d.value is not None and f.nodes[d.node].loops and \
                            any(isinstance(n_, ast.Name) and n_.id == x[1] for n_ in ast.walk(d.value)) and \
                            any(isinstance(n_, ast.Mult) for n_ in ast.walk(d.value)):
                        wit = 'the value `%s`, accumulated over several digits in the loop at line %d' % (x[1], f.nodes[d.node].lineno)
            if wit:
                run.refute('R-DIGITBASE', f, 'single-digit-operand', nd.lineno,
                           '%s passes %s as `base` of %s: the helper handles one decimal digit per step and is wrong (drops or misplaces '
                           'carries) for operands of two or more digits' % (f.name, wit, q.split('.')[-1]),
                           inputs='long inputs: every word after the first whose value needs two or more decimal digits')
    run.floor('R-DIGITBASE', 'call sites of the decimal-string helpers', n, 6)


# ----------------------------------------------------------------------------------------------
def r_shuf(ctx):
    run = ctx.run
    run.rule('R-SHUF', "create_random_shuffles: table allocated 4^K x 4, rows start as the identity (column j holds j), "
                       "every later write into the table writes back a row view that was only permuted by "
                       "random.shuffle, every draw is dominated by random.seed(random_seed), the table is returned")
    f = ctx.p.func('dsw.spiderweb.create_random_shuffles')
    K = ('v', 'observed_length', 'P')
    # the seed is applied whenever one is given: a truthiness test on it drops the seed 0
    for nd, c, callee, q in ctx.calls()[f.fq]:
        if q in ('numpy.random.seed', 'random.seed', 'numpy.random.default_rng', 'numpy.random.RandomState'):
            for atom, pol in ctx.conds(f, nd):
                if atom == ('v', 'random_seed', 'P') and pol:
                    run.refute('R-SHUF', f, 'seed-applied-for-every-seed', nd.lineno,
                               'the generator is seeded only `if random_seed:`: the seed 0 is falsy and is silently ignored, so two '
                               'calls with random_seed=0 give different tables', inputs='random_seed=0')
    rets = list(f.stmts(ast.Return))
    if len(rets) != 1 or not isinstance(rets[0].stmt.value, ast.Name):
        raise AnalysisError("rule R-SHUF lost its anchor: return of the table")
    tab = rets[0].stmt.value.id
    # names bound to the same table object (t = helper_result; helper_result = buffer; ...)
    tabs = {tab}
    grew = True
    while grew:
        grew = False
        for d in f.defs:
            if d.name in tabs and d.kind == 'assign' and isinstance(d.value, ast.Name) and not d.path and d.value.id not in tabs \
                    and d.value.id in f.locals:
                tabs.add(d.value.id)
                grew = True
    allocs = [TermBuilder(f, d.node).def_term(d.id) for d in f.defs if d.name in tabs and d.kind == 'assign'
              and not (isinstance(d.value, ast.Name) and d.value.id in tabs)]
    ok = False
    sized = []
    for a in allocs:
        if a is not None and is_call(a, 'numpy.zeros'):
            shape = call_arg(a, 0, 'shape')
            if shape is not None and shape[0] == 'tuple' and len(shape) == 3:
                sized.append(shape)
                if is_pow4k(shape[1], K) and is_four(shape[2]):
                    ok = True
    # every loop over range(E) with E a function of K alone covers exactly the 4^K rows
    for nd_ in f.nodes:
        if nd_.kind == 'for':
            it_ = f.term(nd_.stmt.iter, nd_)
            if is_call(it_, 'builtins.range') and len(it_[2]) == 1 and any(x == K for x in walk_term(it_[2][0])):
                vals_ = [feval(it_[2][0], lambda x, kv=kv: kv if x == K else UNKNOWN) for kv in (1, 3)]
                if all(v_ is not UNKNOWN for v_ in vals_) and vals_ != [4, 64]:
                    run.refute('R-SHUF', f, 'all-rows-shuffled', nd_.lineno,
                               'the loop over the rows runs to %s, which is %s for observed length 1 and 3; the table has 4^K = 4 and 64 '
                               'rows (K**4 equals 4**K only for K = 2 and 4)' % (show(it_[2][0])[:40], vals_),
                               inputs='observed lengths other than 2 and 4')
    _tri(run, ok, bool(sized) and not ok, 'R-SHUF', f, 'shape', f.node.lineno, 'zeros(4^K x 4)',
         'the table is allocated with shape %s, not (4^K, 4)' % [show(s_)[:60] for s_ in sized], inputs='every k')
    # stores
    cols, rowstores, other = {}, [], []
    for nd in f.nodes:
        for d in nd.defs:
            if d.kind == 'mutate' and d.name in tabs and isinstance(d.extra, ast.Subscript) and isinstance(nd.stmt, ast.Assign):
                tg = f.term(_as_load(d.extra), nd)
                val = f.term(nd.stmt.value, nd)
                idx = tg[2] if tg[0] == 'sub' else None
                if tg[0] == 'sub' and idx is not None and idx[0] == 'tuple' and len(idx) == 3 and \
                        idx[1] == ('slice', NONE, NONE, NONE) and idx[2][0] == 'c':
                    c_ = idx[2][1]
                    cols.setdefault(c_ + 4 if isinstance(c_, int) and -4 <= c_ < 0 else c_, []).append((nd, val))     # column -1 is column 3
                elif tg[0] == 'sub' and idx is not None and idx[0] == 'tuple' and len(idx) == 3 and \
                        idx[1] == ('slice', NONE, NONE, NONE) and idx[2][0] == 'iter' and is_call(idx[2][1], 'builtins.range'):
                    # for j in range(1, 4): table[:, j] = j
                    rv = feval(idx[2][1], lambda x: UNKNOWN)
                    if rv is not UNKNOWN and val == idx[2]:
                        for j_ in rv:
                            cols.setdefault(j_, []).append((nd, ('c', j_)))
                    elif rv is not UNKNOWN and val[0] == 'c':
                        for j_ in rv:
                            cols.setdefault(j_, []).append((nd, val))
                    else:
                        other.append((nd, tg))
                elif tg[0] == 'sub' and idx is not None and idx[0] == 'tuple' and len(idx) == 3 and \
                        idx[1] == ('slice', NONE, NONE, NONE) and \
                        len({x for x in walk_term(idx[2]) if x[0] == 'iter' and is_call(x[1], 'builtins.range')}) == 1:
                    # table[:, E(j)] = V(j) for j in range(..): column and value evaluated for every j
                    it_ = next(x for x in walk_term(idx[2]) if x[0] == 'iter' and is_call(x[1], 'builtins.range'))
                    rv = feval(it_[1], lambda x: UNKNOWN)
                    done_ = rv is not UNKNOWN
                    if done_:
                        for j_ in rv:
                            c_ = feval(idx[2], lambda x, j_=j_: j_ if x == it_ else UNKNOWN)
                            v_ = feval(val, lambda x, j_=j_: j_ if x == it_ else UNKNOWN)
                            if c_ is UNKNOWN or v_ is UNKNOWN or isinstance(c_, bool) or not isinstance(c_, int):
                                done_ = False
                                break
                            cols.setdefault(c_ + 4 if -4 <= c_ < 0 else c_, []).append((nd, ('c', v_)))
                    if not done_:
                        other.append((nd, tg))
                elif tg[0] == 'sub' and idx is not None and idx[0] == 'slice' and idx == ('slice', NONE, NONE, NONE):
                    pass        # whole-table broadcast: judged by rows-start-as-identity
                elif tg[0] == 'sub' and idx is not None and idx[0] != 'tuple' and isinstance(d.extra.value, ast.Name):
                    rowstores.append((nd, idx, val, nd.stmt.value))
                else:
                    other.append((nd, tg))
    ident = set(cols) - {0} == {1, 2, 3} and all(len(v) == 1 and v[0][1] == ('c', c) for c, v in cols.items())
    # broadcast forms: table[:] = range(4) / arange(4) / [0, 1, 2, 3]
    for nd in f.nodes:
        for d in nd.defs:
            if d.kind == 'mutate' and d.name in tabs and isinstance(d.extra, ast.Subscript) and isinstance(nd.stmt, ast.Assign):
                tg = f.term(_as_load(d.extra), nd)
                val = f.term(nd.stmt.value, nd)
                if tg[0] == 'sub' and tg[2] in (('slice', NONE, NONE, NONE), ('tuple', ('slice', NONE, NONE, NONE), ('slice', NONE, NONE, NONE))):
                    if (is_call(val, 'builtins.range', 'numpy.arange') and val[2] == (('c', 4),)) or \
                            val == ('list', ('c', 0), ('c', 1), ('c', 2), ('c', 3)) or val == ('tuple', ('c', 0), ('c', 1), ('c', 2), ('c', 3)):
                        ident = True
                        other = [o for o in other if o[0] is not nd]
    wit_ident = bool(cols) and not ident        # column stores were recognised and are not the identity
    _tri(run, ident, wit_ident, 'R-SHUF', f, 'rows-start-as-identity', f.node.lineno, 'columns 1..3 initialised to 1..3 over zeros',
              'the initial rows are not the identity permutation: column stores %s'
              % {c: [show(v)[:10] for _, v in vs] for c, vs in cols.items()},
              inputs='every row: a value is missing / duplicated, so rows are not permutations of 0..3')
    if other:
        run.undecided('R-SHUF', f, 'no-other-writer', other[0][0].lineno,
                      'the table is also written at %s, a store this rule does not interpret' % show(other[0][1])[:60])
    else:
        run.ok('R-SHUF', f, 'no-other-writer', f.node.lineno, 'no other store into the table')
    # row write-back: value is a name bound to the row view table[i], mutated only by random.shuffle
    n = 0
    for nd, idx, val, vast in rowstores:
        n += 1
        okrow = False
        why = 'written value %s' % show(val)[:60]
        if isinstance(vast, ast.Name):
            card = vast.id
            cdefs = [d for d in f.defs if d.name == card]
            views = [d for d in cdefs if d.kind == 'assign']
            muts = [d for d in cdefs if d.kind == 'mutate']
            view_ok = len(views) == 1 and TermBuilder(f, views[0].node).def_term(views[0].id) is not None
            if view_ok:
                vt = TermBuilder(f, views[0].node).def_term(views[0].id)
                view_ok = vt[0] == 'sub' and vt[1][0] == 'v' and vt[1][1] == tab and vt[2] == idx
            mut_ok = bool(muts) and all(isinstance(d.value, ast.Call) and
                                        ctx.resolve_call(f, d.value)[0] == 'numpy.random.shuffle' for d in muts)
            okrow = view_ok and mut_ok
            if not view_ok:
                why = 'the written row is not the view of the same row'
            elif not mut_ok:
                why = 'the row is modified by something other than random.shuffle'
        wit_row = not isinstance(vast, ast.Name)      # something computed (sorted(card), a copy ...) is written over the row
        _tri(run, okrow, wit_row, 'R-SHUF', f, 'row-write-back#%d' % n, nd.lineno, 'write-back of the row view permuted by random.shuffle',
                  'a row of the table is overwritten with something that is not the shuffled view of that row (%s): rows may '
                  'stop being permutations' % why, inputs='every row')
    # seed dominates every draw
    seeds, draws = [], []
    for nd, c, callee, q in ctx.calls()[f.fq]:
        if q == 'numpy.random.seed':
            seeds.append((nd, f.term(c, nd)))
        elif q and q.startswith('numpy.random.'):
            draws.append((nd, q))
    dom = f.dominators()
    good_seeds = [nd for nd, t in seeds if t[2] == (('v', 'random_seed', 'P'),) or
                  (not t[2] and t[3] == (('seed', ('v', 'random_seed', 'P')),))]
    okseed = bool(draws) and all(any(s.id in dom[d.id] and not _reseeded_between(f, s, d, seeds, good_seeds) for s in good_seeds)
                                 for d, q in draws)
    run.check(okseed, 'R-SHUF', f, 'seed-dominates-draws', draws[0][0].lineno if draws else f.node.lineno,
              'every draw follows random.seed(random_seed)',
              'a draw from the global generator is not dominated by random.seed(random_seed): the same seed does not give '
              'the same table', inputs='any two calls with the same seed')
    # iteration order is a range over all rows
    loops = [nd for nd in f.nodes if nd.kind == 'for']
    okl = any(is_call(f.term(nd.stmt.iter, nd), 'builtins.range') and len(f.term(nd.stmt.iter, nd)[2]) == 1 and
              is_pow4k(f.term(nd.stmt.iter, nd)[2][0], K) for nd in loops)
    for nd in loops:
        it = f.term(nd.stmt.iter, nd)
        src = it[2][0] if is_call(it, 'builtins.enumerate') and it[2] else it
        if src[0] == 'v' and src[1] == tab:
            okl = True
        if is_call(src, 'builtins.range') and len(src[2]) == 1 and src[2][0][0] == 'v':
            tt = src[2][0]
            for d in f.defs:
                if d.name == tt[1] and d.kind == 'assign':
                    dv = TermBuilder(f, d.node).def_term(d.id)
                    if dv is not None and is_pow4k(dv, K):
                        okl = True
    partial = any(is_call(f.term(nd.stmt.iter, nd), 'builtins.range') and len(f.term(nd.stmt.iter, nd)[2]) == 1 and
                  f.term(nd.stmt.iter, nd)[2][0][0] == 'bin' and f.term(nd.stmt.iter, nd)[2][0][1] == '-' for nd in loops)
    _tri(run, okl, partial, 'R-SHUF', f, 'all-rows-in-order', loops[0].lineno if loops else f.node.lineno, 'rows 0..4^K-1 in order',
              'the shuffling loop does not run over range(4^K)', inputs='every k')


def _reseeded_between(f, s, d, seeds, good):
    """another (non-parameter) seed call that can run after s and before d"""
    for nd, t in seeds:
        if nd in good or nd.id == s.id:
            continue
        if nd.id in f.reachable_from(s.id) and d.id in f.reachable_from(nd.id):
            return True
    return False


# ----------------------------------------------------------------------------------------------
def r_pair(ctx):
    run = ctx.run
    run.rule('R-PAIR', "remove_nasty_arc: exactly one store into the accessor, of -1, outside any loop; the element deleted "
                       "from latter_map[u] is the successor succ_j(u) of the cleared entry (u, j); the emptied list is "
                       "deleted under len(latter_map[u]) == 0; calculate_intersection_score stores only at (key of the "
                       "latter map, successor mod 4 of that key) in a 4^K x 4 array")
    f = ctx.p.func('dsw.spiderweb.remove_nasty_arc')
    stores = [(nd, d, tg, v) for nd, d, tg, v in acc_stores(ctx, f)]
    one = len(stores) == 1 and stores[0][3] == ('c', -1) and not stores[0][0].loops and stores[0][2][0] == 'sub' \
        and stores[0][2][1][0] == 'sub'
    run.check(one, 'R-PAIR', f, 'one-accessor-store', stores[0][0].lineno if stores else f.node.lineno,
              'one store of -1 at [u, j], outside loops',
              'remove_nasty_arc makes %d stores into the accessor (%s); required exactly one store of -1'
              % (len(stores), [show(s[3])[:10] if s[3] else None for s in stores]), inputs='every call')
    if not one:
        return
    u, j = stores[0][2][1][2], stores[0][2][2]
    lm = ('v', 'latter_map', 'P')
    # a call that returns has removed an arc: every return is dominated by the store
    dom0 = f.dominators()
    for r_ in f.stmts(ast.Return):
        if stores[0][0].id not in dom0[r_.id]:
            run.refute('R-PAIR', f, 'return-only-after-removal', r_.lineno,
                       'remove_nasty_arc can return (line %d) without having cleared an accessor entry: a returning call that '
                       'removes no arc (where the call used to raise because nothing is left to remove)' % r_.lineno,
                       inputs='graphs whose scores are all zero; the end of a removal sequence')
            break
    else:
        run.ok('R-PAIR', f, 'return-only-after-removal', f.node.lineno, 'every return follows the removal')
    dels = []
    for nd in f.stmts(ast.Delete):
        for t in nd.stmt.targets:
            if isinstance(t, ast.Subscript):
                dels.append((nd, f.term(_as_load(t), nd)))
    arc_del = [(nd, t) for nd, t in dels if t[0] == 'sub' and t[1][0] == 'sub' and t[1][1][0] == 'v' and t[1][1][1] == 'latter_map']
    key_del = [(nd, t) for nd, t in dels if t[0] == 'sub' and t[1][0] == 'v' and t[1][1] == 'latter_map']
    ok = False
    recognised = False
    unclear_target = False
    why = 'no deletion of an element of latter_map[u]'
    # latter_map[u].remove(successor)
    removes = []
    for nd in f.nodes:
        for d in nd.defs:
            if d.kind == 'mutate' and isinstance(d.extra, ast.Attribute) and d.extra.attr == 'remove' and d.name == 'latter_map':
                t_ = f.term(d.value, nd)
                removes.append((nd, f.term(d.extra.value, nd), t_[2][0] if t_[2] else None))
    if removes and not arc_del:
        nd, recv, arg = removes[0]
        Kt = find_k_term(f)
        tgt = strip_int(arg) if arg is not None else None
        good = recv[0] == 'sub' and strip_int(recv[2]) == strip_int(u) and tgt is not None and tgt[0] == 'bin' and tgt[1] == '%' \
            and Kt is not None and is_pow4k(tgt[3], Kt)
        if good:
            a = strip_int(tgt[2])
            good = False
            if a[0] == 'bin' and a[1] == '+':
                for p, q in ((a[2], a[3]), (a[3], a[2])):
                    if p[0] == 'bin' and p[1] == '*' and ('c', 4) in (p[2], p[3]):
                        row = p[2] if p[3] == ('c', 4) else p[3]
                        good = strip_int(row) == strip_int(u) and strip_int(q) == strip_int(j)
        ok = good
        arc_del = [(nd, None)]
        why = 'latter_map[%s].remove(%s) does not remove the successor of the cleared entry [u, j]' % (show(recv[2])[:30] if recv[0] == 'sub' else '?', show(arg)[:60] if arg else None)
    if len(arc_del) == 1 and arc_del[0][1] is not None:
        nd, t = arc_del[0]
        row_key, idx = t[1][2], t[2]
        if strip_int(row_key) != strip_int(u):
            why = 'the element is deleted from latter_map[%s], the accessor entry cleared is in row %s' % (show(row_key), show(u))
        elif idx[0] == 'call' and idx[1][0] == 'attr' and idx[1][2] == 'index' and len(idx[2]) == 1:
            tgt = strip_int(idx[2][0])
            # tgt must be (u*4 + j) mod 4^K
            Kt = find_k_term(f)
            good = tgt[0] == 'bin' and tgt[1] == '%' and Kt is not None and is_pow4k(tgt[3], Kt)
            if good:
                a = strip_int(tgt[2])
                good = False
                if a[0] == 'bin' and a[1] == '+':
                    for p, q in ((a[2], a[3]), (a[3], a[2])):
                        if p[0] == 'bin' and p[1] == '*' and ('c', 4) in (p[2], p[3]):
                            row = p[2] if p[3] == ('c', 4) else p[3]
                            good = strip_int(row) == strip_int(u) and strip_int(q) == strip_int(j)
            if not good and tgt[0] == 'sub' and call_name(tgt[1]) and call_name(tgt[1]).endswith('.obtain_latters'):
                good = strip_int(call_arg(tgt[1], 0, 'current')) == strip_int(u) and strip_int(tgt[2]) == strip_int(j) and \
                    (Kt is None or call_arg(tgt[1], 1, 'observed_length') == Kt)
                recognised = True
            if not good:
                from .graph import successor_verdict
                verdict_, cex_ = successor_verdict(idx[2][0], u, j, Kt)
                if verdict_ is True:
                    good = recognised = True
                elif verdict_ is None:
                    unclear_target = True       # not an arithmetic form of (u, j, K) alone (a call, a look-up, len(scores) as the
                                                # modulus): not decided here
            ok = good
            why = 'the deleted element is %s, not the successor (u*4 + j) mod 4^K of the cleared entry [u, j]' % show(tgt)[:100]
        else:
            why = 'the deleted position is %s, not the position of the removed successor' % show(idx)[:80]
    _tri(run, ok, (bool(arc_del) or not dels) and not unclear_target, 'R-PAIR', f, 'same-arc-in-both-views', arc_del[0][0].lineno if arc_del else f.node.lineno,
              'the latter map loses the successor of the cleared accessor entry', 'remove_nasty_arc: ' + why,
              inputs='every arc removal: the two views describe different graphs afterwards')
    okk = False
    for nd, t in key_del:
        if strip_int(t[2]) == strip_int(u):
            for atom, pol in ctx.conds(f, nd):
                if pol and atom[0] == 'cmp' and atom[1] == '==' and atom[3] == ('c', 0) and is_call(atom[2], 'builtins.len'):
                    okk = True
                # any other spelling of "the list is empty" (len(x) < 1, not len(x) > 0, len(x) <= 0): true for 0, false for 1 and 2
                lens_ = [x for x in walk_term(atom) if is_call(x, 'builtins.len') and len(x[2]) == 1 and
                         any(y[0] == 'v' and y[1] == 'latter_map' for y in walk_term(x[2][0]))]
                if lens_ and atom[0] == 'cmp':
                    tv = [feval(atom, lambda x, n_=n_: n_ if x == lens_[0] else UNKNOWN) for n_ in (0, 1, 2)]
                    if all(v is not UNKNOWN for v in tv) and [bool(v) == pol for v in tv] == [True, False, False]:
                        okk = True
                # `if not latter_map[u]:`  (an empty list is falsy); also through a name bound to that list
                tgt_ = atom
                if tgt_[0] == 'v' and isinstance(tgt_[2], tuple):
                    todo, seen_ = list(tgt_[2]), set()
                    while todo:
                        di = todo.pop()
                        if di in seen_:
                            continue
                        seen_.add(di)
                        if f.defs[di].kind == 'assign':
                            tgt_ = TermBuilder(f, f.defs[di].node).def_term(di) or tgt_
                            break
                        if f.defs[di].kind == 'mutate':       # the same object, modified in place
                            todo.extend(f.reaching(f.defs[di].node, f.defs[di].name))
                if is_call(tgt_, 'builtins.len') and tgt_[2]:
                    pass
                if not pol and tgt_[0] == 'sub' and tgt_[1][0] == 'v' and tgt_[1][1] == 'latter_map' and \
                        strip_int(tgt_[2]) == strip_int(u):
                    okk = True
    # witnesses: no deletion of a key at all (the clean-up was dropped); emptiness decided by any(...), which is also false
    # for a list that still holds vertex 0
    # the whole entry may only go after the arc itself was looked up / removed in it: a key deletion that is not dominated
    # by the removal of the arc drops the entry without checking that the reported arc is the one listed
    dom = f.dominators()
    arc_nodes = {nd_.id for nd_, _t in arc_del}
    if key_del and arc_nodes:
        loose = [nd_ for nd_, t_ in key_del if strip_int(t_[2]) == strip_int(u) and not (arc_nodes & dom[nd_.id])]
        if loose:
            run.refute('R-PAIR', f, 'entry-deleted-only-after-arc-removed', loose[0].lineno,
                       'latter_map[u] is deleted on a path on which the arc (u, successor) was never removed from (or looked up in) '
                       'its list: when the list holds another vertex, a real arc disappears from the latter map while the accessor '
                       'keeps it, and a removal of an arc that is not listed no longer raises',
                       inputs='calls in which the reported arc is not an arc of the map (all scores 0), a vertex with one successor')
        else:
            run.ok('R-PAIR', f, 'entry-deleted-only-after-arc-removed', key_del[0][0].lineno, 'the key deletion follows the arc removal')
    wrong_key = key_del and not any(strip_int(t[2]) == strip_int(u) for nd, t in key_del)
    if wrong_key:
        run.refute('R-PAIR', f, 'emptied-key-deleted', key_del[0][0].lineno,
                   'the clean-up deletes latter_map[%s], but the vertex that lost an arc is %s: the emptied entry stays (and another '
                   'vertex can lose its whole entry), so the two views describe different graphs'
                   % (show(key_del[0][1][2])[:50], show(u)[:40]), inputs='removing the last arc of a vertex')
        okk = None
    falsy0 = False
    for nd, t in ([] if wrong_key else key_del):
        for atom, pol in ctx.conds(f, nd):
            if is_call(atom, 'builtins.any') and not pol:
                falsy0 = True
    okk = okk if wrong_key else okk
    if falsy0 and not okk and not wrong_key:
        run.refute('R-PAIR', f, 'emptied-key-deleted', key_del[0][0].lineno,
                   'the entry of the latter map is deleted when any(successors) is false: a list that still holds vertex 0 '
                   '(index 0 is falsy) is deleted while the accessor keeps that arc', inputs='a vertex whose last remaining arc goes to vertex 0')
        okk = None
    if okk is not None:
      # "no clean-up at all" is only a witness when no other deletion (through an alias, a pop) could be that clean-up
      other_dels = [nd_ for nd_, t_ in dels if (nd_, t_) not in key_del and (nd_, t_) not in arc_del] + \
          [nd_ for nd_ in f.nodes for d_ in nd_.defs if d_.kind == 'mutate' and isinstance(d_.extra, ast.Attribute) and
           d_.extra.attr in ('pop', 'popitem', 'clear')]
      _tri(run, okk, not key_del and not other_dels, 'R-PAIR', f, 'emptied-key-deleted', key_del[0][0].lineno if key_del else f.node.lineno,
              'latter_map[u] is deleted when it becomes empty',
              'a vertex whose last arc was removed keeps an empty entry in the latter map (accessor_to_latter_map would not '
              'list it): the views diverge', inputs='removing the last arc of a vertex')
    # score stores
    g = ctx.p.func('dsw.graphized.calculate_intersection_score')
    K = ('v', 'observed_length', 'P')
    n = 0
    for nd in g.nodes:
        for d in nd.defs:
            if d.kind == 'mutate' and isinstance(d.extra, ast.Subscript) and isinstance(nd.stmt, (ast.AugAssign, ast.Assign)):
                tg = g.term(_as_load(d.extra), nd)
                if not (tg[0] == 'sub' and tg[1][0] == 'sub'):
                    continue
                base = tg[1][1]
                if base[0] != 'v' or base[1] == 'latter_map':
                    continue
                n += 1
                row, col = tg[1][2], tg[2]
                okrow = row[0] == 'iter' and any(x == ('v', 'latter_map', 'P') for x in walk_term(row[1]))
                okcol = col[0] == 'bin' and col[1] == '%' and col[3] == ('c', 4) and col[2][0] == 'sub' and \
                    col[2][1] == ('sub', ('v', 'latter_map', 'P'), row)
                # the successor may also be the loop variable of an iteration over latter_map[row]
                if not okcol and col[0] == 'bin' and col[1] == '%' and col[3] == ('c', 4) and col[2][0] == 'iter':
                    src = col[2][1]
                    while is_call(src, 'builtins.zip', 'builtins.enumerate', 'builtins.list') and src[2]:
                        src = src[2][0]
                    okcol = src == ('sub', ('v', 'latter_map', 'P'), row)
                opaque = any(x[0] == 'call' and (x[1][0] == 'v' or (x[1][0] == 'g' and (x[1][1].startswith('?.') or
                                                                             ctx.p.resolve_func(x[1][1]) is not None)))
                             for x in walk_term(col))
                wit = not any(x[0] == 'bin' and x[1] == '%' for x in walk_term(col)) and not opaque   # no `successor mod 4` at all
                _tri(run, okrow and okcol, okrow and wit, 'R-PAIR', g, 'score-store#%d' % n, nd.lineno,
                          'score stored at (key, successor of that key mod 4)',
                          'a score is stored at [%s, %s]: not (a key of the latter map, one of its successors mod 4), so '
                          'scores can be positive where no arc exists' % (show(row)[:40], show(col)[:60]),
                          inputs='every graph')
    # the indel terms are switched by their own flag only, and each flag switches a store
    ins, dele = ('v', 'has_insertion', 'P'), ('v', 'has_deletion', 'P')
    gated = {ins: 0, dele: 0}
    for nd in g.nodes:
        for d in nd.defs:
            if d.kind == 'mutate' and isinstance(d.extra, ast.Subscript) and isinstance(nd.stmt, (ast.AugAssign, ast.Assign)):
                tg = g.term(_as_load(d.extra), nd)
                if not (tg[0] == 'sub' and tg[1][0] == 'sub') or tg[1][1][0] != 'v' or tg[1][1][1] == 'latter_map':
                    continue
                conds_ = ctx.conds(g, nd)
                # every key contributes its terms: a store that is only reached when the key has a certain NUMBER of successors
                # drops the contributions of the other keys (a single arc still has insertion / deletion neighbours)
                for a_, p_ in conds_:
                    cnt = [x for x in walk_term(a_) if is_call(x, 'builtins.len') and len(x[2]) == 1 and x[2][0][0] == 'sub' and
                           x[2][0][1][0] == 'v' and x[2][0][1][1] == 'latter_map']
                    if a_[0] == 'cmp' and cnt and any(a == f_ and p for f_ in (ins, dele) for a, p in conds_):
                        run.refute('R-PAIR', g, 'every-key-contributes', nd.lineno,
                                   'the %s score term is only added when %s is %s: keys with another number of successors contribute '
                                   'nothing to that term, so their arcs score too low and an arc that is not a maximum is removed'
                                   % ('insertion' if any(a == ins and p for a, p in conds_) else 'deletion', show(a_)[:50], p_),
                                   inputs='graphs with a vertex of out-degree 1 whose arc holds the maximum')
                        break
                for flag, other, nm in ((ins, dele, 'insertion'), (dele, ins, 'deletion')):
                    if any(a == flag and p for a, p in conds_):
                        gated[flag] += 1
                        if any(any(x == other for x in walk_term(a)) for a, p in conds_ if a != flag):
                            run.refute('R-PAIR', g, '%s-term-switched-by-its-own-flag' % nm, nd.lineno,
                                       'the %s term of the score is added under a condition that also involves the other indel flag: '
                                       'with exactly one of has_insertion / has_deletion set the scores differ from the sum of the '
                                       'requested terms, and a non-maximal arc is removed' % nm,
                                       inputs='has_insertion != has_deletion')
                # repeated positions in one fancy-indexed `+=` are applied once, not accumulated
                col_ = tg[2]
                if isinstance(nd.stmt, ast.AugAssign) and col_[0] == 'sub' and col_[2][0] == 'v' and isinstance(col_[2][2], tuple) and \
                        any(g.defs[i].kind == 'mutate' or (g.defs[i].kind == 'aug') for i in col_[2][2]):
                    run.refute('R-PAIR', g, 'scores-accumulated-per-arc', nd.lineno,
                               'scores are added with one fancy-indexed `+=` over the position list %s: numpy applies a repeated '
                               'position once, so an arc that takes part in several pairs receives only one of its contributions'
                               % show(col_[2])[:30], inputs='vertices with three or four successors')
                elif isinstance(nd.stmt, ast.AugAssign) and col_[0] == 'sub' and \
                        any(is_call(x, 'itertools.combinations', 'itertools.permutations', 'itertools.product',
                                    'itertools.combinations_with_replacement') for x in walk_term(col_[2])):
                    run.refute('R-PAIR', g, 'scores-accumulated-per-arc', nd.lineno,
                               'scores are added with one fancy-indexed `+=` whose positions %s come from the members of all pairs: every '
                               'arc occurs in several pairs, numpy applies a repeated position once, so an arc receives only one of '
                               'its contributions' % show(col_)[:50], inputs='vertices with three or four successors')
    for flag, nm in ((ins, 'has_insertion'), (dele, 'has_deletion')):
        used = any(any(x == flag for x in walk_term(g.term(n_.ast, n_))) for n_ in g.nodes if n_.kind in ('test', 'while') and n_.ast is not None)
        if gated[flag] == 0 and used:
            run.refute('R-PAIR', g, 'flag-switches-a-store:%s' % nm, g.node.lineno,
                       '%s is read but no score store is conditioned on it: its term is added (or its branches are merged into '
                       'another term) whatever the flag says' % nm, inputs='%s=False' % nm)
        elif gated[flag] == 0:
            run.undecided('R-PAIR', g, 'flag-switches-a-store:%s' % nm, g.node.lineno, '%s gates no store' % nm)
        else:
            run.ok('R-PAIR', g, 'flag-switches-a-store:%s' % nm, g.node.lineno, '%s switches %d store(s)' % (nm, gated[flag]))
    run.floor('R-PAIR', 'score stores', n, 4)
    allocs = [TermBuilder(g, d.node).def_term(d.id) for d in g.defs if d.kind == 'assign']
    oka = any(a is not None and is_call(a, 'numpy.zeros') and call_arg(a, 0, 'shape') is not None and
              call_arg(a, 0, 'shape')[0] == 'tuple' and len(call_arg(a, 0, 'shape')) == 3 and
              is_pow4k(call_arg(a, 0, 'shape')[1], K) and call_arg(a, 0, 'shape')[2] == ('c', 4) for a in allocs)
    zero_allocs = [a for a in allocs if a is not None and is_call(a, 'numpy.zeros', 'numpy.zeros_like', 'numpy.full', 'numpy.empty')]
    _tri(run, oka, bool(zero_allocs) and not oka and all(call_arg(a, 0, 'shape') is not None and call_arg(a, 0, 'shape')[0] == 'tuple'
                                                         for a in zero_allocs),
         'R-PAIR', g, 'scores-shape', g.node.lineno, 'scores have the accessor shape 4^K x 4',
         'the score array is allocated as %s, not zeros(4^K x 4)' % [show(a)[:50] for a in zero_allocs], inputs='every k')


# ----------------------------------------------------------------------------------------------
def r_repr(ctx):
    """C14: the converters key each row by its own vertex"""
    run = ctx.run
    run.rule('R-REPR', "accessor_to_latter_map stores under key v the live entries of ACC[v] for exactly the vertices with a "
                       "live entry; accessor_to_adjacency_matrix sets matrix[v][live entries of ACC[v]] = 1 and nothing else")
    K = ctx.kinds
    # latter_map_to_accessor converts the map AS GIVEN unless a threshold is supplied: remove_useless is not the identity for any
    # threshold (it also drops arcs into vertices that are not keys), so it may only run under `threshold is not None`
    h = ctx.p.func('dsw.graphized.latter_map_to_accessor')
    thr = ('v', 'threshold', 'P')
    for nd_, c_, callee_, q_ in ctx.calls().get(h.fq, []):
        if not (q_ and q_.endswith('.remove_useless')):
            continue
        cs = ctx.conds(h, nd_)
        on_request = any(a[0] == 'cmp' and a[2] == thr and a[3] == ('c', None) and
                         ((a[1] == 'is not' and p_) or (a[1] == 'is' and not p_)) for a, p_ in cs)
        about = [a for a, p_ in cs if any(x == thr for x in walk_term(a))]
        _tri(run, on_request, not about, 'R-REPR', h, 'trimmed-only-on-request', nd_.lineno,
             'remove_useless runs only when a threshold is supplied',
             'latter_map_to_accessor calls remove_useless whether or not a threshold was supplied: remove_useless also deletes every arc '
             'whose target is not a key of the map (a vertex without outgoing arcs), so the default conversion loses the arcs into '
             'dead ends and the round trip accessor -> latter map -> accessor is no longer the identity',
             inputs='the default threshold with a graph that has a vertex with incoming but no outgoing arcs')
    f = ctx.p.func('dsw.graphized.accessor_to_latter_map')
    n = 0
    for nd in f.nodes:
        for d in nd.defs:
            if d.kind == 'mutate' and isinstance(d.extra, ast.Subscript) and isinstance(nd.stmt, ast.Assign):
                n += 1
                tg = f.term(_as_load(d.extra), nd)
                val = f.term(nd.stmt.value, nd)
                key = tg[2]
                # val = ACC[key][ACC[key] >= 0].tolist()
                v = val
                if v[0] == 'call' and v[1][0] == 'attr' and v[1][2] == 'tolist':
                    v = v[1][1]
                ok = v[0] == 'sub' and v[1][0] == 'sub' and K.kind(v[1][1], f) == 'ACC' and v[1][2] == key and \
                    K.row_of_pred(v[2], f) == v[1]
                wit = v[0] == 'sub' and v[1][0] == 'sub' and K.kind(v[1][1], f) == 'ACC' and v[1][2] != key
                # parallel iteration: for key, row in zip(KEYS, ACC[KEYS]) -- row i belongs to key i
                if not ok and v[0] == 'sub' and v[1][0] == 'iter' and key[0] == 'iter' and v[1][2] == key[2] and \
                        v[1][1][0] == 'sub' and K.kind(v[1][1][1], f) == 'ACC' and v[1][1][2] == key[1] and \
                        K.row_of_pred(v[2], f) == v[1]:
                    ok = True
                if not ok and v[0] == 'sub' and v[1][0] == 'iter' and key[0] == 'iter' and v[1][2] == key[2] and \
                        v[1][1][0] == 'sub' and K.kind(v[1][1][1], f) == 'ACC' and v[1][1][2] != key[1]:
                    wit = True
                # ACC[key][MASK[other]] with MASK = (ACC >= 0): the liveness mask of another row filters this row
                if not ok and v[0] == 'sub' and v[1][0] == 'sub' and K.kind(v[1][1], f) == 'ACC' and v[1][2] == key and \
                        v[2][0] == 'sub' and v[2][2] != key and v[2][1][0] == 'cmp' and K.kind(v[2][1][2], f) == 'ACC' or \
                        (not ok and v[0] == 'sub' and v[1][0] == 'sub' and K.kind(v[1][1], f) == 'ACC' and v[1][2] == key and
                         v[2][0] == 'sub' and v[2][2] != key and v[2][2][0] in ('idx', 'iter') and
                         any(K.kind(y, f) == 'ACC' for y in walk_term(v[2][1]))):
                    wit = True
                _tri(run, ok, wit, 'R-REPR', f, 'latter-map-entry', nd.lineno, 'latter_map[v] = live entries of ACC[v]',
                     'latter_map[%s] receives %s: not the live entries of the row of the same vertex'
                     % (show(key)[:40], show(val)[:80]), inputs='every graph')
                # keys: vertices with at least one live entry
                okk = key[0] == 'iter' and any(K.row_of_pred(x, f) is not None for x in walk_term(key[1]))
                # a witness: the keys run over every row index (range(len(ACC)) / enumerate) with no liveness condition
                allrows = key[0] in ('idx', 'iter') and not any(K.row_of_pred(x, f) is not None for x in walk_term(key)) and \
                    not any(K.row_of_pred(x, f) is not None or K.out_degree_row(x, f) is not None
                            for a_, p_ in ctx.conds(f, nd) for x in walk_term(a_)) and \
                    (key[0] == 'idx' or is_call(key[1], 'builtins.range'))
                _tri(run, okk, allrows, 'R-REPR', f, 'latter-map-keys', nd.lineno, 'keys are the vertices with a live entry',
                     'the keys of the latter map iterate %s with no liveness condition: vertices without arcs get an (empty) entry'
                     % show(key)[:80], inputs='graphs with dead vertices')
    run.floor('R-REPR', 'stores in accessor_to_latter_map', n, 1)
    g = ctx.p.func('dsw.graphized.accessor_to_adjacency_matrix')
    m = 0
    for nd in g.nodes:
        for d in nd.defs:
            if d.kind == 'mutate' and isinstance(d.extra, ast.Subscript) and isinstance(nd.stmt, ast.Assign):
                m += 1
                tg = g.term(_as_load(d.extra), nd)
                val = g.term(nd.stmt.value, nd)
                ok = False
                wit_ = val[0] == 'c' and val != ('c', 1)
                if tg[0] == 'sub' and tg[1][0] == 'sub' and val == ('c', 1):
                    rowidx, sel = tg[1][2], tg[2]
                    # sel = row[row >= 0] with row the accessor row enumerated with rowidx
                    if sel[0] == 'sub' and K.kind(sel[1], g) == 'ROW' and K.row_of_pred(sel[2], g) == sel[1]:
                        row = sel[1]
                        ok = (row[0] == 'iter' and rowidx[0] == 'idx' and rowidx[1] == row[1]) or \
                             (row[0] == 'sub' and row[2] == rowidx)
                        wit_ = not ok and ((row[0] == 'iter' and rowidx[0] == 'idx') or row[0] == 'sub')
                    elif sel[0] == 'sub' and K.kind(sel[1], g) == 'ROW':
                        wit_ = sel[2][0] in ('cmp', 'slice', 'c')        # another selection of the row (all entries, a wrong test)
                    elif K.kind(sel, g) == 'ROW':
                        wit_ = True                                       # the whole row, -1 included, used as column indices
                if tg[0] == 'sub' and tg[2][0] == 'tuple' and len(tg[2]) == 3 and tg[2][1][0] == 'sub' and \
                        K.kind(tg[2][1][1], g) == 'ROW' and tg[2][2][0] in ('idx', 'iter'):
                    wit_ = True          # matrix[live targets of v, v]: the arc is recorded from the target to the source
                if tg[0] == 'sub' and tg[1][0] == 'sub' and tg[1][2][0] == 'sub' and K.kind(tg[1][2][1], g) == 'ROW' and \
                        tg[2][0] in ('idx', 'iter'):
                    wit_ = True          # the same, as the terms write a[sel, i]
                _tri(run, ok, wit_, 'R-REPR', g, 'matrix-entry', nd.lineno, 'matrix[v][live entries of ACC[v]] = 1',
                          'the matrix store %s = %s is not matrix[v][live targets of v] = 1' % (show(tg)[:80], show(val)[:10]),
                          inputs='every graph')
    run.floor('R-REPR', 'stores in accessor_to_adjacency_matrix', m, 1)
    # the format guard of accessor_to_adjacency_matrix raises ValueError
    rs = [r for r in g.stmts(ast.Raise)]
    run.check(any(_exc_type(g, r) == 'ValueError' for r in rs), 'R-REPR', g, 'format-guard', g.node.lineno,
              'malformed accessor raises ValueError', 'no ValueError format guard', nontrivial=False)


def r_max(ctx):
    """remove_nasty_arc removes an arc whose score is the global maximum"""
    run = ctx.run
    run.rule('R-MAX', "remove_nasty_arc: the removed arc's row is drawn from where(scores == max(scores)) over the score array "
                      "returned by calculate_intersection_score for the same latter map and flags, and its column is "
                      "argmax(scores[row]) of the same array")
    f = ctx.p.func('dsw.spiderweb.remove_nasty_arc')
    stores = [(nd, tg) for nd, d, tg, v in acc_stores(ctx, f) if v == ('c', -1) and tg[0] == 'sub' and tg[1][0] == 'sub']
    if not stores:
        raise AnalysisError("rule R-MAX lost its anchor: cleared accessor entry")
    nd, tg = stores[0]
    row, col = tg[1][2], tg[2]
    scores = None
    # column = argmax(S[row])
    c0 = strip_int(col)
    okc = is_call(c0, 'numpy.argmax') and len(c0[2]) == 1 and c0[2][0][0] == 'sub' and strip_int(c0[2][0][2]) == strip_int(row)
    if okc:
        scores = c0[2][0][1]
    witc = ((c0[0] == 'call' and c0[1][0] == 'g' and c0[1][1].split('.')[-1] in ('argmin', 'nanargmin')) or
            (is_call(c0, 'numpy.argmax') and len(c0[2]) == 1 and c0[2][0][0] == 'un' and c0[2][0][1] == '-') or
            (is_call(c0, 'numpy.argmax') and len(c0[2]) == 1 and c0[2][0][0] == 'sub' and
                                            strip_int(c0[2][0][2]) != strip_int(row) and c0[2][0][2][0] in ('v', 'iter', 'sub', 'c')))
    if not okc and not witc:
        # where(S == max(S)) gives (rows, columns) of ALL maxima: a column taken from it is not tied to the chosen row
        for x in walk_term(c0):
            second = (x[0] == 'item' and x[2] == 1) or (x[0] == 'sub' and x[2] == ('c', 1))
            if second and any(is_call(y, 'numpy.where', 'numpy.nonzero') and y[2] and y[2][0][0] == 'cmp' for y in walk_term(x[1])) \
                    and not any(y == strip_int(row) for y in walk_term(c0)):
                witc = True
    _tri(run, okc, witc, 'R-MAX', f, 'column=argmax(scores[row])', nd.lineno, 'column is the argmax of the chosen row',
         'the cleared column is %s, not argmax(scores[row]) of the chosen row' % show(col)[:80], inputs='every call')
    is_score_call = scores is not None and call_name(scores) is not None and call_name(scores).endswith('.calculate_intersection_score')
    okscore = is_score_call and call_arg(scores, 0, 'latter_map') == ('v', 'latter_map', 'P')
    _tri(run, bool(okscore), is_score_call and not okscore, 'R-MAX', f, 'scores-of-this-graph', nd.lineno,
         'scores come from calculate_intersection_score(latter_map, ...)',
         'the scores the removed arc is chosen from are %s' % (show(scores)[:80] if scores else None), inputs='every call')
    # row drawn from the rows holding the global maximum
    okr = False

    def is_global_max(b):
        return scores is not None and is_call(b, 'numpy.max', 'numpy.amax') and b[2] == (scores,) and not b[3]
    for x in walk_term(row):
        if x[0] == 'cmp' and x[1] == '==' and scores is not None:
            for a, b in ((x[2], x[3]), (x[3], x[2])):
                if a == scores and is_global_max(b):
                    okr = True
    # search form: the row is a loop variable kept only when its own maximum / some entry equals the global maximum
    r0 = strip_int(row)
    if not okr and r0[0] in ('iter', 'v', 'idx') and scores is not None:
        conds_ = list(ctx.conds(f, nd))
        alts = f.alternatives(r0) if r0[0] == 'v' else None
        for d_, t_ in (alts or []):
            conds_ += list(ctx.conds(f, f.nodes[d_.node]))
        for atom, pol in conds_:
            for x in walk_term(atom):
                if x[0] == 'cmp' and x[1] == '==' and pol:
                    for a, b in ((x[2], x[3]), (x[3], x[2])):
                        if is_global_max(b) and any(y[0] == 'sub' and y[1] == scores for y in walk_term(a)):
                            okr = True
    witr = any(is_call(x, 'numpy.min', 'numpy.amin', 'numpy.argmin') for x in walk_term(row))
    # the row is selected by another predicate on the scores (scores != 0, scores > c, ...)
    for x in walk_term(row):
        if is_call(x, 'numpy.where', 'numpy.nonzero', 'numpy.flatnonzero', 'numpy.argwhere') and x[2]:
            sel = x[2][0]
            if scores is not None and any(y == scores for y in walk_term(sel)) and not any(is_global_max(y) for y in walk_term(sel)):
                witr = True
    _tri(run, okr, witr, 'R-MAX', f, 'row-among-global-maxima', nd.lineno, 'row is taken from where(scores == max(scores))',
         'the row of the removed arc (%s) is not drawn from the positions where the score equals the global maximum'
         % show(row)[:100], inputs='graphs whose maximum is not in the chosen row')
