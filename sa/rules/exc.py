"""R-EXC (explicit exception escape) and R-TYPED (typed dispatch arguments, integer-typed indices)."""
import ast

from ..core import AnalysisError, TermBuilder, call_arg, call_name, is_call, show, walk_term
from ..kinds import ALPHA

HIER = {
    'ValueError': ['ValueError', 'Exception', 'BaseException'],
    'TypeError': ['TypeError', 'Exception', 'BaseException'],
    'KeyError': ['KeyError', 'LookupError', 'Exception', 'BaseException'],
    'IndexError': ['IndexError', 'LookupError', 'Exception', 'BaseException'],
    'RuntimeError': ['RuntimeError', 'Exception', 'BaseException'],
    'NotImplementedError': ['NotImplementedError', 'RuntimeError', 'Exception', 'BaseException'],
    'MemoryError': ['MemoryError', 'Exception', 'BaseException'],
    'AssertionError': ['AssertionError', 'Exception', 'BaseException'],
    'StopIteration': ['StopIteration', 'Exception', 'BaseException'],
    'NetworkXNoCycle': ['NetworkXNoCycle', 'NetworkXUnfeasible', 'NetworkXAlgorithmError', 'NetworkXException',
                        'Exception', 'BaseException'],
}
EXTERNAL_RAISERS = {'networkx.find_cycle': 'NetworkXNoCycle', 'networkx.algorithms.cycles.find_cycle': 'NetworkXNoCycle'}


def _exc_type(f, nd):
    st = nd.stmt
    if st.exc is None:
        return 're-raise'
    e = st.exc
    if isinstance(e, ast.Call):
        e = e.func
    if isinstance(e, ast.Name):
        return e.id
    if isinstance(e, ast.Attribute):
        return e.attr
    return '?'


def _caught(f, nd, typ):
    """is an exception of type typ raised at node nd caught by an enclosing handler of f?"""
    for hid in nd.handlers:
        h = f.nodes[hid]
        t = h.ast
        if t is None:
            return True
        names = []
        for x in (t.elts if isinstance(t, ast.Tuple) else [t]):
            names.append(x.id if isinstance(x, ast.Name) else getattr(x, 'attr', '?'))
        chain = HIER.get(typ, [typ, 'Exception', 'BaseException'])
        if any(n in chain for n in names):
            return True
    return False


def is_dispatch_raise(ctx, f, nd):
    """the else-arm of a `type(x) == str / int` dispatch (removed at typed call sites, see R-TYPED)"""
    for atom, pol in ctx.conds(f, nd):
        if atom[0] == 'cmp' and atom[1] in ('==', 'is') and not pol:
            for a, b in ((atom[2], atom[3]), (atom[3], atom[2])):
                if is_call(a, 'builtins.type') and b[0] == 'g' and b[1] in ('builtins.str', 'builtins.int'):
                    return True
        if is_call(atom, 'builtins.isinstance') and not pol:
            return True
    # decided by evaluation: the raise is reachable neither when type(x) is str nor when it is int
    from ..finite import feval, UNKNOWN
    conds = ctx.conds(f, nd)
    if any(is_call(x, 'builtins.type') for a_, p_ in conds for x in walk_term(a_)):
        def reachable(T):
            def at(x):
                if is_call(x, 'builtins.type'):
                    return T
                if x[0] == 'g' and x[1] in ('builtins.str', 'builtins.int', 'builtins.float', 'builtins.list', 'builtins.bytes'):
                    return {'str': str, 'int': int, 'float': float, 'list': list, 'bytes': bytes}[x[1].split('.')[-1]]
                return UNKNOWN
            for a_, p_ in conds:
                v = feval(a_, at)
                if v is not UNKNOWN and bool(v) != p_:
                    return False
            return True
        if not reachable(str) and not reachable(int):
            return True
    return False


def parses_string(c):
    """int(x, base) / int(x, base=b): parsing a string in an explicit base raises ValueError on '' and on bad digits"""
    return isinstance(c.func, ast.Name) and c.func.id == 'int' and (len(c.args) == 2 or any(k.arg == 'base' for k in c.keywords))


def escapes(ctx, fq, _memo=None, _stack=()):
    """[(type, function, node, via)] of explicit exceptions that can leave function fq"""
    memo = _memo if _memo is not None else {}
    if fq in memo:
        return memo[fq]
    if fq in _stack:
        return []
    f = ctx.p.funcs[fq]
    out = []
    for nd in f.stmts(ast.Raise):
        if nd.kind != 'stmt':
            continue
        typ = _exc_type(f, nd)
        if is_dispatch_raise(ctx, f, nd):
            continue
        if not _caught(f, nd, typ):
            out.append((typ, f, nd, 'raise'))
    for nd, c, callee, q in ctx.calls()[fq]:
        if q in EXTERNAL_RAISERS:
            typ = EXTERNAL_RAISERS[q]
            if not _caught(f, nd, typ):
                out.append((typ, f, nd, 'call of ' + q))
        if q in ('functools.reduce',) and len(c.args) == 2 and not c.keywords and not _caught(f, nd, 'TypeError'):
            out.append(('TypeError', f, nd, 'call of functools.reduce(f, seq) without an initial value (raises on an empty sequence)'))
        if q == 'builtins.int' and parses_string(c) and not _caught(f, nd, 'ValueError'):
            out.append(('ValueError', f, nd, 'call of int(text, base) (raises on the empty string)'))
        if callee is not None:
            for typ, g, n2, via in escapes(ctx, callee.fq, memo, _stack + (fq,)):
                if not _caught(f, nd, typ):
                    out.append((typ, g, n2, via))
        elif q and q + '.__init__' in ctx.p.funcs:
            for typ, g, n2, via in escapes(ctx, q + '.__init__', memo, _stack + (fq,)):
                if not _caught(f, nd, typ):
                    out.append((typ, g, n2, via))
    # dedupe
    seen, res = set(), []
    for typ, g, n2, via in out:
        k = (typ, g.fq, n2.id)
        if k not in seen:
            seen.add(k)
            res.append((typ, g, n2, via))
    memo[fq] = res
    return res


def r_exc(ctx, fq, allowed, floor=0, exclude_funcs=()):
    run = ctx.run
    run.rule('R-EXC', "the explicit exception types (raise statements and the external raisers the repository calls, "
                      "e.g. networkx.find_cycle -> NetworkXNoCycle) that can escape an entry point, minus enclosing "
                      "handlers, propagated over the call graph, are within the set the property allows")
    run.trusted.add('external raiser table: ' + ', '.join('%s->%s' % kv for kv in sorted(EXTERNAL_RAISERS.items())))
    f = ctx.p.func(fq)
    esc = [e for e in escapes(ctx, fq) if e[1].fq not in exclude_funcs]
    counts = {}
    for typ, g, nd, via in esc:
        counts[g.fq] = counts.get(g.fq, 0) + 1
        role = 'escape-from-%s:%s#%d' % (f.name, via.split(' ')[0], counts[g.fq])
        run.check(typ in allowed, 'R-EXC', g, role, nd.lineno,
                  '%s (%s) is allowed to leave %s' % (typ, via, f.name),
                  "%s can leave %s (%s at %s); the property allows only %s"
                  % (typ, f.name, via, g.where(nd.lineno), sorted(allowed) or 'no exception'),
                  extracted=typ, expected=sorted(allowed),
                  inputs='inputs that drive the raising path')
    run.floor('R-EXC', 'explicit raise sites in the closure of %s' % fq, len(esc), floor)
    return esc


# ----------------------------------------------------------------------------------------------
def pytype(ctx, f, t, depth=0):
    """'int' | 'str' | 'np' | None  (python int / python str / numpy scalar or array / unknown)"""
    if depth > 8:
        return None
    k = t[0]
    if k == 'c':
        if isinstance(t[1], bool):
            return None
        if isinstance(t[1], int):
            return 'int'
        if isinstance(t[1], str):
            return 'str'
        return None
    if k == 'call':
        q = call_name(t)
        if q in ('builtins.int', 'builtins.len', 'builtins.round'):
            return 'int'
        if q == 'builtins.str':
            return 'str'
        if q and q.startswith('numpy.'):
            return 'np'
        if q:
            fn = ctx.p.resolve_func(q)
            if fn is not None:
                if fn.name in ('calculus_addition', 'calculus_subtraction', 'calculus_multiplication'):
                    return 'str'
                if fn.name in ('bit_to_number', 'dna_to_number'):
                    flag = call_arg(t, 1, 'is_string')
                    if flag is None or flag == ('c', True):
                        return 'str'
                    return None
        if t[1][0] == 'attr' and t[1][2] in ('index', 'count', 'find'):
            return 'int'
        if t[1][0] == 'attr' and t[1][2] in ('join', 'upper', 'lower', 'replace', 'zfill'):
            return 'str'
        return None
    if k == 'item':
        q = call_name(t[1]) if t[1][0] == 'call' else None
        if q and q.endswith('.calculus_division'):
            return 'str'
        if q == 'builtins.divmod':
            return pytype(ctx, f, t[1][2][0], depth + 1) if t[1][2] else None
        return None
    if k == 'iter':
        if is_call(t[1], 'builtins.range'):
            return 'int'
        return None
    if k == 'idx':
        return 'int'
    if k == 'bin':
        l, r = pytype(ctx, f, t[2], depth + 1), pytype(ctx, f, t[3], depth + 1)
        if 'np' in (l, r):
            return 'np'
        if l == r == 'int' and t[1] in ('+', '-', '*', '//', '%', '**'):
            return 'int'
        if l == r == 'str' and t[1] == '+':
            return 'str'
        return None
    if k == 'sub':
        b = pytype(ctx, f, t[1], depth + 1)
        if b == 'np':
            return 'np'
        if b == 'str':
            return 'str'
        for x in walk_term(t[1]):
            if x[0] == 'call' and call_name(x) and call_name(x).startswith('numpy.'):
                return 'np'
        return None
    if k == 'v' and t[2] == 'P' and t[1] in ('vt_length', 'observed_length', 'bit_length', 'dna_length', 'heap_size'):
        return 'int'        # documented as int in the public signatures
    if k == 'v':
        alts = f.alternatives(t)
        if alts:
            tys = set()
            for d, a in alts:
                if a is None or a == t:
                    return None
                tys.add(pytype(ctx, f, a, depth + 1))
            if len(tys) == 1:
                return tys.pop()
        return None
    return None


def r_typed_dispatch(ctx, fqs, floor=0):
    """(a) every call of number_to_bit / number_to_dna passes a python str or int"""
    run = ctx.run
    run.rule('R-TYPED', "(a) number_to_bit / number_to_dna dispatch on type(x) == str / int and raise otherwise: every "
                        "call site in dsw passes an expression typed python str or python int (a numpy scalar falls "
                        "through); (b) an index into the alphabet string is integer-typed for every input, including "
                        "the empty strand (numpy.array([]) without dtype is float64)")
    n = 0
    for fq in sorted(fqs):
        f = ctx.p.func(fq)
        k = 0
        for nd, c, callee, q in ctx.calls()[fq]:
            if callee is None or callee.name not in ('number_to_bit', 'number_to_dna'):
                continue
            n += 1
            k += 1
            t = f.term(c, nd)
            arg = call_arg(t, 0, 'decimal_number')
            ty = pytype(ctx, f, arg) if arg is not None else None
            role = '%s-argument#%d' % (callee.name, k)
            if ty in ('int', 'str'):
                run.ok('R-TYPED', f, role, nd.lineno, 'argument typed python %s' % ty, extracted=show(arg))
            elif ty == 'np':
                run.refute('R-TYPED', f, role, nd.lineno,
                           "%s receives %s, a numpy value: type(x) is neither str nor int, the dispatch raises ValueError"
                           % (callee.name, show(arg)), extracted=show(arg), inputs='every call reaching this site')
            else:
                run.undecided('R-TYPED', f, role, nd.lineno, 'type of %s not inferred' % (show(arg) if arg else None))
    run.floor('R-TYPED', 'number_to_bit / number_to_dna call sites', n, floor)


def untyped_arrays(t):
    """numpy.array(<comprehension or list>) calls without dtype= that are not under int()"""
    out = []

    def rec(x, under_int):
        if x[0] == 'call':
            q = call_name(x)
            if q in ('builtins.int',):
                under_int = True
            if q in ('numpy.array', 'numpy.asarray') and not under_int:
                if not any(k == 'dtype' for k, _ in x[3]) and len(x[2]) == 1 and x[2][0][0] in ('comp', 'list', 'call'):
                    a = x[2][0]
                    if a[0] == 'comp' or (a[0] == 'list' and len(a) == 1) or is_call(a, 'builtins.list', 'builtins.map'):
                        out.append(x)
        from ..core import children
        for c in children(x):
            rec(c, under_int)
    rec(t, False)
    return out


def r_typed_index(ctx, fq):
    """(b) in set_vt: indices into the alphabet are integer-typed also for the empty strand"""
    run = ctx.run
    f = ctx.p.func(fq)
    n = 0
    seen = set()
    for nd, s in ctx.all_subterms(f):
        if s[0] == 'sub' and (s[1] == ('c', ALPHA) or (s[1][0] == 'v' and s[1][1] == 'nucleotides')) and s not in seen:
            seen.add(s)
            if s[2][0] == 'slice':
                continue
            n += 1
            bad = untyped_arrays(s[2])
            run.check(not bad, 'R-TYPED', f, 'alphabet-index#%d' % n, nd.lineno,
                      'index into the alphabet is integer-typed for every strand',
                      "index %s into the alphabet derives from %s, whose dtype is float64 when the strand is empty: "
                      "TypeError for the empty strand (the encoding of an all-zero message)"
                      % (show(s[2])[:120], show(bad[0])[:120] if bad else ''),
                      inputs='the empty strand')
    run.floor('R-TYPED', 'alphabet subscripts in %s' % fq, n, 1)


def r_typed_mix(ctx, fq):
    """(c) a numpy scalar must not meet an unbounded Python integer (c ** f(parameter)) in % // * + -"""
    run = ctx.run
    f = ctx.p.func(fq)
    n = 0
    seen = set()

    def unbounded_power(t):
        t0 = t
        while is_call(t0, 'builtins.int') and len(t0[2]) == 1:
            t0 = t0[2][0]
        if t0[0] == 'bin' and t0[1] == '**' and t0[2][0] == 'c' and isinstance(t0[2][1], int) and t0[2][1] >= 2:
            return any(x[0] == 'v' and x[2] == 'P' for x in walk_term(t0[3]))
        return False
    for nd, s in ctx.all_subterms(f):
        if s[0] == 'bin' and s[1] in ('%', '//', '*', '+', '-') and s not in seen:
            for a, b in ((s[2], s[3]), (s[3], s[2])):
                if unbounded_power(b):
                    seen.add(s)
                    n += 1
                    ty = pytype(ctx, f, a)
                    run.check(ty != 'np', 'R-TYPED', f, 'numpy-scalar-meets-unbounded-int#%d' % n, nd.lineno,
                              'the other operand of the parameter-sized power is a Python int',
                              "%s combines the numpy value %s with %s, a Python integer that exceeds 64 bits once the parameter "
                              "is large enough: numpy raises OverflowError (Python int too large to convert to C long)"
                              % (f.name, show(a)[:70], show(b)[:40]), extracted=show(s)[:120],
                              inputs='check lengths of 33 or more (4 ** 32 does not fit a C long)')
    run.floor('R-TYPED', 'parameter-sized powers in %s' % fq, n, 1)


# ----------------------------------------------------------------------------------------------
BINDING_KINDS = ('param', 'assign', 'for', 'with', 'except', 'funcdef', 'import')


def _nonempty_iterable(it):
    """an iterable that certainly yields at least one element: a non-empty literal, range(c) with c > 0"""
    if isinstance(it, ast.Constant) and isinstance(it.value, (str, bytes)) and len(it.value) > 0:
        return True
    if isinstance(it, (ast.Tuple, ast.List, ast.Set)) and it.elts:
        return True
    if isinstance(it, ast.Call) and isinstance(it.func, ast.Name) and it.func.id == 'range' and it.args and \
            all(isinstance(a, ast.Constant) and isinstance(a.value, int) for a in it.args):
        return len(range(*[a.value for a in it.args])) > 0
    if isinstance(it, ast.Call) and isinstance(it.func, ast.Name) and it.func.id in ('enumerate', 'reversed', 'sorted', 'list') \
            and it.args:
        return _nonempty_iterable(it.args[0])
    return False


def possibly_unbound(ctx, f):
    """forward must-analysis of definite assignment over the CFG: loads of a local name on a path without a binding.
    The target of `for x in it` is bound only on the edge into the body (unless `it` is certainly non-empty)."""
    f.build()
    names = {d.name for d in f.defs if d.kind in BINDING_KINDS}
    params = {d.name for d in f.defs if d.kind == 'param'}
    bind = {}
    for d in f.defs:
        if d.kind in BINDING_KINDS and d.kind != 'param':
            bind.setdefault(d.node, set()).add(d.name)
    dele = {}
    for d in f.defs:
        if d.kind == 'delete':
            dele.setdefault(d.node, set()).add(d.name)
    ALL = frozenset(names)
    din = {n.id: ALL for n in f.nodes}
    din[f.entry.id] = frozenset(params)

    bodies = {n.id: {m.id for m in f.nodes if n.id in m.loops} for n in f.nodes if n.kind in ('for', 'while')}

    def runs_once(n):
        """the loop body certainly executes before the loop is left normally"""
        if n.kind == 'for':
            return _nonempty_iterable(n.stmt.iter)
        t = n.ast
        if isinstance(t, ast.Constant):
            return bool(t.value)
        neg = False
        while isinstance(t, ast.UnaryOp) and isinstance(t.op, ast.Not):
            neg, t = not neg, t.operand
        if isinstance(t, ast.Name) and t.id in names:
            outside = [f.defs[i] for i in f.reaching(n.id, t.id) if f.defs[i].node not in bodies[n.id]]
            return bool(outside) and all(d.kind == 'assign' and not d.path and isinstance(d.value, ast.Constant) and
                                         bool(d.value.value) != neg for d in outside)
        return False
    once = {i for i in bodies if runs_once(f.nodes[i])}
    dback = {i: ALL for i in once}        # state carried by the back edges of loops that run at least once
    back_seen = set()

    def out_on_edge(n, s):
        leaving = n.kind in ('for', 'while') and s not in bodies.get(n.id, ())
        if leaving and n.id in once:
            cur = set(dback[n.id]) if n.id in back_seen else set(ALL)       # left only after a complete first round
        else:
            cur = set(din[n.id])
        b = bind.get(n.id, set())
        if n.kind == 'for' and leaving and n.id not in once:
            b = set()          # leaving the loop without an iteration: the loop variables were never bound
        cur |= b
        cur -= dele.get(n.id, set())
        return cur
    # ---- mode atoms: parameter-only boolean terms tested more than once (is_faster, verbose, `x is None`): the analysis is
    # repeated under every assignment of them, with the contradicting branch edges removed, so that correlated tests
    # (bind under `if flag:`, read under `if flag:`) are followed consistently
    from ..finite import feval, UNKNOWN
    from ..core import walk_term
    tests = {}
    for n in f.nodes:
        if n.kind in ('test', 'while') and n.ast is not None:
            try:
                tests[n.id] = f.term(n.ast, n)
            except AnalysisError:
                pass
    count = {}
    for t in tests.values():
        seen_here = set()
        for x in walk_term(t):
            leaf = None
            if x[0] == 'v' and x[2] == 'P':
                leaf = x
            elif x[0] == 'cmp' and x[1] in ('is', 'is not') and x[3] == ('c', None) and x[2][0] == 'v' and x[2][2] == 'P':
                leaf = ('cmp', 'is', x[2], x[3])
            if leaf is not None and leaf not in seen_here:
                seen_here.add(leaf)
                count[leaf] = count.get(leaf, 0) + 1
    # a bare parameter that is also compared with None is represented by the comparison only
    none_tested = {l[2] for l in count if l[0] == 'cmp'}
    atoms = sorted((l for l, c in count.items() if c >= 2 and not (l[0] == 'v' and l in none_tested)), key=repr)[:5]
    import itertools
    assignments = [dict(zip(atoms, bits)) for bits in itertools.product((False, True), repeat=len(atoms))] or [{}]

    def edge_ok(n, s, assign):
        if n.id not in tests or not assign or len(n.succ) != 2:
            return True

        def at(x):
            if x in assign:
                return assign[x]
            if x[0] == 'cmp' and x[1] == 'is not' and ('cmp', 'is') + x[2:] in assign:
                return not assign[('cmp', 'is') + x[2:]]
            return UNKNOWN
        v = feval(tests[n.id], at)
        if v is UNKNOWN:
            return True
        pols = {}
        for s2 in n.succ:
            for _t, p_, tid in f.nodes[s2].conds:
                if tid == n.id:
                    pols[s2] = p_
        if len(pols) == 1:                      # the other edge is the complementary one
            (k1, p1), = pols.items()
            for s2 in n.succ:
                if s2 != k1:
                    pols[s2] = not p1
        if s not in pols:
            return True
        return pols[s] == bool(v)
    all_hits = None
    for assign in assignments:
        hits_a = _unbound_under(ctx, f, names, params, bind, dele, ALL, bodies, once, lambda n, s, a=assign: edge_ok(n, s, a))
        all_hits = hits_a if all_hits is None else (all_hits | hits_a)
    hits = []
    for nid, name in sorted(all_hits or ()):
        hits.append((f.nodes[nid], name))
    return hits


def _unbound_under(ctx, f, names, params, bind, dele, ALL, bodies, once, edge_ok):
    din = {n.id: ALL for n in f.nodes}
    din[f.entry.id] = frozenset(params)
    dback = {i: ALL for i in once}
    back_seen = set()

    def out_on_edge(n, s):
        leaving = n.kind in ('for', 'while') and s not in bodies.get(n.id, ())
        if leaving and n.id in once:
            cur = set(dback[n.id]) if n.id in back_seen else set(ALL)       # left only after a complete first round
        else:
            cur = set(din[n.id])
        b = bind.get(n.id, set())
        if n.kind == 'for' and leaving and n.id not in once:
            b = set()          # leaving the loop without an iteration: the loop variables were never bound
        cur |= b
        cur -= dele.get(n.id, set())
        return cur
    work = [f.entry.id]
    seen_once = set()
    rounds = 0
    while work:
        rounds += 1
        if rounds > 200000:
            raise AnalysisError("definite-assignment analysis of %s does not converge" % f.fq)
        i = work.pop()
        n = f.nodes[i]
        for s in n.succ:
            if not edge_ok(n, s):
                continue
            o = frozenset(out_on_edge(n, s))
            changed_ = False
            if s in once and i in bodies[s]:
                nb = o & dback[s] if s in back_seen else o
                if s not in back_seen or nb != dback[s]:
                    dback[s] = nb
                    back_seen.add(s)
                    changed_ = True
            new = o & din[s] if s in seen_once else o
            if s not in seen_once or new != din[s]:
                din[s] = new
                seen_once.add(s)
                changed_ = True
            if changed_:
                work.append(s)
    hits = []

    def guarded_like_a_binding(n, name):
        """some binding of `name` that can reach n sits under path conditions that all hold at n too (same terms, same
        polarity; terms carry definition versions, so a re-assigned test variable does not match) and is not inside a loop
        that n is outside of"""
        uc = set(ctx.conds(f, n))
        for d in f.defs:
            if d.name != name or d.kind not in BINDING_KINDS or d.kind == 'param':
                continue
            bn = f.nodes[d.node]
            if d.kind == 'for' and not (bn.id in n.loops):
                continue
            if tuple(bn.loops) != tuple(n.loops[:len(bn.loops)]):
                continue
            if n.id not in f.reachable_from(bn.id) and n.id != bn.id:
                continue
            if set(ctx.conds(f, bn)) <= uc and ctx.conds(f, bn):
                return True
        return False
    out = set()
    for n in f.nodes:
        if n.id not in seen_once and n.id != f.entry.id:
            continue            # unreachable
        roots = ctx.roots(n)
        for r in roots:
            scoped = set()
            for x in ast.walk(r):
                if isinstance(x, (ast.ListComp, ast.SetComp, ast.DictComp, ast.GeneratorExp)):
                    for g in x.generators:
                        scoped |= {y.id for y in ast.walk(g.target) if isinstance(y, ast.Name)}
                if isinstance(x, ast.Lambda):
                    scoped |= {a.arg for a in x.args.args}
                if isinstance(x, ast.NamedExpr) and isinstance(x.target, ast.Name):
                    scoped.add(x.target.id)
            for x in ast.walk(r):
                if isinstance(x, ast.Name) and isinstance(x.ctx, ast.Load) and x.id in names and x.id not in scoped and \
                        x.id not in din[n.id] and not guarded_like_a_binding(n, x.id):
                    out.add((n.id, x.id))
        # an augmented assignment reads its target first
        for d in n.defs:
            if d.kind == 'aug' and isinstance(n.stmt, ast.AugAssign) and d.name in names and d.name not in din[n.id] and \
                    not guarded_like_a_binding(n, d.name):
                out.add((n.id, d.name))
    return out


def r_unbound(ctx, entries):
    """no UnboundLocalError: every read of a local name is preceded by a binding on every path.  Decided on the sources as
    written (before helper inlining, which introduces flag-correlated temporaries), nested functions included."""
    from ..core import Func
    from ..ctx import Ctx
    run = ctx.run
    run.rule('R-EXC', "definite assignment: on every CFG path to a read of a local name there is a binding of it; the loop "
                      "variable of `for x in it` counts as bound after the loop only if `it` is certainly non-empty; a read "
                      "under the same path conditions as an earlier binding counts as bound")
    pp = ctx.p.pristine()
    pctx = ctx if pp is ctx.p else getattr(ctx, '_pristine_ctx', None)
    if pctx is None:
        pctx = Ctx(pp, run)
        ctx._pristine_ctx = pctx
    entries = [q for q in entries if q in pp.funcs]
    clo = pctx.closure(*entries) if entries else set()
    n = 0
    for fq in sorted(clo):
        f = pp.func(fq)
        units = [f]
        for sub in ast.walk(f.node):
            if isinstance(sub, ast.FunctionDef) and sub is not f.node:
                units.append(Func(f.module, sub, f.qual + '.<locals>.' + sub.name, f.cls))
        for u in units:
            try:
                hits = possibly_unbound(pctx, u)
            except AnalysisError:
                raise
            n += 1
            seen = set()
            for nd, name in hits:
                if (nd.lineno, name) in seen:
                    continue
                seen.add((nd.lineno, name))
                run.refute('R-EXC', u, 'definitely-assigned:%s' % name, nd.lineno,
                           "`%s` is read at line %d of %s on a path that never binds it (e.g. a loop that does not execute, a branch "
                           "that skips the assignment): UnboundLocalError escapes" % (name, nd.lineno, u.name),
                           inputs='inputs that take the path without the binding (an empty sequence, an error in the last position)')
            if not hits:
                run.ok('R-EXC', u, 'definitely-assigned', u.node.lineno, 'every local is bound before it is read', nontrivial=False)
    return n
