"""R-WALK, R-DEG, R-SEL, R-BASE, R-ENDIAN, R-AHEAD, R-VTUSE: the coder (encode / decode) and every
other graph walk (repair_dna, path_matching)."""
import ast
import itertools

from ..core import AnalysisError, TermBuilder, call_arg, call_name, is_call, show, walk_term, children
from ..ctx import flatten_cond, path_decisions, walk_path
from ..finite import UNKNOWN, feval
from ..kinds import ALPHA

START_PARAMS = ('start_index', 'previous_index')


def is_alpha(t):
    return t == ('c', ALPHA) or (t[0] == 'v' and t[1] == 'nucleotides')


def alpha_index_of(t):
    """ALPHA.index(sym) -> sym ; {"A":0,..}[sym] -> sym"""
    if t[0] == 'call' and t[1][0] == 'attr' and t[1][2] in ('index', 'find') and is_alpha(t[1][1]) and len(t[2]) == 1:
        return t[2][0]      # find() is index() where the symbol is a letter; whether it is one is the membership guard's business
    if t[0] == 'sub' and t[1][0] == 'dict':
        try:
            table = {k[1]: v[1] for k, v in t[1][1:]}
        except Exception:
            return None
        if table == {'A': 0, 'C': 1, 'G': 2, 'T': 3}:
            return t[2]
    # X[[ALPHA[i] for i in X].index(sym)]: the element i of X with ALPHA[i] == sym, i.e. ALPHA.index(sym) whenever it is defined
    if t[0] == 'sub' and t[2][0] == 'call' and t[2][1][0] == 'attr' and t[2][1][2] == 'index' and len(t[2][2]) == 1:
        X, Y = t[1], t[2][1][1]
        while is_call(Y, 'builtins.tuple', 'builtins.list') and len(Y[2]) == 1:
            Y = Y[2][0]
        if Y[0] == 'comp' and Y[1] == 'list' and len(Y[3]) == 1 and not Y[3][0][1] and Y[3][0][0] == X and \
                Y[2][0] == 'sub' and is_alpha(Y[2][1]) and Y[2][2][0] == 'iter' and Y[2][2][1] == X:
            return t[2][2][0]
    return None


class Step:
    def __init__(self, f, d, node, term, acc, state, col):
        self.f, self.d, self.node, self.term, self.acc, self.state, self.col = f, d, node, term, acc, state, col
        self.sym = alpha_index_of(col)
        self.reader = self.sym is not None


def walk_steps(ctx, f):
    K = ctx.kinds
    out, seen = [], set()
    for d in f.defs:
        if d.kind != 'assign' or d.value is None:
            continue
        t = TermBuilder(f, d.node).def_term(d.id)
        if t is None or t[0] != 'sub' or t[1][0] != 'sub' or K.kind(t[1][1], f) != 'ACC':
            continue
        state, col = t[1][2], t[2]
        if col[0] == 'slice' or state[0] == 'slice':
            continue
        ok = False
        if state[0] == 'v' and (state[1] == d.name or state[1] in START_PARAMS):
            ok = True
        elif state[0] == 'sub' and state[1][0] == 'sub' and K.kind(state[1][1], f) == 'ACC':
            ok = True       # a second hop taken from the result of a first one
        elif state[0] == 'v':
            alts = f.alternatives(state) or []
            ok = any(a is not None and a[0] == 'v' and a[1] in START_PARAMS for _, a in alts)
        if not ok or (d.node, t) in seen:
            continue
        seen.add((d.node, t))
        out.append(Step(f, d, f.nodes[d.node], t, t[1][1], state, col))
    # a temporary that only carries the new state into the state variable (`t = ACC[S][c]; S = t`) is the same step
    by_term = {}
    for s in out:
        by_term.setdefault(s.term, []).append(s)
    keep = []
    for term, ss in by_term.items():
        named = [s for s in ss if s.state[0] == 'v' and s.d.name == s.state[1]]
        keep.extend(named if named else [min(ss, key=lambda s: s.node.id)])
    keep.sort(key=lambda s: s.node.id)
    return keep


def strip_wrappers(t):
    """elements of list(X), tuple(X), filter(pred, X), sorted(X) are elements of X"""
    while True:
        if is_call(t, 'builtins.list', 'builtins.tuple', 'builtins.sorted', 'builtins.reversed', 'builtins.set') \
                and len(t[2]) == 1:
            t = t[2][0]
        elif is_call(t, 'builtins.filter') and len(t[2]) == 2:
            t = t[2][1]
        elif t[0] == 'comp' and t[1] in ('list', 'gen', 'set') and len(t[3]) == 1 and t[2][0] == 'iter' and t[2][1] == t[3][0][0]:
            t = t[3][0][0]          # [x for x in X if cond]: a sub-collection of X
        else:
            return t


def membership_guard(ctx, f, step):
    """how is `sym is a live letter of the step's source vertex` established on EVERY path that reaches the step?"""
    K = ctx.kinds
    sym, state, acc = step.sym, step.state, step.acc

    def live_of(x):
        ls = K.live_set(x, f)
        return ls is not None and ls[1] == state and ls[0] == acc

    def letters_of(x):
        lv = K.live_letters(x, f)
        return lv is not None and live_of(lv)

    def atom_establishes(atom, pol):
        if not pol or atom[0] != 'cmp':
            return None
        if atom[1] == 'in' and atom[2] == sym and letters_of(strip_wrappers(atom[3])):
            return 'symbol in live letters of the same vertex'
        if atom[1] == '==':
            for a, b in ((atom[2], atom[3]), (atom[3], atom[2])):
                if a == sym and b[0] == 'sub' and is_alpha(b[1]) and b[2][0] == 'sub' and b[2][2] == ('c', 0) \
                        and live_of(b[2][1]):
                    return 'symbol equals the first live letter of the same vertex'
        return None
    def derived_from_graph(s_):
        """the symbol is computed from a row of the accessor (in a form not recognised as its live letters): its relation to the
        live letters is unknown, not absent"""
        return any(K.kind(x, f) in ('ACC', 'ROW', 'ENTRY') for x in walk_term(s_) if x[0] in ('sub', 'v'))
    # (2) sym drawn by iteration from the live letters, or from a filtered sub-collection of them
    if sym[0] == 'iter' and letters_of(strip_wrappers(sym[1])):
        return 'symbol iterates over the live letters of the same vertex'
    if sym[0] == 'iter':
        src = strip_wrappers(sym[1])
        if src[0] == 'comp' and src[1] in ('list', 'gen', 'set') and len(src[3]) == 1 and src[3][0][1]:
            unfiltered = ('comp', 'list', src[2], ((src[3][0][0], ()),))
            if letters_of(unfiltered):
                return 'symbol iterates over a filtered selection of the live letters of the same vertex'
    # (1) path conditions of the step itself
    for atom, pol in ctx.conds(f, step.node):
        h = atom_establishes(atom, pol)
        if h:
            return 'path condition: ' + h
    # (3) path-wise: on every path from the loop head (or the function entry) to the step, a decision or a successful
    #     live_letters.index(symbol) establishes membership
    def node_indexes(nd):
        for n2, r, t in ctx.root_terms(f):
            if n2.id != nd.id:
                continue
            for s in walk_term(t):
                if s[0] == 'call' and s[1][0] == 'attr' and s[1][2] == 'index' and len(s[2]) == 1 and s[2][0] == sym \
                        and letters_of(strip_wrappers(s[1][1])):
                    return True
        return False
    loop = step.node.loops[-1] if step.node.loops else None
    if loop is not None:
        hows, total = set(), 0
        for path, kind in ctx.body_paths(f, loop):
            if step.node.id not in path:
                continue
            total += 1
            upto = path[:path.index(step.node.id)]
            how = None
            dec = {nd.id: pol for nd, pol in path_decisions(f, path)}
            for i, nid in enumerate(upto):
                nd = f.nodes[nid]
                if nid in dec and dec[nid] is not None:
                    for atom, pol in flatten_cond(f.term(nd.ast, nd), dec[nid]):
                        how = how or atom_establishes(atom, pol)
                if node_indexes(nd):
                    nxt = f.nodes[path[i + 1]] if i + 1 < len(path) else None
                    if nxt is None or nxt.kind != 'except':
                        how = how or 'live_letters.index(symbol) succeeded (ValueError when absent)'
            if how is None:
                # is the symbol examined at all on this path?  if some test / index() involving it exists but is not of a
                # recognised form, the rule cannot decide; only a path that never looks at the symbol is a refutation
                mentions = False
                for nid in upto:
                    nd = f.nodes[nid]
                    for n2, r, t in ctx.root_terms(f):
                        if n2.id == nid and nd.kind in ('test', 'stmt') and any(x == sym for x in walk_term(t)) and \
                                (nd.kind == 'test' or any(x[0] == 'call' and x[1][0] == 'attr' and x[1][2] in ('index', 'find')
                                                          for x in walk_term(t))):
                            # a test of the symbol against the whole alphabet establishes nothing about the vertex
                            only_alpha = nd.kind == 'test' and all(
                                a[0] == 'cmp' and a[1] == 'in' and a[2] == sym and is_alpha(a[3])
                                for a, _p in flatten_cond(t, True) if any(x == sym for x in walk_term(a)))
                            if nd.kind == 'stmt':
                                # ALPHA.index(sym) / ALPHA.find(sym) looks the symbol up in the whole alphabet: no vertex involved
                                calls_ = [x for x in walk_term(t) if x[0] == 'call' and x[1][0] == 'attr' and
                                          x[1][2] in ('index', 'find') and any(y == sym for y in walk_term(x))]
                                only_alpha = bool(calls_) and all(is_alpha(x[1][1]) for x in calls_)
                            if not only_alpha:
                                mentions = True
                opaque = any(x[0] == 'call' and (x[1][0] == 'v' or (x[1][0] == 'g' and (x[1][1].startswith('?.') or
                                                                               ctx.p.resolve_func(x[1][1]) is not None)))
                             for x in walk_term(sym))
                return 'UNCLASSIFIED' if (mentions or opaque or derived_from_graph(sym)) else None
            hows.add(how)
        if total:
            return 'on all %d paths to the step: %s' % (total, '; '.join(sorted(hows)))
    # straight-line code before a loop: dominating evaluation
    dom = f.dominators()[step.node.id]
    for nd in f.nodes:
        if nd.id in dom and nd.id != step.node.id and node_indexes(nd):
            return 'dominating live_letters.index(symbol) (ValueError when absent)'
    # a symbol produced by something this analysis does not look into (a local generator, an opaque call): its relation to
    # the live letters is unknown, not absent
    for x in walk_term(sym):
        if x[0] == 'call' and (x[1][0] == 'v' or (x[1][0] == 'g' and (x[1][1].startswith('?.') or ctx.p.resolve_func(x[1][1]) is not None))):
            return 'UNCLASSIFIED'
    if derived_from_graph(sym):
        return 'UNCLASSIFIED'
    return None


def emitter_source(ctx, f, step):
    """every definition of the column reaching an emitting step is LIVE(S')[...] for the step's S'"""
    K = ctx.kinds
    bad, good = [], []
    alts = f.alternatives(step.col)
    terms = [t for _, t in alts] if alts and len(alts) > 1 else [step.col]
    for t in terms:
        if t is not None and t[0] == 'sub':
            ls = K.live_set(t[1], f)
            if ls is not None and ls[1] == step.state and ls[0] == step.acc:
                good.append(t)
                continue
        bad.append(t)
    return good, bad


def _stale_source(f, s):
    """a reader step inside a loop over successive symbols of a strand whose source vertex is invariant in that loop"""
    if not s.node.loops:
        return False
    L = s.node.loops[-1]
    sym = s.sym
    if not (sym is not None and sym[0] == 'iter' and sym[2] == L):
        return False
    src = sym[1]
    if is_call(src, 'builtins.enumerate') and src[2]:
        src = src[2][0]
    if not (src[0] == 'sub' and src[2][0] == 'slice' and src[1][0] == 'v' and src[1][2] == 'P') and not (src[0] == 'v' and src[2] == 'P'):
        return False
    inside = {d.id for d in f.defs if L in f.nodes[d.node].loops}
    for x in walk_term(s.state):
        if x[0] in ('iter', 'idx') and x[-1] == L:
            return False
        if x[0] == 'v' and isinstance(x[2], tuple) and any(v in inside for v in x[2]):
            return False
        if x[0] == 'v' and x[2] not in ('P',) and not isinstance(x[2], tuple):
            return False
    return True


def loop_of(f, node):
    return node.loops[-1] if node.loops else None


def r_walk(ctx, fqs, floors=None):
    """walk-step coherence for every graph walk in the given functions"""
    run = ctx.run
    run.rule('R-WALK', "every state update S = ACC[S'][c] uses a column proven live for S' (emitters: c is drawn from "
                       "LIVE(S'), emitted letter is ALPHA[c]; readers: c = ALPHA.index(sym) under a membership test "
                       "on the live letters of S'), and each non-raising path through a per-symbol loop has exactly "
                       "one state update")
    total = {}
    for fq in sorted(fqs):
        f = ctx.p.func(fq)
        steps = walk_steps(ctx, f)
        total[fq] = len(steps)
        for i, s in enumerate(steps):
            role = 'walk-step#%d' % (i + 1)
            if s.reader and _stale_source(f, s):
                run.refute('R-WALK', f, role + ':source-advances', s.node.lineno,
                           'the step %s consumes successive symbols of the strand in the loop at line %d, but its source vertex %s does '
                           'not change from one symbol to the next (a row or vertex read once before the loop): from the second symbol '
                           'on the walk follows arcs of the first vertex'
                           % (show(s.term)[:80], f.nodes[s.node.loops[-1]].lineno, show(s.state)[:60]),
                           extracted=show(s.term), inputs='any strand with two or more symbols after the repaired position')
                continue
            if s.reader:
                how = membership_guard(ctx, f, s)
                uses_find = any(x[0] == 'call' and x[1][0] == 'attr' and x[1][2] == 'find' for x in walk_term(s.col))
                if uses_find and (how is None or how == 'UNCLASSIFIED'):
                    # str.find gives -1 for a symbol that is not a letter, and -1 is a valid column (the last one): only a test of
                    # the symbol itself (in the live letters, in ACGT, find(...) >= 0) protects the look-up; a test of the ENTRY
                    # found there does not
                    about = [a_ for a_, p_ in ctx.conds(f, s.node) if any(x == s.sym for x in walk_term(a_))]
                    entry_only = bool(about) and all(
                        any(x[0] == 'sub' and x[2] == s.col for x in walk_term(a_)) and
                        not any(x[0] == 'cmp' and x[1] in ('in', 'not in') and x[2] == s.sym for x in walk_term(a_)) for a_ in about)
                    if how is None or entry_only:
                        run.refute('R-WALK', f, role + ':guard', s.node.lineno,
                                   "the column of the state update is %s: str.find answers -1 for a symbol outside ACGT, and column -1 is "
                                   "the T column, so a foreign character is read as T (where .index raised ValueError)%s"
                                   % (show(s.col)[:50], '; the only test on the way looks at the entry found, not at the symbol'
                                      if entry_only else ''), extracted=show(s.term),
                                   inputs='strands containing a character outside ACGT at a vertex with an arc T')
                        continue
                if how == 'UNCLASSIFIED':
                    run.undecided('R-WALK', f, role + ':guard', s.node.lineno,
                                  'the symbol is examined before the state update, but not in a form recognised as a '
                                  'membership test on the live letters of the current vertex', extracted=show(s.term))
                elif how:
                    run.ok('R-WALK', f, role + ':guard', s.node.lineno, how, extracted=show(s.term))
                else:
                    run.refute('R-WALK', f, role + ':guard', s.node.lineno,
                               "state update %s follows the arc of symbol %s without establishing that it is a live "
                               "letter of the current vertex: the entry may be -1 and ACC[-1] silently wraps to the "
                               "last vertex" % (show(s.term), show(s.sym)),
                               extracted=show(s.term),
                               inputs='any strand with a symbol that is not an arc of the current vertex')
            else:
                good, bad = emitter_source(ctx, f, s)
                if not bad:
                    run.ok('R-WALK', f, role + ':source', s.node.lineno,
                           'column drawn from the live set of the same vertex on all %d definitions' % len(good),
                           extracted=show(s.term))
                elif all(b is not None and _rooted_in_live(ctx, f, b, s) for b in bad):
                    # every unmatched definition is still computed FROM the live set of this vertex (an element taken another way:
                    # LIVE[-1] at out-degree 1, a tuple unpacking, an index through a temporary): not decided, not a deviation
                    run.undecided('R-WALK', f, role + ':source', s.node.lineno,
                                  'the column %s is derived from the live set of the same vertex in a form not matched here'
                                  % '; '.join(show(b)[:60] for b in bad))
                else:
                    run.refute('R-WALK', f, role + ':source', s.node.lineno,
                               "column of state update %s is not drawn from the live arcs of the same vertex: %s"
                               % (show(s.term), '; '.join(show(b) if b else 'non-expression' for b in bad)),
                               extracted=show(s.term), inputs='vertices whose live arcs are not a prefix of A,C,G,T')
        # (c) one step per back-edge path of each per-symbol loop
        loops = {}
        for s in steps:
            l = loop_of(f, s.node)
            if l is not None:
                loops.setdefault(l, []).append(s)
        for li, (hid, ss) in enumerate(sorted(loops.items())):
            # rule (c) is about loops that consume / emit one strand symbol per iteration; a loop over candidate letters
            # whose body takes a first step (path_matching) is not one of them
            if ss[0].reader and not any(_strand_symbol(f, s, hid) for s in ss):
                continue
            stepnodes = {s.node.id for s in ss}
            resync = resync_nodes(ctx, f, ss)
            paths = ctx.body_paths(f, hid)
            role = 'loop#%d:one-step-per-path' % (li + 1)
            badp = []
            nback = 0
            for path, kind in paths:
                if kind != 'back':
                    continue
                nback += 1
                k = sum(1 for n in path if n in stepnodes or n in resync)
                if k != 1:
                    badp.append((k, [f.nodes[n].lineno for n in path if f.nodes[n].kind in ('test', 'while')]))
            if badp:
                k, tests = badp[0]
                run.refute('R-WALK', f, role, f.nodes[hid].lineno,
                           "%d of %d paths through the per-symbol loop take %s state updates (first: %d updates, "
                           "branch tests at lines %s)" % (len(badp), nback, 'other than one', k, tests),
                           inputs='strands that drive that path: a symbol is consumed / emitted without following '
                                  'its arc, or an arc is followed twice')
            else:
                run.ok('R-WALK', f, role, f.nodes[hid].lineno, '%d back-edge paths, one state update each' % nback)
            # emitters: the emitted letter is ALPHA[c] of the same c, once per path
            if not ss[0].reader:
                check_emission(ctx, f, hid, ss, paths, li)
    if floors:
        for fq, n in floors.items():
            run.floor('R-WALK', 'walk steps in %s' % fq, total.get(fq, 0), n)
    return total


def _strand_symbol(f, step, hid):
    """is the symbol of this reader step an element of the strand (a parameter named dna_sequence, or a slice of it)?"""
    sym = step.sym
    if sym is None:
        return False
    for x in walk_term(sym):
        if x == ('v', 'dna_sequence', 'P'):
            return True
    return False


def resync_nodes(ctx, f, steps):
    """S = dna_to_number(STRAND[lo:hi]) : the resynchronisation of a reader's state from the strand"""
    out = set()
    names = {s.d.name for s in steps}
    for d in f.defs:
        if d.name in names and d.kind == 'assign' and d.value is not None:
            t = TermBuilder(f, d.node).def_term(d.id)
            if t is not None and call_name(t) and call_name(t).endswith('.dna_to_number'):
                out.add(d.node)
    return out


def output_strand_names(f):
    """names of str accumulators that reach a return value (directly or as the first tuple component)"""
    names = set()
    for nd in f.stmts(ast.Return):
        v = nd.stmt.value
        if isinstance(v, ast.Name):
            names.add(v.id)
        elif isinstance(v, ast.Tuple) and v.elts and isinstance(v.elts[0], ast.Name):
            names.add(v.elts[0].id)
    return names


def check_emission(ctx, f, hid, steps, paths, li):
    run = ctx.run
    outs = output_strand_names(f)
    role = 'loop#%d:emitted-letter' % (li + 1)
    stepnodes = {s.node.id: s for s in steps}
    nback, bad, unknown = 0, None, False
    for path, kind in paths:
        if kind != 'back':
            continue
        nback += 1
        events, _ = walk_path(f, path)
        cols = [e.term for e in events if e.kind == 'def' and e.node.id in stepnodes and e.name == stepnodes[e.node.id].d.name]
        emitted = [e.extra for e in events if e.kind == 'aug' and e.name in outs]
        if len(cols) != 1:
            continue        # reported by one-step-per-path
        col = cols[0][2]
        if len(emitted) == 0:
            # the strand may be collected as a list of letters and joined at the end
            appended = [e.term[0] for e in events if e.kind == 'append' and len(e.term) == 1 and
                        e.term[0][0] == 'sub' and is_alpha(e.term[0][1])]
            if len(appended) == 1:
                emitted = appended
            elif not appended:
                unknown = True
                continue
        if len(emitted) != 1:
            bad = "%d letters appended to the strand on a path with one state update" % len(emitted)
            break
        e = emitted[0]
        if not (e[0] == 'sub' and is_alpha(e[1]) and e[2] == col):
            bad = "emitted letter %s is not ALPHA[column] of the followed arc (column %s)" % (show(e), show(col))
            break
    if bad:
        run.refute('R-WALK', f, role, f.nodes[hid].lineno, bad,
                   inputs='every message: the strand is not the walk the state follows')
    elif unknown:
        run.undecided('R-WALK', f, role, f.nodes[hid].lineno, 'how the emitted letters are collected is not recognised')
    else:
        run.ok('R-WALK', f, role, f.nodes[hid].lineno, 'on %d paths the appended letter is ALPHA[c] for the followed column c' % nback)


# ----------------------------------------------------------------------------------------------
# R-DEG / R-SEL / R-BASE / R-ENDIAN / R-AHEAD on the coder loops
# ----------------------------------------------------------------------------------------------
class CoderLoop:
    def __init__(self, f, hid, steps, mode, paths):
        self.f, self.hid, self.steps, self.mode, self.paths = f, hid, steps, mode, paths


def flag_atom(t, flags):
    """value of a mode flag atom under `flags` (dict name -> bool meaning 'is set / is not None')"""
    if t[0] == 'v' and t[2] == 'P' and t[1] in flags and t[1] in ('is_faster', 'has_indel', 'need_path', 'verbose'):
        return flags[t[1]]
    if t[0] == 'cmp' and t[1] in ('is', '==', 'is not', '!=') and t[3] == ('c', None) and t[2][0] == 'v' \
            and t[2][1] in flags:
        isnone = not flags[t[2][1]]
        return isnone if t[1] in ('is', '==') else (not isnone)
    return UNKNOWN


def coder_loops(ctx, f):
    steps = walk_steps(ctx, f)
    loops = {}
    for s in steps:
        l = loop_of(f, s.node)
        if l is None:
            raise AnalysisError("%s: walk step outside a loop at line %d" % (f.fq, s.node.lineno))
        loops.setdefault(l, []).append(s)
    out = []
    for hid, ss in sorted(loops.items()):
        header = f.nodes[hid]
        modes = []
        for fast in (False, True):
            feasible = True
            for atom, pol in ctx.conds(f, header):
                v = feval(atom, lambda t: flag_atom(t, {'is_faster': fast}))
                if v is not UNKNOWN and bool(v) != pol:
                    feasible = False
            if feasible:
                modes.append('fast' if fast else 'normal')
        mode = modes[0] if len(modes) == 1 else 'both'
        out.append(CoderLoop(f, hid, ss, mode, ctx.body_paths(f, hid)))
    return out


def case_atom(ctx, f, loop, case):
    K = ctx.kinds
    state = loop.steps[0].state
    acc = loop.steps[0].acc

    def live_of(x):
        ls = K.live_set(x, f)
        return ls is not None and ls[1] == state and ls[0] == acc

    def atom(t):
        if is_call(t, 'builtins.len') and len(t[2]) == 1 and live_of(t[2][0]):
            return case['DEG']
        if t[0] == 'attr' and t[2] == 'size' and live_of(t[1]):
            return case['DEG']
        v = flag_atom(t, case)
        if v is not UNKNOWN:
            return v
        if t[0] == 'cmp' and t[1] == 'in':
            lv = K.live_letters(strip_wrappers(t[3]), f)
            if lv is not None and live_of(lv):
                return case.get('member', UNKNOWN)
        if t[0] == 'cmp' and t[1] == '==':
            for a, b in ((t[2], t[3]), (t[3], t[2])):
                if b[0] == 'sub' and is_alpha(b[1]) and b[2][0] == 'sub' and b[2][2] == ('c', 0) and live_of(b[2][1]):
                    return case.get('member', UNKNOWN) if case['DEG'] == 1 else UNKNOWN
        return UNKNOWN
    return atom


def index_nodes(ctx, f, loop):
    """nodes of the loop body that evaluate live_letters(S).index(sym): they raise ValueError iff sym is not live"""
    cache = getattr(loop, '_index_nodes', None)
    if cache is not None:
        return cache
    K = ctx.kinds
    state, acc = loop.steps[0].state, loop.steps[0].acc
    out = set()
    for nd, r, t in ctx.root_terms(f):
        if loop.hid not in nd.loops:
            continue
        for s in walk_term(t):
            if s[0] == 'call' and s[1][0] == 'attr' and s[1][2] == 'index' and len(s[2]) == 1:
                lv = K.live_letters(strip_wrappers(s[1][1]), f)
                if lv is not None:
                    ls = K.live_set(lv, f)
                    if ls is not None and ls[1] == state and ls[0] == acc:
                        out.add(nd.id)
    loop._index_nodes = out
    return out


def feasible_paths(ctx, f, loop, case):
    """paths of the loop body that the abstract case can drive; a path may be cut short at a node whose
    live_letters.index(sym) raises (symbol not live, no handler): it then ends as ('raise', ValueError)"""
    atom = case_atom(ctx, f, loop, case)
    idx_nodes = index_nodes(ctx, f, loop)
    member = case.get('member')
    out, seen_cut = [], set()
    for path, kind in loop.paths:
        ok = True
        decisions = {nd.id: pol for nd, pol in path_decisions(f, path, kind)}
        cut = None
        established = False
        for i, nid in enumerate(path):
            nd = f.nodes[nid]
            if nid in decisions and decisions[nid] is not None:
                t = f.term(nd.ast, nd)
                for a, p in flatten_cond(t, decisions[nid]):
                    v = feval(a, atom)
                    if v is not UNKNOWN and bool(v) != p:
                        ok = False
                        break
                if not ok:
                    break
            if nid in idx_nodes and member is not None:
                nxt = f.nodes[path[i + 1]] if i + 1 < len(path) else None
                to_handler = nxt is not None and nxt.kind == 'except'
                if member and to_handler:
                    ok = False
                    break
                if not member and not to_handler:
                    if nd.handlers:
                        ok = False          # the exceptional continuation is enumerated as its own path
                        break
                    cut = i
                    break
        if not ok:
            continue
        if cut is not None:
            key = tuple(path[:cut + 1])
            if key not in seen_cut:
                seen_cut.add(key)
                out.append((list(key), 'raise:ValueError'))
            continue
        out.append((path, kind))
    ctx.run.count('cases', 1)
    return out


def exc_name(t):
    if t is None:
        return 're-raise'
    if t[0] == 'call':
        t = t[1]
    if t[0] == 'g':
        return t[1].split('.')[-1]
    return show(t)


def summarise(ctx, f, loop, path, kind, case=None):
    """effect summary of one path of a coder loop (non-constant increments are evaluated under the abstract case)"""
    atom = case_atom(ctx, f, loop, case) if case is not None else None
    events, env = walk_path(f, path)
    stepnodes = {s.node.id: s for s in loop.steps}
    s = {'exit': kind, 'steps': 0, 'inc': {}, 'stores': {}, 'appends': {}, 'raise': None, 'division': [],
         'col': None, 'events': events}
    if kind.startswith('raise:'):
        s['exit'], s['raise'] = 'raise', kind.split(':', 1)[1]
    for e in events:
        if e.kind == 'raise':
            s['raise'] = exc_name(e.term)
        elif e.kind == 'def':
            if e.node.id in stepnodes and e.name == stepnodes[e.node.id].d.name:
                s['steps'] += 1
                s['col'] = e.term[2]
                s['step_term'] = e.term
            if e.term[0] == 'item' and call_name(e.term[1]) and call_name(e.term[1]).endswith('.calculus_division'):
                s['division'].append((e.name, e.term[2], e.term[1]))
        elif e.kind == 'aug':
            if e.extra[0] == 'c' and isinstance(e.extra[1], int):
                s['inc'][e.name] = s['inc'].get(e.name, 0) + e.extra[1]
            else:
                v = feval(e.extra, atom) if atom is not None else UNKNOWN
                if v is not UNKNOWN and isinstance(v, int) and not isinstance(v, bool):
                    s['inc'][e.name] = s['inc'].get(e.name, 0) + v       # e.g. cursor += radix // 2
                else:
                    s['inc'].setdefault(e.name, 0)
        elif e.kind in ('store', 'augstore'):
            s['stores'].setdefault(e.name, []).append((e.extra, e.term))
            s.setdefault('store_inc', []).append((e.extra, e.term, dict(s['inc'])))
        elif e.kind == 'append':
            s['appends'].setdefault(e.name, []).append(e.term)
    return s


def message_cursor(ctx, f, loop):
    """encoder: the name that indexes the message bits and is incremented in the loop body (role by data flow);
    fallback: the name compared with len(BITS) in the loop test"""
    body = [nd for nd in f.nodes if loop.hid in nd.loops]
    incremented = {d.name for nd in body for d in nd.defs if d.kind == 'aug'}
    used = set()
    for nd in body:
        for r in ctx.roots(nd):
            for s in ast.walk(r):
                if isinstance(s, ast.Subscript) and isinstance(s.value, ast.Name) and s.value.id == 'binary_message':
                    for x in ast.walk(s.slice):
                        if isinstance(x, ast.Name) and x.id in incremented:
                            used.add(x.id)
    if len(used) == 1:
        return used.pop()
    header = f.nodes[loop.hid]
    if header.kind == 'while':
        t = f.term(header.ast, header)
        if t[0] == 'cmp' and t[1] == '<' and t[2][0] == 'v' and is_call(t[3], 'builtins.len'):
            return t[2][1]
    return None


def r_deg(ctx, want):
    """dispatch tables of the four coder loops. want: subset of {'encode','decode'}"""
    run = ctx.run
    run.rule('R-DEG', "per out-degree (0..4) x membership x mode the selected branch raises / passes through / "
                      "consumes or produces the documented number of digits or bits; decided by evaluating the branch "
                      "tests on the finite out-degree domain")
    tables = {}
    for name in want:
        f = ctx.p.func('dsw.spiderweb.' + name)
        loops = coder_loops(ctx, f)
        if len(loops) < 2:
            raise AnalysisError("rule R-DEG lost its anchor: %s has %d coder loops, floor 2" % (f.fq, len(loops)))
        for loop in loops:
            if loop.mode == 'both':
                raise AnalysisError("%s: coder loop at line %d is not selected by is_faster"
                                    % (f.fq, f.nodes[loop.hid].lineno))
            tab = {}
            reader = loop.steps[0].reader
            for deg in range(5):
                for member in ((True, False) if reader else (None,)):
                    if deg == 0 and member:
                        continue
                    case = {'DEG': deg, 'is_faster': loop.mode == 'fast'}
                    if member is not None:
                        case['member'] = member
                    fps = feasible_paths(ctx, f, loop, case)
                    sums = [summarise(ctx, f, loop, p, k, case) for p, k in fps]
                    tab[(deg, member)] = sums
            tables[(name, loop.mode)] = (f, loop, tab)
            check_table(ctx, name, f, loop, tab)
    return tables


def _row_signature(name, mode, loop, sums, f, ctx):
    """collapse the feasible paths of one abstract case into a comparable signature"""
    sigs = set()
    cursor = message_cursor(ctx, f, loop)
    for s in sums:
        if s['raise'] is not None or s['exit'] == 'raise':
            sigs.add(('raise', s['raise']))
            continue
        if s['exit'] != 'back':
            sigs.add(('exit', s['exit']))
            continue
        if name == 'encode' and mode == 'normal':
            sigs.add(('step', s['steps'], 'div' if s['division'] else 'pass'))
        elif name == 'encode':
            sigs.add(('step', s['steps'], 'bits', s['inc'].get(cursor, 0) if cursor else None))
        elif mode == 'normal':
            # one saved digit record per step: a (radix, digit) tuple, or one item on each of two parallel lists
            nsave = sum(len(v) for v in s['appends'].values() if v and all(len(a) == 1 and a[0][0] == 'tuple' for a in v))
            if not nsave:
                plain = [len(v) for v in s['appends'].values() if v and all(len(a) == 1 and a[0][0] != 'tuple' for a in v)]
                if len(plain) == 2 and plain[0] == plain[1]:
                    nsave = plain[0]
            sigs.add(('step', s['steps'], 'save', nsave))
        else:
            cur = decoder_cursor(s)
            sigs.add(('step', s['steps'], 'bits', s['inc'].get(cur, 0) if cur else 0))
    return sigs


def decoder_cursor(s):
    """the name that indexes stores into the output array and is incremented"""
    for arr, sts in s['stores'].items():
        for target, val in sts:
            if target[0] == 'sub':
                idx = target[2]
                for x in walk_term(idx):
                    if x[0] == 'v' and x[1] in s['inc']:
                        return x[1]
    for k in s['inc']:
        return k
    return None


EXPECTED = {
    ('encode', 'normal'): {0: {('raise', 'ValueError')}, 1: {('step', 1, 'pass')}, 2: {('step', 1, 'div')},
                           3: {('step', 1, 'div')}, 4: {('step', 1, 'div')}},
    ('encode', 'fast'): {0: {('raise', 'ValueError')}, 1: {('step', 1, 'bits', 0)}, 2: {('step', 1, 'bits', 1)},
                         3: {('raise', 'ValueError')}, 4: {('step', 1, 'bits', 2)}},
    ('decode', 'normal'): {(0, False): {('raise', 'ValueError')},
                           (1, True): {('step', 1, 'save', 0)}, (1, False): {('raise', 'ValueError')},
                           (2, True): {('step', 1, 'save', 1)}, (2, False): {('raise', 'ValueError')},
                           (3, True): {('step', 1, 'save', 1)}, (3, False): {('raise', 'ValueError')},
                           (4, True): {('step', 1, 'save', 1)}, (4, False): {('raise', 'ValueError')}},
    ('decode', 'fast'): {(0, False): {('raise', 'ValueError')},
                         (1, True): {('step', 1, 'bits', 0)}, (1, False): {('raise', 'ValueError')},
                         (2, True): {('step', 1, 'bits', 1)}, (2, False): {('raise', 'ValueError')},
                         (3, True): {('raise', 'ValueError')}, (3, False): {('raise', 'ValueError')},
                         (4, True): {('step', 1, 'bits', 2)}, (4, False): {('raise', 'ValueError')}},
}


def check_table(ctx, name, f, loop, tab):
    run = ctx.run
    exp = EXPECTED[(name, loop.mode)]
    for (deg, member), sums in sorted(tab.items(), key=lambda kv: (kv[0][0], str(kv[0][1]))):
        key = deg if member is None else (deg, member)
        want = exp.get(key)
        if want is None:
            run.undecided('R-DEG', f, '%s:DEG=%d' % (loop.mode, deg), f.nodes[loop.hid].lineno,
                          'the loop mixes reader and emitter cases in a way the dispatch table does not describe')
            continue
        got = _row_signature(name, loop.mode, loop, sums, f, ctx)
        role = '%s:DEG=%d%s' % (loop.mode, deg, '' if member is None else (':member' if member else ':non-member'))
        ext = {'paths': len(sums), 'signature': sorted(map(str, got))}
        if got == want:
            run.ok('R-DEG', f, role, f.nodes[loop.hid].lineno, extracted=ext, expected=sorted(map(str, want)))
        elif name == 'encode' and any(g[0] == 'raise' for g in got) and not any(g[0] == 'raise' for g in want):
            run.refute('R-DEG', f, role, f.nodes[loop.hid].lineno,
                       "encode can raise %s at a vertex of out-degree %d in %s mode: the only documented failures are a vertex "
                       "without arcs (and out-degree 3 in fast mode)" % (sorted(g[1] for g in got if g[0] == 'raise'), deg, loop.mode),
                       extracted=ext, expected=sorted(map(str, want)), inputs='messages long enough to reach the new raise')
        elif any(g[0] == 'exit' and g[1] in ('break', 'return') for g in got) and name == 'decode':
            run.refute('R-DEG', f, role, f.nodes[loop.hid].lineno,
                       "the loop over the strand can be left early (%s) at out-degree %d: the symbols after that point are "
                       "never checked against the graph, so a strand that is not a walk is accepted"
                       % (sorted(g[1] for g in got if g[0] == 'exit'), deg), extracted=ext, expected=sorted(map(str, want)),
                       inputs='a valid prefix followed by symbols that are not arcs')
        elif len(got) > 1 and want <= got:
            run.undecided('R-DEG', f, role, f.nodes[loop.hid].lineno,
                          'the branch tests do not determine one behaviour for this abstract case (%s): the dispatch is '
                          'written in a form the finite-domain evaluator cannot resolve' % sorted(map(str, got)), extracted=ext)
        elif not got:
            run.refute('R-DEG', f, role, f.nodes[loop.hid].lineno,
                       "no path through the loop body is feasible for out-degree %d: the dispatch does not cover it"
                       % deg, extracted=ext, expected=sorted(map(str, want)),
                       inputs='vertices of out-degree %d' % deg)
        else:
            run.refute('R-DEG', f, role, f.nodes[loop.hid].lineno,
                       "dispatch for out-degree %d%s in %s mode of %s is %s; documented: %s"
                       % (deg, '' if member is None else (' (symbol %s live)' % ('is' if member else 'is not')),
                          loop.mode, name, sorted(map(str, got)), sorted(map(str, want))),
                       extracted=ext, expected=sorted(map(str, want)),
                       inputs='vertices of out-degree %d%s' % (deg, '' if member is None or member else
                                                               ' met with a symbol that is not one of their arcs'))


# ----------------------------------------------------------------------------------------------
# R-SEL / R-BASE / R-ENDIAN
# ----------------------------------------------------------------------------------------------
def strip_int(t):
    while is_call(t, 'builtins.int') and len(t[2]) == 1 and not t[3]:
        t = t[2][0]
    return t


def classify_perm(ctx, f, t, state, acc):
    """P ::= argsort(TABLE[S][LIVE]) -> ('P', table) | deviation name | None"""
    K = ctx.kinds
    if not is_call(t, 'numpy.argsort') or len(t[2]) != 1:
        return None
    x = t[2][0]
    neg = False
    if x[0] == 'un' and x[1] == '-':
        neg, x = True, x[2]
    rev = False
    if x[0] == 'sub' and x[2] == ('slice', ('c', None), ('c', None), ('c', -1)):
        rev, x = True, x[1]
    if x[0] == 'sub' and x[1][0] == 'sub' and x[1][1][0] == 'v' and x[1][1][1] == 'shuffles':
        row_state, sel = x[1][2], x[2]
        ls = K.live_set(sel, f)
        if row_state != state:
            return ('dev', 'the table row of a different vertex (%s) is used' % show(row_state))
        if ls is None or ls[1] != state or ls[0] != acc:
            return ('dev', 'the table row is restricted by %s, not by the live arcs of the current vertex' % show(sel))
        if neg:
            return ('dev', 'the table row is negated before ranking')
        if rev:
            return ('dev', 'the restricted table row is reversed before ranking')
        return ('P', x[1][1])
    if x[0] == 'sub' and x[1][0] == 'v' and x[1][1] == 'shuffles':
        if x[2] == state:
            return ('dev', 'argsort of the whole table row, not restricted to the live arcs (differs whenever the '
                           'out-degree is below 4)')
        return ('dev', 'table indexed by %s' % show(x[2]))
    return None


def _rooted_in_live(ctx, f, b, s):
    """b is an element of the live set of the vertex of step s, taken some way: the live set is reached by following the BASES of
    subscripts / unpackings / iterations / method calls from b (a live set that only occurs inside an index does not count)"""
    seen = 0
    while b is not None and seen < 12:
        seen += 1
        ls_ = ctx.kinds.live_set(b, f)
        if ls_ is not None and ls_[1] == s.state and ls_[0] == s.acc:
            return True
        if b[0] in ('sub', 'item', 'iter', 'idx') and isinstance(b[1], tuple):
            b = b[1]
        elif b[0] == 'call' and b[1][0] == 'attr':
            b = b[1][1]
        elif b[0] == 'call' and b[1][0] == 'g' and b[1][1] in ('builtins.int', 'builtins.next', 'builtins.iter', 'builtins.list',
                                                             'builtins.tuple', 'builtins.reversed', 'builtins.sorted') and b[2]:
            b = b[2][0]
        else:
            return False
    return False


def classify_sel(ctx, f, col, state, acc):
    """column term of an emitter -> ('plain', d) | ('perm', d) | ('first',) | ('dev', text) | None"""
    K = ctx.kinds
    if col[0] != 'sub':
        return None
    ls = K.live_set(col[1], f)
    if ls is None and col[1][0] == 'sub' and col[1][2] == ('slice', ('c', None), ('c', None), ('c', -1)):
        lr = K.live_set(col[1][1], f)
        if lr is not None and lr[1] == state and lr[0] == acc and col[2] != ('c', 0) and col[2][0] != 'c':
            return ('dev', 'live arcs are taken in reversed order: digit d selects the (n-1-d)-th live arc')
    if ls is None or ls[1] != state or ls[0] != acc:
        return None
    idx = col[2]
    if idx == ('c', 0):
        return ('first',)
    if idx[0] == 'sub':
        p = classify_perm(ctx, f, idx[1], state, acc)
        if p is not None:
            if p[0] == 'dev':
                return p
            return ('perm', idx[2])
        if idx[1][0] == 'sub' and idx[1][1][0] == 'sub' and idx[1][1][1][0] == 'v' and idx[1][1][1][1] == 'shuffles':
            return ('dev', 'direct look-up of the table entry instead of its rank among the live arcs')
        if idx[1][0] == 'sub' and idx[1][2] == ('slice', ('c', None), ('c', None), ('c', -1)):
            p = classify_perm(ctx, f, idx[1][1], state, acc)
            if p is not None and p[0] == 'P':
                return ('dev', 'the rank permutation is reversed')
    if idx[0] == 'bin' and idx[1] == '-':
        return ('dev', 'digit is complemented (%s)' % show(idx))
    if col[1][0] == 'sub' and col[1][2] == ('slice', ('c', None), ('c', None), ('c', -1)):
        return ('dev', 'live arcs are taken in reversed order')
    return ('plain', idx)


def classify_digit_enc(ctx, f, d, loop, deg):
    """digit term of the encoder -> ('division', base ok?, call) | ('bits', n, terms) | None"""
    d0 = strip_int(d)
    if d0[0] == 'item' and call_name(d0[1]) and call_name(d0[1]).endswith('.calculus_division'):
        return ('division', d0[2], d0[1])
    return ('other', d0)


def classify_inv(ctx, f, t, state, acc):
    """digit recovered by the decoder: letters.index(sym) | where(P == rank)[0][0]"""
    K = ctx.kinds
    t = strip_int(t)
    if t[0] == 'call' and t[1][0] == 'attr' and t[1][2] == 'index' and len(t[2]) == 1:
        lv = K.live_letters(strip_wrappers(t[1][1]), f)
        if lv is not None:
            ls = K.live_set(lv, f)
            if ls[1] == state and ls[0] == acc:
                return ('rank', t[2][0])
        return None
    # sum(LIVE < letter index): the number of live arcs before the letter = its rank among the live arcs
    # sum(T[S][LIVE] < T[S][letter index]): the rank of the letter's table entry among the live entries = the inverse permutation
    if is_call(t, 'numpy.sum', 'builtins.sum', 'numpy.count_nonzero') and len(t[2]) == 1 and t[2][0][0] == 'cmp' and t[2][0][1] == '<':
        def letter_index0(x):
            x = strip_int(x)
            if x[0] == 'call' and x[1][0] == 'attr' and x[1][2] in ('index', 'find') and len(x[2]) == 1 and x[1][1] == ('c', ALPHA):
                return x[2][0]
            return None
        lhs, rhs = t[2][0][2], t[2][0][3]
        ls = K.live_set(lhs, f)
        if ls is not None and ls[1] == state and ls[0] == acc and letter_index0(rhs) is not None:
            return ('rank', letter_index0(rhs))
        if rhs[0] == 'sub' and rhs[1][0] == 'sub' and rhs[1][1][0] == 'v' and rhs[1][1][1] == 'shuffles' and \
                letter_index0(rhs[2]) is None:
            inner_ = classify_inv(ctx, f, rhs[2], state, acc)
            if inner_ is not None and inner_[0] == 'rank':
                return ('dev', 'the table entry of the walked arc is looked up at the RANK of the letter among the live arcs, not at its '
                               'column in ACGT: the two differ whenever the live arcs are not a prefix of ACGT')
        if rhs[0] == 'sub' and letter_index0(rhs[2]) is not None:
            row = rhs[1]
            if row[0] == 'sub' and row[1][0] == 'v' and row[1][1] == 'shuffles' and row[2] == state:
                if lhs == row:
                    return ('dev', 'the digit counts the entries of the WHOLE table row below the entry of the letter: that is its rank '
                                   'among all four columns, not among the live arcs (equal only at out-degree 4)')
                if lhs[0] == 'sub' and lhs[1] == row:
                    ls2 = K.live_set(lhs[2], f)
                    if ls2 is not None and ls2[1] == state and ls2[0] == acc:
                        return ('perm-inverse', letter_index0(rhs[2]))
    # where(P == r)[0][0]   |   argmax(P == r)  (first position of the match; P is a permutation, so there is exactly one)
    c = None
    if t[0] == 'sub' and t[2] == ('c', 0) and t[1][0] == 'sub' and t[1][2] == ('c', 0) and \
            is_call(t[1][1], 'numpy.where', 'numpy.nonzero', 'numpy.argwhere') and len(t[1][1][2]) == 1:
        c = t[1][1][2][0]
    elif is_call(t, 'numpy.argmax') and len(t[2]) == 1 and not t[3] and t[2][0][0] == 'cmp':
        c = t[2][0]
    elif t[0] == 'sub' and t[2] == ('c', 0) and is_call(t[1], 'numpy.flatnonzero') and len(t[1][2]) == 1:
        c = t[1][2][0]
    if c is not None:

        def letter_index(x):
            x = strip_int(x)
            if x[0] == 'call' and x[1][0] == 'attr' and x[1][2] in ('index', 'find') and len(x[2]) == 1 and x[1][1] == ('c', ALPHA):
                return x[2][0]
            return None
        if c[0] == 'cmp' and c[1] == '==':
            for a, b in ((c[2], c[3]), (c[3], c[2])):
                p = classify_perm(ctx, f, a, state, acc)
                if p is not None:
                    if p[0] == 'dev':
                        return p
                    inner = classify_inv(ctx, f, b, state, acc)
                    if inner is not None and inner[0] == 'rank':
                        return ('perm-inverse', inner[1])
                    if letter_index(b) is not None:
                        return ('dev', 'the rank permutation is searched for the position of the letter in ACGT (0..3), not for its '
                                       'rank among the live arcs: the two differ whenever the live arcs are not a prefix of ACGT')
                    return None
            # where(LIVE == ALPHA.index(sym))[0][0]: the rank of the letter among the live arcs
            for a, b in ((c[2], c[3]), (c[3], c[2])):
                ls = K.live_set(a, f)
                if ls is not None and ls[1] == state and ls[0] == acc and letter_index(b) is not None:
                    return ('rank', letter_index(b))
    # TABLE[S][x] / TABLE[S, x]: the table entry itself used as the digit
    if t[0] == 'sub' and t[1][0] == 'sub' and t[1][1][0] == 'v' and t[1][1][1] == 'shuffles':
        return ('dev', 'the decoder takes the table entry %s itself as the digit: that is the rank among all four columns, '
                       'not among the live arcs (equal only at out-degree 4)' % show(t)[:80])
    # argsort(P)[r]: the argsort of a permutation is its inverse (P = argsort(table entries of the live arcs))
    if t[0] == 'sub' and is_call(t[1], 'numpy.argsort') and len(t[1][2]) == 1 and not t[1][3]:
        p = classify_perm(ctx, f, t[1][2][0], state, acc)
        if p is not None:
            if p[0] == 'dev':
                return p
            inner = classify_inv(ctx, f, t[2], state, acc)
            if inner is not None and inner[0] == 'rank':
                return ('perm-inverse', inner[1])
    # P[r]  (applying the permutation instead of inverting it)
    if t[0] == 'sub':
        p = classify_perm(ctx, f, t[1], state, acc)
        if p is not None and p[0] == 'P':
            return ('dev', 'decoder applies the rank permutation forward instead of inverting it')
        if t[1][0] == 'sub' and t[1][1][0] == 'sub' and t[1][1][1][0] == 'v' and t[1][1][1][1] == 'shuffles':
            return ('dev', 'direct look-up of the table entry instead of the inverse rank')
    return None


def r_sel(ctx, only=('encode', 'decode')):
    """digit -> arc selection (encode) and its inverse (decode), per mode x out-degree x shuffle flag"""
    run = ctx.run
    run.rule('R-SEL', "encoder column = LIVE[d] / LIVE[argsort(TABLE[S, LIVE])[d]]; decoder digit = rank of the "
                      "symbol among the live letters / the inverse permutation of that rank; the permutation is built "
                      "from the same vertex and the same live set on both sides, for every out-degree >= 2")
    run.rule('R-BASE', "normal mode: radix of the division = str(len(LIVE(S))), variant <- quotient (component 0), "
                       "digit <- remainder (component 1), the variant has no other writer in the loop; the decoder "
                       "saves (len(LIVE(S)), digit)")
    enc = ctx.p.func('dsw.spiderweb.encode')
    dec = ctx.p.func('dsw.spiderweb.decode')
    results = {}
    for f, name in ((enc, 'encode'), (dec, 'decode')):
        if name not in only:
            continue
        for loop in coder_loops(ctx, f):
            state, acc = loop.steps[0].state, loop.steps[0].acc
            degs = (2, 3, 4) if loop.mode == 'normal' else (2, 4)
            for deg in degs:
                for sh in (False, True):
                    case = {'DEG': deg, 'is_faster': loop.mode == 'fast', 'shuffles': sh}
                    if name == 'decode':
                        case['member'] = True
                    fps = [(p, k) for p, k in feasible_paths(ctx, f, loop, case) if k == 'back']
                    role = '%s:DEG=%d:%s' % (loop.mode, deg, 'table' if sh else 'no-table')
                    if not fps:
                        run.refute('R-SEL', f, role, f.nodes[loop.hid].lineno,
                                   'no non-raising path for out-degree %d' % deg, inputs='out-degree %d' % deg)
                        continue
                    verdicts = set()
                    for p, k in fps:
                        s = summarise(ctx, f, loop, p, k, case)
                        if name == 'encode':
                            verdicts.add(sel_encode(ctx, f, loop, s, deg, sh, state, acc))
                        else:
                            verdicts.add(sel_decode(ctx, f, loop, s, deg, sh, state, acc))
                    results[(name, loop.mode, deg, sh)] = verdicts
                    bad = [v for v in verdicts if v[0] != 'ok']
                    line = f.nodes[loop.hid].lineno
                    if not bad:
                        run.ok('R-SEL', f, role, line, extracted=sorted(v[1] for v in verdicts))
                    else:
                        devs = [v for v in bad if v[0] == 'dev']
                        if devs:
                            run.refute('R-SEL', f, role, line,
                                       "%s, %s mode, out-degree %d, %s: %s" % (name, loop.mode, deg,
                                                                               'with table' if sh else 'without table',
                                                                               devs[0][1]),
                                       inputs='vertices of out-degree %d %s' % (deg, 'with a shuffle table' if sh else ''))
                        else:
                            run.undecided('R-SEL', f, role, line, 'selection term outside the recognised grammar: %s'
                                          % bad[0][1])
    return results


def sel_encode(ctx, f, loop, s, deg, sh, state, acc):
    col = s['col']
    if col is None:
        return ('opaque', 'no state update on path')
    c = classify_sel(ctx, f, col, state, acc)
    if c is None:
        for x in walk_term(col):
            if is_call(x, 'numpy.argsort'):
                p = classify_perm(ctx, f, x, state, acc)
                if p is not None and p[0] == 'dev':
                    return ('dev', p[1] + ' (the ranked column is then indexed by the live arcs / the digit, so a digit can '
                                          'select an arc that does not exist)')
        return ('opaque', show(col))
    if c[0] == 'dev':
        return c
    if c[0] == 'first':
        return ('dev', 'out-degree %d selects the first live arc without consuming a digit' % deg)
    if sh and c[0] != 'perm':
        return ('dev', 'a shuffle table is supplied but the digit selects the live arc directly (table ignored)')
    if not sh and c[0] == 'perm':
        return ('dev', 'the rank permutation is applied although no shuffle table is supplied')
    d = strip_int(c[1])
    if loop.mode == 'normal':
        if d[0] == 'item' and call_name(d[1]) and call_name(d[1]).endswith('.calculus_division'):
            return base_encode(ctx, f, loop, s, d, deg, state, acc, c[0])
        return ('opaque', 'digit ' + show(d))
    return bits_encode(ctx, f, loop, s, d, deg, c[0])


def base_encode(ctx, f, loop, s, d, deg, state, acc, form):
    K = ctx.kinds
    call = d[1]
    base = call_arg(call, 1, 'base')
    number = call_arg(call, 0, 'number')
    if d[2] != 1:
        return ('dev', 'the digit is component %s of calculus_division (the quotient), not the remainder' % d[2])
    ok_base = False
    if base is not None and is_call(base, 'builtins.str') and len(base[2]) == 1:
        b = base[2][0]
        if is_call(b, 'builtins.len') and len(b[2]) == 1:
            ls = K.live_set(b[2][0], f)
            ok_base = ls is not None and ls[1] == state and ls[0] == acc
    if not ok_base:
        # a clear deviation: a constant radix, the length of something that is not a live set of this vertex, no str();
        # anything else (an expression of the out-degree this rule does not normalise) is not decided here
        b0 = base
        if b0 is not None and is_call(b0, 'builtins.str') and len(b0[2]) == 1:
            b0 = strip_int(b0[2][0])
        clear = base is None or b0[0] == 'c' or (is_call(b0, 'builtins.len') and len(b0[2]) == 1 and
                                                 (K.live_set(b0[2][0], f) is not None or K.kind(b0[2][0], f) is not None))
        if not clear and any(K.out_degree_row(x, f) is not None or K.live_set(x, f) is not None for x in walk_term(b0)):
            # an arithmetic expression of the out-degree: evaluated at this abstract out-degree
            def env(x):
                if is_call(x, 'builtins.len') and len(x[2]) == 1:
                    ls_ = K.live_set(x[2][0], f)
                    if ls_ is not None and ls_[1] == state and ls_[0] == acc:
                        return deg
                return UNKNOWN
            v_ = feval(b0, env)
            if v_ is not UNKNOWN and isinstance(v_, int) and v_ != deg:
                return ('dev', 'radix of the division is %s, which is %d at out-degree %d' % (show(base)[:60], v_, deg))
            if v_ is not UNKNOWN and v_ == deg:
                ok_base = True
            else:
                return ('opaque', 'radix ' + show(base)[:60])
    if not ok_base:
        return ('dev', 'radix of the division is %s, not the out-degree str(len(LIVE))' % (show(base) if base else None))
    # the variant: number must be a loop-carried name reassigned from component 0 of the same call
    if number is None or number[0] != 'v':
        return ('opaque', 'dividend ' + show(number) if number else 'dividend missing')
    var = number[1]
    writers = [(n, i, c) for n, i, c in s['division'] if n == var]
    if not writers or writers[0][1] != 0 or writers[0][2] != call:
        return ('dev', 'the loop variant %s is not reassigned from the quotient of the same division' % var)
    others = [e for e in s['events'] if e.kind in ('def', 'aug') and e.name == var and
              not (e.kind == 'def' and e.term[0] == 'item' and e.term[1] == call)]
    if others:
        return ('dev', 'the loop variant %s has another writer at line %d' % (var, others[0].node.lineno))
    return ('ok', '%s: LIVE[%sremainder of variant / str(len(LIVE))]' % (form, 'rank-perm ' if form == 'perm' else ''))


def bits_encode(ctx, f, loop, s, d, deg, form):
    """fast mode digit: DEG 4 -> 2*B[c] + B[c+1] (second bit optional when guarded), DEG 2 -> B[c]"""
    cursor = message_cursor(ctx, f, loop)
    # a cursor that starts at c0 (0, or 1 for a "one past the current bit" counter) addresses the current bit as B[cursor - c0]
    c0 = 0
    if cursor is not None:
        body_ = {n.id for n in f.nodes if loop.hid in n.loops}
        inits = [TermBuilder(f, f.defs[i].node).def_term(i) for i in f.reaching(loop.hid, cursor) if f.defs[i].node not in body_]
        if len(inits) == 1 and inits[0] is not None and inits[0][0] == 'c' and isinstance(inits[0][1], int):
            c0 = inits[0][1]
        elif inits and not all(i_ == ('c', 0) for i_ in inits):
            c0 = None           # the cursor does not start at a constant (a count-down of the bits left, ...)

    def other_addressing(t):
        """the digit reads the message at something that is not `cursor + constant`: another way of keeping the position"""
        from .repair import affine as _aff
        for x in walk_term(t):
            if x[0] == 'sub' and x[1][0] == 'v' and x[1][1] == 'binary_message':
                parts = [b_ for b_ in x[2][1:3] if b_ != ('c', None)] if x[2][0] == 'slice' else [x[2]]
                for p_ in parts:
                    a = _aff(p_)
                    if a is None:
                        return True
                    syms = [k for k in a if k != 1 and k[0] == 'v' and k[1] == cursor]
                    if c0 is None or not (len(syms) == 1 and a[syms[0]] == 1):
                        return True
        return False

    def bit(t, off):
        if c0 is None:
            return False
        if t[0] == 'sub' and t[1][0] == 'v' and t[1][1] == 'binary_message':
            from .repair import affine as _aff
            a = _aff(t[2])
            if a is None:
                return False
            syms = [k for k in a if k != 1]
            return len(syms) == 1 and syms[0][0] == 'v' and syms[0][1] == cursor and a[syms[0]] == 1 and a.get(1, 0) == off - c0
        return False

    def times2(t):
        if t[0] == 'bin' and t[1] == '*':
            if t[3] == ('c', 2):
                return t[2]
            if t[2] == ('c', 2):
                return t[3]
        return None
    if deg == 2:
        if bit(d, 0):
            return ('ok', form + ': one bit B[c]')
        if other_addressing(d):
            return ('opaque', 'the message is addressed as %s' % show(d)[:60])
        return ('dev', 'out-degree 2 digit is %s, not the single bit at the cursor' % show(d))
    # deg 4
    hi = lo = None
    if d[0] == 'bin' and d[1] == '+':
        for a, b in ((d[2], d[3]), (d[3], d[2])):
            if times2(a) is not None:
                hi, lo = times2(a), b
    elif times2(d) is not None:
        hi, lo = times2(d), None
    if other_addressing(d):
        return ('opaque', 'the message is addressed as %s' % show(d)[:60])
    if hi is None:
        return ('dev', 'out-degree 4 digit is %s, not 2*B[c] + B[c+1]' % show(d))
    if bit(hi, 0) and (lo is None or bit(lo, 1)):
        return ('ok', form + ': two bits 2*B[c] + B[c+1]' + (' (second bit absent on this path)' if lo is None else ''))
    if bit(hi, 1) and lo is not None and bit(lo, 0):
        return ('dev', 'bit pair is packed least-significant first (2*B[c+1] + B[c])')
    return ('dev', 'out-degree 4 digit is %s, not 2*B[c] + B[c+1]' % show(d))


def sel_decode(ctx, f, loop, s, deg, sh, state, acc):
    """decoder: digit saved (normal) or stored as bits (fast) is the inverse selection"""
    if loop.mode == 'normal':
        saves = [a for v in s['appends'].values() for a in v if len(a) == 1 and a[0][0] == 'tuple' and len(a[0]) == 3]
        if len(saves) != 1:
            return ('opaque', '%d digit saves on the path' % len(saves))
        radix, digit = saves[0][0][1], saves[0][0][2]
        K = ctx.kinds
        okr = False
        if is_call(radix, 'builtins.len') and len(radix[2]) == 1:
            ls = K.live_set(radix[2][0], f)
            okr = ls is not None and ls[1] == state and ls[0] == acc
        if not okr:
            return ('dev', 'saved radix is %s, not the out-degree len(LIVE) of the vertex the symbol was read at'
                    % show(radix))
        inv = classify_inv(ctx, f, digit, state, acc)
    else:
        # the digit whose // 2 and % 2 are stored
        digit = None
        for arr, sts in s['stores'].items():
            for target, val in sts:
                for x in walk_term(val):
                    if x[0] == 'bin' and x[1] in ('//', '%') and x[3] == ('c', 2):
                        digit = x[2]
        if digit is None:
            return ('opaque', 'no bit store found')
        inv = classify_inv(ctx, f, digit, state, acc)
    if inv is None:
        return ('opaque', 'digit ' + show(digit))
    if inv[0] == 'dev':
        return inv
    if sh and inv[0] != 'perm-inverse':
        return ('dev', 'a shuffle table is supplied but the decoder does not invert the rank permutation')
    if not sh and inv[0] == 'perm-inverse':
        return ('dev', 'the rank permutation is inverted although no shuffle table is supplied')
    return ('ok', inv[0])


def r_endian(ctx):
    run = ctx.run
    run.rule('R-ENDIAN', "normal mode: the decoder's Horner loop runs over the saved digits in reverse, from \"0\", "
                         "multiplying by the saved radix then adding the saved digit; fast mode: the decoder stores "
                         "digit // 2 at the cursor and digit % 2 at cursor + 1 (most significant first), one bit as "
                         "digit % 2 (or the digit itself)")
    dec = ctx.p.func('dsw.spiderweb.decode')
    K = ctx.kinds
    # ---- Horner loop: a for loop over reversed(saved) containing multiplication then addition
    found = 0
    for nd in dec.nodes:
        if nd.kind != 'for':
            continue
        it = dec.term(nd.stmt.iter, nd)
        src = it
        if is_call(it, 'builtins.enumerate') and it[2]:
            src = it[2][0]
        def count_rev(src):
            rev = 0
            while True:
                if src[0] == 'sub' and src[2] == ('slice', ('c', None), ('c', None), ('c', -1)):
                    rev, src = rev + 1, src[1]
                elif is_call(src, 'builtins.reversed') and len(src[2]) == 1:
                    rev, src = rev + 1, src[2][0]
                elif is_call(src, 'builtins.list', 'builtins.tuple') and len(src[2]) == 1:
                    src = src[2][0]
                else:
                    return rev, src
        rev, src = count_rev(src)
        parallel = None
        if is_call(src, 'builtins.zip') and len(src[2]) == 2 and not src[3]:
            # two parallel lists (radices, digits) walked together: both reversed, or the zip as a whole
            (r1, s1), (r2, s2) = count_rev(src[2][0]), count_rev(src[2][1])
            parallel = (src[2][0], src[2][1], s1, s2)
            if r1 % 2 != r2 % 2:
                run.refute('R-ENDIAN', dec, 'horner:reverse-order', nd.lineno,
                           'the saved radices and the saved digits are walked in opposite directions (%d / %d reversals): each digit '
                           'meets the radix of another vertex' % (r1, r2), inputs='every message with two or more information nucleotides')
                found += 1
                continue
            rev += r1
        # is it the saved-digit list? (receives append((len(LIVE), digit)))
        paths = ctx.body_paths(dec, nd.id)
        muls, adds = [], []
        for path, kind in paths:
            if kind != 'back':
                continue
            ev, env = walk_path(dec, path)
            for e in ev:
                if e.kind == 'def' and call_name(e.term) and call_name(e.term).endswith('.calculus_multiplication'):
                    muls.append(e)
                if e.kind == 'def' and call_name(e.term) and call_name(e.term).endswith('.calculus_addition'):
                    adds.append(e)
        if not adds:
            continue
        found += 1
        line = nd.lineno
        # digits addressed by position (saved[-1 - i], saved[len(saved) - 1 - i], saved[i]) instead of by iteration
        by_index = None
        e0 = adds[-1]
        b0 = call_arg(e0.term, 1, 'base')
        if b0 is not None:
            for x in walk_term(b0):
                if x[0] == 'sub' and x[1][0] == 'v' and any(y[0] in ('iter', 'idx') and y[-1] == nd.id for y in walk_term(x[2])):
                    from .repair import affine as _aff
                    lv = [y for y in walk_term(x[2]) if y[0] in ('iter', 'idx') and y[-1] == nd.id][0]
                    ia = _aff(x[2])
                    asc = None
                    if lv[0] == 'idx':
                        asc = True
                    elif is_call(lv[1], 'builtins.range'):
                        ra = lv[1][2]
                        asc = True if len(ra) < 3 else (None if ra[2][0] != 'c' else ra[2][1] > 0)
                    if ia is not None and lv in ia and asc is not None:
                        coef = ia[lv]
                        by_index = ('reverse' if (coef < 0) == asc else 'forward') if coef != 0 else None
                    else:
                        by_index = 'unknown'
        if by_index == 'reverse':
            run.ok('R-ENDIAN', dec, 'horner:reverse-order', line, 'saved digits addressed from the end towards the start')
            rev = 1
        elif by_index == 'unknown':
            run.undecided('R-ENDIAN', dec, 'horner:reverse-order', line, 'the saved digits are addressed by an index expression that is '
                          'not an affine form of the loop variable')
            continue
        elif by_index == 'forward':
            rev = 0
        if by_index != 'reverse':
          run.check(rev % 2 == 1, 'R-ENDIAN', dec, 'horner:reverse-order', line,
                  'saved digits traversed in reverse (%d reversal)' % rev,
                  "the Horner loop traverses the saved digits %s; the encoder emits the least significant digit "
                  "first, so they must be traversed in reverse exactly once" % ('forward' if rev == 0 else
                                                                              'reversed %d times' % rev),
                  inputs='every message with two or more information nucleotides')
        e = adds[-1]
        # the addition must take the product as its number and the saved digit as base
        num = call_arg(e.term, 0, 'number')
        base = call_arg(e.term, 1, 'base')
        okmul = num is not None and call_name(num) and call_name(num).endswith('.calculus_multiplication')
        digit_ok = radix_ok = False
        var = None
        if okmul:
            mnum, mbase = call_arg(num, 0, 'number'), call_arg(num, 1, 'base')
            var = mnum[1] if mnum[0] == 'v' else None

            def comp(t, i):
                t = t[2][0] if is_call(t, 'builtins.str') and len(t[2]) == 1 else t
                t = strip_int(t)
                # component i of the element iterated
                x = t
                want_items = []
                while x[0] == 'item' or (x[0] == 'sub' and x[2][0] == 'c' and isinstance(x[2][1], int)):
                    want_items.append(x[2] if x[0] == 'item' else x[2][1])
                    x = x[1]
                elem = x[0] == 'iter' or (x[0] == 'sub' and x[1][0] == 'v' and
                                          any(y[0] in ('iter', 'idx') and y[-1] == nd.id for y in walk_term(x[2])))
                return elem and want_items and want_items[0] == i or \
                    (elem and want_items[-1:] == [i])
            radix_ok = comp(mbase, 0)
            digit_ok = comp(base, 1)
            if parallel is not None:
                # which of the two lists holds the radices?  the one that receives len(LIVE(S))
                def elem_of(t, zsrc):
                    t = t[2][0] if is_call(t, 'builtins.str') and len(t[2]) == 1 else t
                    t = strip_int(t)
                    return t[0] == 'iter' and t[1] == zsrc

                def receives_radix(lst):
                    if lst[0] != 'v':
                        return None
                    res = None
                    for x in dec.nodes:
                        for d in x.defs:
                            if d.kind == 'mutate' and d.name == lst[1] and isinstance(d.extra, ast.Attribute) and d.extra.attr == 'append' \
                                    and d.value is not None:
                                tt = dec.term(d.value, x)
                                a_ = tt[2][0] if tt[2] else None
                                if a_ is not None:
                                    is_r = (is_call(a_, 'builtins.len') and K.live_set(a_[2][0], dec) is not None) or \
                                        (a_[0] == 'attr' and a_[2] == 'size' and K.live_set(a_[1], dec) is not None)
                                    res = is_r if res is None else (res and is_r)
                    return res
                z1, z2, l1, l2 = parallel
                rr1, rr2 = receives_radix(l1), receives_radix(l2)
                if rr1 is True and rr2 is False:
                    radix_ok, digit_ok = elem_of(mbase, z1), elem_of(base, z2)
                elif rr2 is True and rr1 is False:
                    radix_ok, digit_ok = elem_of(mbase, z2), elem_of(base, z1)
                else:
                    run.undecided('R-ENDIAN', dec, 'horner:accumulate', e.node.lineno,
                                  'which of the two parallel lists holds the radices is not recognised')
                    continue
        run.check(okmul and radix_ok and digit_ok and var == e.name, 'R-ENDIAN', dec, 'horner:accumulate', e.node.lineno,
                  'value <- value * saved radix + saved digit',
                  "the Horner step is %s; required value * radix(component 0) + digit(component 1) on the same "
                  "accumulator" % show(e.term), extracted=show(e.term),
                  inputs='every message in normal mode')
        # initial value "0"
        init = [dec.defs[i] for i in dec.reaching(nd.id, e.name) if dec.defs[i].node not in
                {n.id for n in dec.nodes if nd.id in n.loops}]
        init_terms = [TermBuilder(dec, d.node).def_term(d.id) for d in init]
        run.check(init_terms and all(t == ('c', '0') for t in init_terms), 'R-ENDIAN', dec, 'horner:initial', line,
                  'accumulator starts at "0"',
                  'the Horner accumulator starts at %s, not "0"' % [show(t) if t else None for t in init_terms],
                  inputs='every message in normal mode')
    if found < 1:
        raise AnalysisError("rule R-ENDIAN lost its anchor: no Horner loop over the saved digits in decode")
    # ---- fast-mode bit order in decode
    for loop in coder_loops(ctx, dec):
        if loop.mode != 'fast':
            continue
        state, acc = loop.steps[0].state, loop.steps[0].acc
        for deg in (2, 4):
            case = {'DEG': deg, 'is_faster': True, 'member': True}
            fps = [(p, k) for p, k in feasible_paths(ctx, dec, loop, case) if k == 'back']
            okall, why, npaths = True, '', 0
            for p, k in fps:
                s = summarise(ctx, dec, loop, p, k, case)
                cur = decoder_cursor(s)
                from .repair import affine as _aff
                body_ = {n_.id for n_ in dec.nodes if loop.hid in n_.loops}
                inits_ = [TermBuilder(dec, dec.defs[i_].node).def_term(i_) for i_ in dec.reaching(loop.hid, cur)
                          if dec.defs[i_].node not in body_] if cur else []
                if inits_ and all(i_ is not None and i_[0] == 'c' and isinstance(i_[1], int) for i_ in inits_) and \
                        len({i_[1] for i_ in inits_}) == 1:
                    c0_ = inits_[0][1]
                else:
                    c0_ = None
                if c0_ is None:
                    okall, why, npaths = None, 'the output cursor does not start at a constant', npaths + 1
                    continue
                offs = {}
                for t, v, inc_then in s.get('store_inc', []):
                    idx = t[2] if t[0] == 'sub' else None
                    off = None
                    a_ = _aff(idx) if idx is not None else None
                    if a_ is not None:
                        ks = [k for k in a_ if k != 1]
                        if len(ks) == 1 and ks[0][0] == 'v' and ks[0][1] == cur and a_[ks[0]] == 1:
                            # walk_path writes the index on the cursor of the start of the round (an earlier advance is folded in);
                            # a cursor that starts at c0 addresses the current bit at cursor - c0
                            off = a_.get(1, 0) + c0_
                    offs[off] = v
                npaths += 1
                if deg == 4:
                    v0, v1 = offs.get(0), offs.get(1)
                    if v0 is None or not (v0[0] == 'bin' and v0[1] == '//' and v0[3] == ('c', 2)):
                        okall, why = False, 'bit at the cursor is %s, not digit // 2' % (show(v0) if v0 else 'not stored')
                    if v1 is not None and not (v1[0] == 'bin' and v1[1] == '%' and v1[3] == ('c', 2)):
                        okall, why = False, 'bit at cursor + 1 is %s, not digit %% 2' % show(v1)
                else:
                    v0 = offs.get(0)
                    if v0 is None or set(offs) - {0}:
                        okall, why = False, 'out-degree 2 must store exactly one bit at the cursor'
                    elif v0[0] == 'bin' and not (v0[1] == '%' and v0[3] == ('c', 2)):
                        okall, why = False, 'out-degree 2 stores %s' % show(v0)
            if okall is None:
                run.undecided('R-ENDIAN', dec, 'fast:unpack:DEG=%d' % deg, dec.nodes[loop.hid].lineno, why)
                continue
            run.check(okall and npaths > 0, 'R-ENDIAN', dec, 'fast:unpack:DEG=%d' % deg, dec.nodes[loop.hid].lineno,
                      'most significant bit first on %d paths' % npaths,
                      'fast-mode decoder at out-degree %d: %s' % (deg, why or 'no feasible path'),
                      inputs='fast mode, vertices of out-degree %d' % deg)


def r_ahead(ctx):
    """look-ahead on the message cursor needs a bound (decided on terms, so temporaries do not matter)"""
    run = ctx.run
    run.rule('R-AHEAD', "every access of the message / output bits at cursor + c (c >= 1) in the fast-mode loops is "
                        "under a path condition cursor + c < length")
    n = 0
    bl = ('v', 'bit_length', 'P')
    for name in ('encode', 'decode'):
        f = ctx.p.func('dsw.spiderweb.' + name)
        for loop in coder_loops(ctx, f):
            if loop.mode != 'fast':
                continue
            body = [nd for nd in f.nodes if loop.hid in nd.loops]
            cursors = {d.name for nd in body for d in nd.defs if d.kind == 'aug'}
            seen = set()
            for nd in body:
                for n2, r, t in ctx.root_terms(f):
                    if n2.id != nd.id:
                        continue
                    for s in walk_term(t):
                        if s[0] != 'sub' or s in seen:
                            continue
                        idx = s[2]
                        if not (idx[0] == 'bin' and idx[1] == '+' and idx[2][0] == 'v' and idx[2][1] in cursors and
                                idx[3][0] == 'c' and isinstance(idx[3][1], int) and idx[3][1] >= 1):
                            continue
                        base = s[1]
                        is_bits = base == ('v', 'binary_message', 'P')
                        length_terms = []
                        if is_bits:
                            length_terms.append(('call', ('g', 'builtins.len'), (base,), ()))
                        if base[0] == 'v' and not is_bits:
                            for d in f.defs:
                                if d.name == base[1] and d.kind == 'assign':
                                    a = TermBuilder(f, d.node).def_term(d.id)
                                    if a is not None and is_call(a, 'numpy.zeros', 'numpy.ones', 'numpy.empty'):
                                        is_bits = True
                                        sh = call_arg(a, 0, 'shape')
                                        if sh is not None:
                                            length_terms.append(sh[1] if sh[0] == 'tuple' and len(sh) == 2 else sh)
                                        length_terms.append(('call', ('g', 'builtins.len'), (base,), ()))
                        if not is_bits:
                            continue
                        seen.add(s)
                        n += 1
                        c = idx[3][1]
                        cur = idx[2]
                        guarded = False
                        for atom, pol in ctx.conds(f, nd):
                            if atom[0] != 'cmp' or atom[1] not in ('<', '<='):
                                continue
                            lo, hi = (atom[2], atom[3]) if pol else (atom[3], atom[2])
                            strict = (atom[1] == '<') if pol else (atom[1] == '<=')
                            # lo < hi (strict) or lo <= hi
                            if lo[0] == 'bin' and lo[1] == '+' and lo[2] == cur and lo[3][0] == 'c' and \
                                    lo[3][1] >= (c if strict else c + 1) and any(hi == L for L in length_terms):
                                guarded = True
                        if not guarded:
                            # any equivalent way of writing the bound (i < n - c, i + c + 1 <= n, n > i + c, not n <= i + c ...):
                            # the path conditions that speak about the cursor and the length are evaluated on a grid of
                            # (cursor, length); the access is guarded iff they never hold together with cursor + c >= length
                            def _slice_len(x):
                                # len(BITS[a:b]): the number of bits left in a window, a length of its own
                                return is_call(x, 'builtins.len') and len(x[2]) == 1 and x[2][0][0] == 'sub' and x[2][0][1] == base and \
                                    x[2][0][2][0] == 'slice' and x[2][0][2][3] in (('c', None), ('c', 1))

                            def _at(x, iv, Lv):
                                if x == cur:
                                    return iv
                                if x in length_terms:
                                    return Lv
                                if _slice_len(x):
                                    lo_ = feval(x[2][0][2][1], lambda y: _at(y, iv, Lv))
                                    hi_ = feval(x[2][0][2][2], lambda y: _at(y, iv, Lv))
                                    if lo_ is UNKNOWN or hi_ is UNKNOWN:
                                        return UNKNOWN
                                    return len(range(Lv)[lo_:hi_])
                                return UNKNOWN
                            rel = [(a_, p_) for a_, p_ in ctx.conds(f, nd)
                                   if any(x == cur for x in walk_term(a_)) and
                                   any(x in length_terms or _slice_len(x) for x in walk_term(a_))]
                            verdict = None
                            if rel:
                                verdict = True
                                for iv in range(0, 9):
                                    for Lv in range(0, 9):
                                        vals = [feval(a_, lambda x, iv=iv, Lv=Lv: _at(x, iv, Lv)) for a_, p_ in rel]
                                        if any(v is UNKNOWN for v in vals):
                                            verdict = None
                                            break
                                        if all(bool(v) == p_ for v, (a_, p_) in zip(vals, rel)) and iv + c >= Lv:
                                            verdict = False
                                    if verdict is None:
                                        break
                            if verdict is True:
                                guarded = True
                            elif verdict is None and rel:
                                run.undecided('R-AHEAD', f, 'fast:bits[cursor+%d]' % c, nd.lineno,
                                              'the conditions on the cursor %s are not evaluable' % [show(a_)[:40] for a_, p_ in rel][:2])
                                continue
                        run.check(guarded, 'R-AHEAD', f, 'fast:bits[cursor+%d]' % c, nd.lineno,
                                  'look-ahead guarded by a bound on the cursor',
                                  "%s is accessed without a path condition cursor + %d < length: IndexError when the message "
                                  "length is odd" % (show(s)[:60], c),
                                  inputs='fast mode, odd message length, last step at a 4-way vertex')
    run.floor('R-AHEAD', 'look-ahead accesses in the fast-mode loops', n, 2)


def _vtuse_by_tail_paths(ctx, enc):
    """the result of encode is assembled on the way to the return (a list that grows, one return): evaluate every path
    through the loop-free tail under vt_length in {0, 1} x need_path in {False, True}"""
    from ..ctx import tail_paths, walk_path
    run = ctx.run
    paths = tail_paths(enc)
    n = 0
    for vt in (0, 1):
        for np_ in (False, True):
            def atom(x, vt=vt, np_=np_):
                if x == ('v', 'vt_length', 'P'):
                    return vt
                if x == ('v', 'need_path', 'P'):
                    return np_
                return UNKNOWN
            feasible = []
            for p in paths:
                events, env = walk_path(enc, p)
                ok, unknown = True, False
                for e in events:
                    if e.kind == 'test' and e.extra is not None:
                        v = feval(e.term, atom)
                        if v is UNKNOWN:
                            unknown = True
                        elif bool(v) != e.extra:
                            ok = False
                            break
                if ok:
                    feasible.append((p, events, unknown))
            role = 'result[vt_length%s0,need_path=%s]' % ('>' if vt else '=', np_)
            if len(feasible) != 1 or feasible[0][2]:
                run.undecided('R-VTUSE', enc, role, enc.node.lineno,
                              '%d paths through the tail of encode remain feasible for this mode; the result is not determined'
                              % len(feasible))
                continue
            p, events, _ = feasible[0]
            ret = [e for e in events if e.kind == 'return']
            t = ret[-1].term if ret else None
            if t is not None and is_call(t, 'builtins.tuple') and len(t[2]) == 1 and t[2][0][0] == 'list':
                t = ('tuple',) + t[2][0][1:]
            if t is None:
                run.undecided('R-VTUSE', enc, role, enc.node.lineno, 'no return on the path')
                continue
            n += 1
            comps = list(t[1:]) if t[0] == 'tuple' else [t]
            strand = comps[0]
            checks = [c for c in comps[1:] if call_name(c) and call_name(c).endswith('.set_vt')]
            line = ret[-1].node.lineno
            if vt:
                ok = len(checks) == 1 and call_arg(checks[0], 0, 'dna_sequence') == strand and \
                    call_arg(checks[0], 1, 'vt_length') == ('v', 'vt_length', 'P') and comps.index(checks[0]) == 1
                run.check(ok, 'R-VTUSE', enc, role + ':check-over-strand', line, 'check = set_vt(returned strand, vt_length)',
                          'encode returns %s for vt_length > 0: the second item must be set_vt(returned strand, vt_length)'
                          % show(t)[:100], inputs='every message encoded with vt_length > 0')
            else:
                run.check(not checks and len(comps) == (2 if np_ else 1), 'R-VTUSE', enc, role + ':no-check', line,
                          'no check is returned for vt_length = 0',
                          'encode returns %s for vt_length = 0' % show(t)[:100], inputs='vt_length = 0')
    return n


def r_vtuse(ctx):
    run = ctx.run
    run.rule('R-VTUSE', "encode computes the check over exactly the returned strand with the vt_length parameter, after "
                        "the strand's last definition; decode compares vt_check with set_vt(the strand parameter, "
                        "len(vt_check)) and raises ValueError on mismatch before any decoding step and before return")
    enc = ctx.p.func('dsw.spiderweb.encode')
    dec = ctx.p.func('dsw.spiderweb.decode')
    # ---- encode: every returned check is set_vt(returned strand, vt_length)
    n = 0
    unclassified = False
    for nd in enc.stmts(ast.Return):
        if not any(feval(atom, lambda x: 1 if x == ('v', 'vt_length', 'P') else UNKNOWN) is not UNKNOWN
                   for atom, pol in ctx.conds(enc, nd)):
            unclassified = True
    if unclassified:
        n = _vtuse_by_tail_paths(ctx, enc)
    for nd in ([] if unclassified else enc.stmts(ast.Return)):
        t = enc.term(nd.stmt.value, nd)
        vt_on = None
        for atom, pol in ctx.conds(enc, nd):
            v = feval(atom, lambda x: 1 if x == ('v', 'vt_length', 'P') else UNKNOWN)
            if v is not UNKNOWN:
                vt_on = (bool(v) == pol)
        if vt_on is None:
            run.undecided('R-VTUSE', enc, 'return#%d:vt-arm' % (n + 1), nd.lineno,
                          'return not classified by a test on vt_length')
            continue
        n += 1
        comps = list(t[1:]) if t[0] == 'tuple' else [t]
        strand = comps[0]
        checks = [c for c in comps[1:] if call_name(c) and call_name(c).endswith('.set_vt')]
        role = 'return#%d' % n
        if vt_on:
            ok = len(checks) == 1
            why = ''
            if ok:
                c = checks[0]
                a_seq = call_arg(c, 0, 'dna_sequence')
                a_len = call_arg(c, 1, 'vt_length')
                if a_seq != strand:
                    ok, why = False, 'check computed over %s, returned strand is %s' % (show(a_seq), show(strand))
                elif a_len != ('v', 'vt_length', 'P'):
                    ok, why = False, 'check length is %s, not the vt_length parameter' % show(a_len)
            else:
                why = '%d check strings returned on the vt_length > 0 arm' % len(checks)
            run.check(ok, 'R-VTUSE', enc, role + ':check-over-strand', nd.lineno,
                      'check = set_vt(returned strand, vt_length)', 'encode: ' + why,
                      inputs='every message encoded with vt_length > 0')
        else:
            run.check(not checks, 'R-VTUSE', enc, role + ':no-check', nd.lineno, nontrivial=False)
    run.floor('R-VTUSE', 'classified returns of encode', n, 2)
    # the vt arm is selected by vt_length > 0
    # ---- decode: comparison dominates every walk step and the return
    cmp_nodes = []
    for nd in dec.nodes:
        if nd.kind != 'test':
            continue
        t = dec.term(nd.ast, nd)
        for atom, pol in flatten_cond(t, True):
            if atom[0] == 'cmp' and atom[1] == '==':
                for a, b in ((atom[2], atom[3]), (atom[3], atom[2])):
                    if a == ('v', 'vt_check', 'P') and call_name(b) and call_name(b).endswith('.set_vt'):
                        cmp_nodes.append((nd, b, pol))
    if not cmp_nodes:
        # the check compared piecewise: vt_check[S] against set_vt(...)[S] for several slices S.  Each piece agrees or not,
        # independently; decode must raise as soon as one piece differs - decided by evaluating the test on every combination
        import itertools
        for nd in dec.nodes:
            if nd.kind != 'test':
                continue
            t = dec.term(nd.ast, nd)
            pieces = {}
            for x in walk_term(t):
                if x[0] == 'cmp' and x[1] in ('==', '!='):
                    for a, b in ((x[2], x[3]), (x[3], x[2])):
                        if a[0] == 'sub' and a[1] == ('v', 'vt_check', 'P') and b[0] == 'sub' and b[2] == a[2] and \
                                call_name(b[1]) and call_name(b[1]).endswith('.set_vt') and a[2][0] == 'slice':
                            pieces.setdefault(a[2], []).append(x)
            if len(pieces) < 2:
                continue
            keys = sorted(pieces, key=repr)
            raises = [m for m in dec.nodes if isinstance(m.stmt, ast.Raise) and m.kind == 'stmt' and
                      any(tid == nd.id for _t, _p, tid in m.conds)]
            if not raises:
                continue
            rpol = [p for _t, p, tid in raises[0].conds if tid == nd.id][0]
            wit = None
            for combo in itertools.product((True, False), repeat=len(keys)):
                agree = dict(zip(keys, combo))

                def at(x, agree=agree):
                    if x[0] == 'cmp' and x[1] in ('==', '!='):
                        for k_ in keys:
                            if x in pieces[k_]:
                                return agree[k_] if x[1] == '==' else not agree[k_]
                    return UNKNOWN
                v = feval(t, at)
                if v is UNKNOWN:
                    wit = None
                    break
                if (bool(v) == rpol) != (not all(combo)) and not all(combo):
                    wit = [show(('sub', ('v', 'vt_check', 'P'), k_))[:30] for k_ in keys if not agree[k_]]
                    break
            if wit:
                run.refute('R-VTUSE', dec, 'check-comparison:every-piece', nd.lineno,
                           'decode compares the supplied check with the recomputed one piece by piece and does not raise when only %s '
                           'differ(s): a strand whose check disagrees in that piece alone is accepted' % ', '.join(wit),
                           inputs='corrupted strands whose recomputed check differs from the supplied one only in that piece')
                return
    if not cmp_nodes:
        wit = _mismatch_accepted_by_paths(ctx, dec)
        if wit:
            run.refute('R-VTUSE', dec, 'check-comparison:mismatch-raises', wit[0],
                       'a supplied check that differs from the recomputed one is accepted on the path through line(s) %s when %s: the '
                       'walk is decoded although the check disagrees' % (wit[1], wit[2]),
                       inputs='corrupted strands decoded with the original check in that configuration')
            return
    if not cmp_nodes and any(call_name(x) and call_name(x).endswith('.set_vt') for n_, r_, t_ in ctx.root_terms(dec)
                             if t_ is not None for x in walk_term(t_)):
        run.undecided('R-VTUSE', dec, 'check-comparison', dec.node.lineno,
                      'decode calls set_vt, but no test of the form vt_check == set_vt(...) is recognised')
        return
    if not cmp_nodes:
        run.refute('R-VTUSE', dec, 'check-comparison', dec.node.lineno,
                   'decode never compares vt_check with set_vt(...): a supplied check is ignored',
                   inputs='any corrupted strand decoded with its check')
        return
    nd, call, pol = cmp_nodes[0]
    a_seq, a_len = call_arg(call, 0, 'dna_sequence'), call_arg(call, 1, 'vt_length')
    run.check(a_seq == ('v', 'dna_sequence', 'P'), 'R-VTUSE', dec, 'check-comparison:strand', nd.lineno,
              'check recomputed over the strand parameter',
              'decode recomputes the check over %s, not over the strand it decodes' % show(a_seq),
              inputs='every strand decoded with a check')
    run.check(a_len == ('call', ('g', 'builtins.len'), (('v', 'vt_check', 'P'),), ()), 'R-VTUSE', dec,
              'check-comparison:length', nd.lineno, 'length = len(vt_check)',
              'decode recomputes the check with length %s, not len(vt_check)' % show(a_len),
              inputs='every strand decoded with a check')
    # mismatch arm raises ValueError: the first statement reached on the mismatch polarity is a raise
    # pol is the polarity under which "==" holds; mismatch = not pol
    mismatch_raises = False
    for m in dec.nodes:
        if isinstance(m.stmt, ast.Raise) and m.kind == 'stmt':
            for test, p, tid in m.conds:
                if tid == nd.id and p == (not pol):
                    if exc_name(dec.term(m.stmt.exc, m)) == 'ValueError':
                        mismatch_raises = True
    run.check(mismatch_raises, 'R-VTUSE', dec, 'check-comparison:mismatch-raises', nd.lineno,
              'mismatch arm raises ValueError', 'the mismatch arm of the check comparison does not raise ValueError',
              inputs='corrupted strands decoded with the original check')
    # guarded by vt_check is not None only
    outer = [(a, p) for a, p in ctx.conds(dec, nd)]
    only_none = all(a[0] == 'cmp' and a[1] == 'is' and a[2] == ('v', 'vt_check', 'P') and a[3] == ('c', None) and not p
                    for a, p in outer)
    run.check(only_none, 'R-VTUSE', dec, 'check-comparison:reached-whenever-check-supplied', nd.lineno,
              'comparison is reached whenever vt_check is not None',
              'the check comparison is only reached under %s' % [(show(a), p) for a, p in outer],
              inputs='strands decoded with a check in the excluded configuration')
    dom = dec.dominators()
    # the enclosing `if vt_check is not None` test (or the comparison itself) must dominate steps and returns
    guard_ids = {nd.id} | {tid for test, p, tid in nd.conds}
    top = min(guard_ids)
    targets = [s.node for s in walk_steps(ctx, dec)] + list(dec.stmts(ast.Return))
    bad = [t for t in targets if top not in dom[t.id]]
    run.check(not bad and targets, 'R-VTUSE', dec, 'check-comparison:dominates-decoding', nd.lineno,
              'the check test dominates %d walk steps / returns' % len(targets),
              'statement at line %s is reachable without passing the check comparison'
              % (bad[0].lineno if bad else '?'), inputs='corrupted strands decoded with the original check')


def _mismatch_accepted_by_paths(ctx, dec):
    """paths from the entry of decode to its first loop, evaluated with `vt_check is None` false and `vt_check == set_vt(..)`
    false: a feasible one whose undetermined tests do not speak about the check is an acceptance of a mismatching check.
    -> (line, lines of the path's tests, text of the undetermined tests) or None"""
    from ..ctx import paths_between, walk_path
    vt = ('v', 'vt_check', 'P')
    heads = [n.id for n in dec.nodes if n.kind in ('for', 'while') and not n.loops]
    raises = [n.id for n in dec.nodes if isinstance(n.stmt, ast.Raise) and n.kind == 'stmt' and not n.loops]
    if not heads:
        return None

    def at(x):
        if x[0] == 'cmp' and x[1] in ('is', 'is not') and x[2] == vt and x[3] == ('c', None):
            return x[1] == 'is not'
        if x[0] == 'cmp' and x[1] in ('==', '!='):
            for a, b in ((x[2], x[3]), (x[3], x[2])):
                if a == vt and call_name(b) and call_name(b).endswith('.set_vt'):
                    return x[1] == '!='
        return UNKNOWN
    saw_cmp = False
    for h in heads:
        try:
            paths = paths_between(dec, dec.entry.id, h, avoid=set(heads + raises) - {h})
        except AnalysisError:
            return None
        for p in paths:
            events, env = walk_path(dec, p)
            feasible, unknown = True, []
            for e in events:
                if e.kind != 'test' or e.extra is None:
                    continue
                if any(at(x) is not UNKNOWN and x[0] == 'cmp' and x[1] in ('==', '!=') for x in walk_term(e.term)):
                    saw_cmp = True
                v = feval(e.term, at)
                if v is UNKNOWN:
                    unknown.append(e)
                elif bool(v) != e.extra:
                    feasible = False
                    break
            if not feasible:
                continue
            def about_check(t):
                # vt_check occurs in t outside the two atoms decided above
                if at(t) is not UNKNOWN:
                    return False
                if t == vt:
                    return True
                return any(about_check(x) for x in t[1:] if isinstance(x, tuple) and x and isinstance(x[0], str)) or \
                    any(about_check(y) for x in t[1:] if isinstance(x, tuple) and x and isinstance(x[0], tuple) for y in x
                        if isinstance(y, tuple) and y and isinstance(y[0], str))
            if any(about_check(e.term) for e in unknown):
                return None             # an undetermined test about the check itself: not decided here
            tests = [e for e in events if e.kind == 'test']
            if not any(any(call_name(x) and call_name(x).endswith('.set_vt') for x in walk_term(e.term)) or
                       any(at(x) is not UNKNOWN for x in walk_term(e.term)) for e in tests):
                continue                # a path that never looks at the check: the plain "never compares" case, reported elsewhere
            return (tests[0].node.lineno if tests else dec.node.lineno, sorted({e.node.lineno for e in tests}),
                    ' and '.join(('' if e.extra else 'not ') + show(e.term)[:60] for e in unknown) or 'always')
    return None


def r_loop_test(ctx):
    """C04: the coder loops of encode end exactly when the message is consumed"""
    run = ctx.run
    run.rule('R-TIGHT', "encode's normal-mode loop runs exactly while the running quotient is not \"0\" and its fast-mode loop "
                        "exactly while the cursor is below the message length: no further disjunct keeps the walk going after "
                        "the message is consumed (the last nucleotide is information-carrying)")
    f = ctx.p.func('dsw.spiderweb.encode')
    for loop in coder_loops(ctx, f):
        head = f.nodes[loop.hid]
        if head.kind != 'while':
            run.undecided('R-TIGHT', f, '%s:loop-test' % loop.mode, head.lineno, 'coder loop is not a while loop')
            continue
        t = f.term(head.ast, head)

        def base(x):
            if loop.mode == 'normal':
                return x[0] == 'cmp' and x[1] in ('==', '!=') and x[3] == ('c', '0') and x[2][0] == 'v'
            return x[0] == 'cmp' and x[1] in ('<', '<=') and is_call(x[3], 'builtins.len') and x[3][2] == (('v', 'binary_message', 'P'),)
        bases = [x for x in walk_term(t) if base(x)]
        if not bases and t == ('c', True):
            # `while True:` with the message-consumed test as a break inside: the test must come before the walk step of the
            # round (a do-while emits one nucleotide even for a message of value 0 / an empty message)
            dom = f.dominators()
            body = {n.id for n in f.nodes if loop.hid in n.loops}
            stepn = {s.node.id for s in loop.steps}
            found_break = None
            for x in f.nodes:
                if x.id in body and isinstance(x.stmt, ast.Break) and x.loops[-1] == loop.hid:
                    for atom, pol in ctx.conds(f, x):
                        if base(atom):
                            found_break = (x, atom, pol)
            if found_break is not None:
                x, atom, pol = found_break
                test_id = [tid for _t, _p, tid in x.conds][-1]
                after_step = any(s in dom[test_id] for s in stepn)
                if after_step:
                    run.refute('R-TIGHT', f, '%s:loop-ends-when-message-consumed' % loop.mode, x.lineno,
                               "the %s-mode loop of encode is `while True` and tests `%s` only after the walk step of the round: one "
                               "nucleotide is emitted even when the message is already consumed before the first round (message "
                               "value 0), so the strand is longer than the documented walk" % (loop.mode, show(atom)[:40]),
                               inputs='messages of value 0 (all-zero bits), the empty message')
                    continue
                before = all(test_id in dom[s] for s in stepn)
                if before:
                    run.ok('R-TIGHT', f, '%s:loop-ends-when-message-consumed' % loop.mode, x.lineno,
                           'while True with the message-consumed break before the step')
                    continue
        if not bases:
            run.undecided('R-TIGHT', f, '%s:loop-ends-when-message-consumed' % loop.mode, head.lineno,
                          'message-consumed test not recognised in %s' % show(t)[:80])
            continue
        b = bases[0]
        # value of the base atom when the message is consumed / not consumed
        if loop.mode == 'normal':
            consumed_val = (b[1] == '==')
        else:
            consumed_val = False
        v_cons = feval(t, lambda x: consumed_val if x == b else UNKNOWN)
        v_left = feval(t, lambda x: (not consumed_val) if x == b else UNKNOWN)
        ok = v_cons is False and v_left is True
        run.check(ok, 'R-TIGHT', f, '%s:loop-ends-when-message-consumed' % loop.mode, head.lineno,
                  'the loop test is exactly the message-consumed test',
                  "the %s-mode loop of encode runs while %s: the walk can continue (or stop) independently of the message "
                  "being consumed, so the strand may end on a nucleotide that carries no information" % (loop.mode, show(t)[:100]),
                  inputs='graphs with out-degree-1 vertices (threshold 1)')


def r_msg(ctx):
    """the message enters and leaves the coder untouched"""
    run = ctx.run
    run.rule('R-MSG', "encode's normal-mode variant starts as bit_to_number(binary_message) (decimal string), its fast-mode "
                      "cursor starts at 0; decode's normal-mode result is array(number_to_bit(<Horner accumulator>, bit_length)), "
                      "its fast-mode output has shape (bit_length,), starts as zeros and its cursor starts at 0")
    enc = ctx.p.func('dsw.spiderweb.encode')
    dec = ctx.p.func('dsw.spiderweb.decode')
    bm = ('v', 'binary_message', 'P')
    for loop in coder_loops(ctx, enc):
        head = enc.nodes[loop.hid]
        body = {n.id for n in enc.nodes if loop.hid in n.loops}
        t = enc.term(head.ast, head)
        name = None
        for x in walk_term(t):
            if x[0] == 'v' and isinstance(x[2], tuple):
                name = x[1]
                break
        if name is None:
            run.undecided('R-MSG', enc, '%s:initial' % loop.mode, head.lineno, 'loop variable not found in %s' % show(t)[:60])
            continue
        init = [enc.defs[i] for i in enc.reaching(head.id, name) if enc.defs[i].node not in body]
        its = [TermBuilder(enc, d.node).def_term(d.id) for d in init]
        if loop.mode == 'normal':
            ok = bool(its) and all(i is not None and call_name(i) and call_name(i).endswith('.bit_to_number') and
                                   call_arg(i, 0, 'bit_array') == bm and call_arg(i, 1, 'is_string') in (None, ('c', True))
                                   for i in its)
            run.check(ok, 'R-MSG', enc, 'normal:variant-starts-as-message-value', head.lineno,
                      'variant = bit_to_number(binary_message)',
                      'the normal-mode variant `%s` starts as %s, not as the decimal value of the whole message'
                      % (name, [show(i)[:60] if i else None for i in its]), inputs='every message')
        else:
            ok = bool(its) and all(i == ('c', 0) for i in its)
            if not ok and len(its) == 1 and its[0] is not None and its[0][0] == 'c' and isinstance(its[0][1], int):
                # a cursor that starts at c0 and reads the current bit at B[cursor - c0] is the same cursor shifted: the smallest
                # offset at which the message is read in the loop must be -c0
                from .repair import affine as _aff
                offs = []
                for nd_ in enc.nodes:
                    if nd_.id not in body or nd_.ast is None:
                        continue
                    for sub_ in ast.walk(nd_.ast if not isinstance(nd_.ast, (ast.If, ast.While)) else nd_.ast.test):
                        if not isinstance(sub_, ast.Subscript):
                            continue
                        try:
                            x = enc.term(sub_, nd_)
                        except Exception:
                            continue
                        if x is not None and x[0] == 'sub' and x[1] == bm:
                            a_ = _aff(x[2])
                            if a_ is not None:
                                ks = [k for k in a_ if k != 1]
                                if len(ks) == 1 and ks[0][0] == 'v' and ks[0][1] == name and a_[ks[0]] == 1:
                                    offs.append(a_.get(1, 0))
                if offs and min(offs) == -its[0][1]:
                    ok = True
            if not ok and its and any(i is None or i[0] != 'c' for i in its):
                run.undecided('R-MSG', enc, 'fast:cursor-starts-at-0', head.lineno,
                              'the loop variable `%s` starts at %s: not a cursor counted from the first bit' % (name, [show(i)[:30] if i else None for i in its]))
                continue
            run.check(ok, 'R-MSG', enc, 'fast:cursor-starts-at-0', head.lineno, 'cursor starts at 0',
                      'the fast-mode cursor `%s` starts at %s' % (name, [show(i)[:30] if i else None for i in its]),
                      inputs='every message in fast mode')
    # decode: what is returned
    bl = ('v', 'bit_length', 'P')
    rets = list(dec.stmts(ast.Return))
    nforms = 0
    for r in rets:
        t = dec.term(r.stmt.value, r)
        alts = dec.alternatives(t) if t[0] == 'v' else None
        terms = [a for _, a in alts] if alts else [t]
        kinds = []
        for a in terms:
            if a is None:
                kinds.append(('opaque', None))
            elif is_call(a, 'numpy.array', 'numpy.asarray') and a[2] and call_name(a[2][0]) and \
                    call_name(a[2][0]).endswith('.number_to_bit'):
                nb = a[2][0]
                kinds.append(('normal', call_arg(nb, 1, 'bit_length') == bl and call_arg(nb, 0, 'decimal_number') is not None
                              and call_arg(nb, 0, 'decimal_number')[0] != 'c'))
            elif is_call(a, 'numpy.zeros'):
                sh = call_arg(a, 0, 'shape')
                kinds.append(('fast', sh == ('tuple', bl) or sh == bl))
            else:
                kinds.append(('opaque', None))
        for kind, ok in kinds:
            if kind == 'opaque':
                continue
            run.check(bool(ok), 'R-MSG', dec, '%s:result-has-requested-length' % kind, r.lineno,
                      'the result is rendered / allocated at bit_length',
                      'decode\'s %s-mode result is not rendered at the requested bit_length (%s)' % (kind, show(t)[:80]),
                      inputs='every strand')
        nforms += sum(1 for k, _ in kinds if k != 'opaque')
    run.floor('R-MSG', 'recognised result forms of decode', nforms, 2)
    for loop in coder_loops(ctx, dec):
        if loop.mode != 'fast':
            continue
        body = {n.id for n in dec.nodes if loop.hid in n.loops}
        cursors = {d.name for n in dec.nodes if n.id in body for d in n.defs if d.kind == 'aug'}
        for c in sorted(cursors):
            init = [dec.defs[i] for i in dec.reaching(loop.hid, c) if dec.defs[i].node not in body]
            its = [TermBuilder(dec, d.node).def_term(d.id) for d in init]
            okc = bool(its) and all(i == ('c', 0) for i in its)
            if not okc and len(its) == 1 and its[0] is not None and its[0][0] == 'c' and isinstance(its[0][1], int):
                # a cursor that starts at c0 and stores the current bit at OUT[cursor - c0] is the same cursor shifted
                from .repair import affine as _aff
                offs = []
                for nd_ in dec.nodes:
                    if nd_.id not in body:
                        continue
                    for d_ in nd_.defs:
                        if d_.kind == 'mutate' and isinstance(d_.extra, ast.Subscript):
                            try:
                                a_ = _aff(dec.term(d_.extra.slice, nd_))
                            except Exception:
                                a_ = None
                            if a_ is not None:
                                ks = [k for k in a_ if k != 1]
                                if len(ks) == 1 and ks[0][0] == 'v' and ks[0][1] == c and a_[ks[0]] == 1:
                                    offs.append(a_.get(1, 0))
                if not offs:
                    run.undecided('R-MSG', dec, 'fast:cursor-starts-at-0', dec.nodes[loop.hid].lineno,
                                  'the output cursor `%s` starts at %s and no store addressed by it is recognised' % (c, show(its[0])))
                    continue
                # whether the first store of a round precedes or follows the advance is not known here: both the smallest offset
                # and the offset after a first advance of 1 or 2 are consistent with a shifted cursor
                okc = min(offs) == -its[0][1]
                if not okc:
                    run.undecided('R-MSG', dec, 'fast:cursor-starts-at-0', dec.nodes[loop.hid].lineno,
                                  'the output cursor `%s` starts at %s; stores at offsets %s' % (c, show(its[0]), sorted(set(offs))))
                    continue
            elif not okc and its and any(i is None or i[0] != 'c' for i in its):
                run.undecided('R-MSG', dec, 'fast:cursor-starts-at-0', dec.nodes[loop.hid].lineno,
                              'the output cursor `%s` starts at %s' % (c, [show(i)[:30] if i else None for i in its]))
                continue
            run.check(okc, 'R-MSG', dec, 'fast:cursor-starts-at-0', dec.nodes[loop.hid].lineno,
                      'output cursor starts at 0', 'the fast-mode output cursor `%s` starts at %s' % (c, [show(i) if i else None for i in its]),
                      inputs='every strand in fast mode')


def r_raise(ctx, which=('encode', 'decode')):
    """where encode / decode may fail: encode only inside its coder loops (decided per out-degree by R-DEG); decode inside
    its coder loops, or on the comparison of the supplied check"""
    run = ctx.run
    run.rule('R-RAISE', "encode has no raise outside its coder loops (it is total: the only documented failures are a vertex "
                        "without arcs and out-degree 3 in fast mode, both decided inside the loop); decode raises inside its coder "
                        "loops (symbol is not an arc) or on the comparison of the supplied check, nowhere else: a walk is never "
                        "rejected after it was followed")
    vt = ('v', 'vt_check', 'P')
    for name in which:
        f = ctx.p.func('dsw.spiderweb.' + name)
        loops = coder_loops(ctx, f)
        heads = {l.hid for l in loops}
        n = 0
        for nd in f.stmts(ast.Raise):
            n += 1
            if any(h in nd.loops for h in heads):
                continue
            conds = ctx.conds(f, nd)
            about_check = any(any(x == vt for x in walk_term(a)) and
                              any(call_name(x) and call_name(x).endswith('.set_vt') for x in walk_term(a)) for a, p in conds)
            if name == 'decode' and not about_check:
                # the expected check computed into a variable first: `e = None if vt_check is None else set_vt(...)`; `if vt_check != e`
                for a, p in conds:
                    if not any(x == vt for x in walk_term(a)):
                        continue
                    for x in walk_term(a):
                        alts = f.alternatives(x) if x[0] == 'v' else None
                        if alts and any(t_ is not None and any(call_name(y) and call_name(y).endswith('.set_vt')
                                                                for y in walk_term(t_)) for _, t_ in alts) and \
                                all(t_ is not None and (t_ == ('c', None) or any(call_name(y) and call_name(y).endswith('.set_vt')
                                                                                   for y in walk_term(t_))) for _, t_ in alts):
                            about_check = True
            role = 'raise-outside-the-walk@%d' % n
            if name == 'decode' and about_check:
                run.ok('R-RAISE', f, role, nd.lineno, 'the raise belongs to the comparison of the supplied check')
                continue
            txt = ' and '.join(('' if p else 'not ') + show(a)[:40] for a, p in conds[-2:]) or 'unconditionally'
            if name == 'encode':
                run.refute('R-RAISE', f, role, nd.lineno,
                           "encode raises outside its coder loops (when %s): encoding is total on generated graphs - a start vertex or a "
                           "message is never refused up front" % txt,
                           inputs='retained vertices / messages that satisfy the new condition')
            else:
                run.refute('R-RAISE', f, role, nd.lineno,
                           "decode raises outside its coder loops (when %s) although the strand was followed arc by arc: a walk of the "
                           "graph is rejected (or a property of the decoded digits is made an error)" % txt,
                           inputs='valid walks that satisfy the new condition (non-canonical walks, odd bit lengths, ...)')
        run.floor('R-RAISE', 'raise statements of %s' % name, n, 1)
