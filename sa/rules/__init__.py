"""Rule catalogue (DESIGN.md section 3).  Every rule is ``rule(ctx, ...)`` and records obligations on ctx.run."""
