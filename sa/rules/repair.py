"""R-PROG (termination), R-TILE (repair offsets), R-CAND (path_matching candidates), R-RET (repair_dna returns)."""
import ast

from ..core import AnalysisError, TermBuilder, call_arg, call_name, is_call, show, walk_term
from ..ctx import flatten_cond, walk_path, path_decisions
from ..finite import UNKNOWN, feval
from .walk import walk_steps, is_alpha, strip_wrappers

K_SYM = ('v', 'observed_length', 'P')


# ----------------------------------------------------------------------------------------------
# affine forms  { symbol term: coeff, 1: const }
# ----------------------------------------------------------------------------------------------
def _tri(run, ok, witness, rule, f, role, line, good, bad, **kw):
    """ok -> discharged; a positive witness of deviation -> refuted; a shape that is merely not recognised -> undecided"""
    if ok:
        return run.ok(rule, f, role, line, good, **{k: v for k, v in kw.items() if k != 'inputs'})
    if witness:
        return run.refute(rule, f, role, line, bad, **kw)
    return run.undecided(rule, f, role, line, 'construct not in a recognised form (%s)' % good)


def affine(t, opaque_ok=True):
    if t[0] == 'c':
        if isinstance(t[1], int) and not isinstance(t[1], bool):
            return {1: t[1]}
        return None
    if t[0] == 'bin' and t[1] in ('+', '-'):
        a, b = affine(t[2]), affine(t[3])
        if a is None or b is None:
            return None
        out = dict(a)
        for k, v in b.items():
            out[k] = out.get(k, 0) + (v if t[1] == '+' else -v)
        return {k: v for k, v in out.items() if v != 0 or k == 1}
    if t[0] == 'un' and t[1] == '-':
        a = affine(t[2])
        return None if a is None else {k: -v for k, v in a.items()}
    if t[0] == 'bin' and t[1] == '*':
        a, b = affine(t[2]), affine(t[3])
        if a is None or b is None:
            return None
        if set(a) <= {1}:
            return {k: v * a.get(1, 0) for k, v in b.items()}
        if set(b) <= {1}:
            return {k: v * b.get(1, 0) for k, v in a.items()}
        return None
    if is_call(t, 'builtins.int') and len(t[2]) == 1:
        return affine(t[2][0])
    return {t: 1}


def aff_sub(a, b):
    out = dict(a)
    for k, v in b.items():
        out[k] = out.get(k, 0) - v
    return {k: v for k, v in out.items() if v != 0}


def aff_eq(a, b):
    return aff_sub(a, b) == {}


def aff_show(a):
    if a is None:
        return 'non-affine'
    parts = []
    for k, v in a.items():
        if k == 1:
            continue
        parts.append(('%d*' % v if v != 1 else '') + show(k))
    if a.get(1, 0) or not parts:
        parts.append(str(a.get(1, 0)))
    return ' + '.join(parts)


def positive_under_k(a):
    """affine form provably >= 1 when every symbol is the observed length (>= 1) with coefficient >= 0"""
    if a is None:
        return False
    const = a.get(1, 0)
    lo = const
    for k, v in a.items():
        if k == 1:
            continue
        if k != K_SYM or v < 0:
            return False
        lo += v * 1
    return lo >= 1


# ----------------------------------------------------------------------------------------------
def r_prog(ctx, entry, skip_whiles_in=(), prop_note=''):
    run = ctx.run
    run.rule('R-PROG', "termination of the closure of an entry point: no recursion; every for iterates a collection "
                       "its body does not extend; every path of every while that reaches the back edge advances the "
                       "loop's variant (v < e with v += positive; a string / integer variant divided by a base >= 2); "
                       "the candidate product loop is dominated by the heap guard")
    clo = ctx.closure(entry)
    cyc = ctx.check_acyclic()
    run.check(cyc is None or not (set(cyc) & clo), 'R-PROG', ctx.p.func(entry), 'no-recursion', ctx.p.func(entry).node.lineno,
              'call graph of the closure (%d functions) is acyclic' % len(clo),
              'recursion in the closure: %s' % cyc, inputs='inputs that drive the recursive call')
    nwhile = nfor = 0
    for fq in sorted(clo):
        f = ctx.p.func(fq)
        wi = fi = 0
        for nd in f.nodes:
            if nd.kind == 'for':
                fi += 1
                nfor += 1
                check_for(ctx, f, nd, fi)
            elif nd.kind == 'while':
                wi += 1
                nwhile += 1
                if fq in skip_whiles_in:
                    continue
                check_while(ctx, f, nd, wi)
    return nwhile, nfor


def check_for(ctx, f, nd, i):
    run = ctx.run
    body = {n.id for n in f.nodes if nd.id in n.loops}
    names = {x.id for x in ast.walk(nd.stmt.iter) if isinstance(x, ast.Name)}
    grown = []
    for n in f.nodes:
        if n.id in body:
            for d in n.defs:
                if d.kind == 'mutate' and d.name in names and isinstance(d.extra, ast.Attribute) \
                        and d.extra.attr in ('append', 'extend', 'insert', 'add', 'update', 'setdefault'):
                    grown.append((d.name, n))
                if d.kind == 'mutate' and d.name in names and isinstance(d.extra, ast.Subscript) and \
                        isinstance(f.term(nd.stmt.iter, nd), tuple) and _iterates_dict(f, nd, d.name):
                    grown.append((d.name, n))
    run.check(not grown, 'R-PROG', f, 'for#%d:finite' % i, nd.lineno, 'the iterated collection is not extended in the body',
              'the for loop at line %d iterates %s, which its body extends at line %s'
              % (nd.lineno, grown[0][0] if grown else '', grown[0][1].lineno if grown else ''),
              inputs='any input reaching the loop', nontrivial=False)


def _iterates_dict(f, nd, name):
    it = nd.stmt.iter
    for x in ast.walk(it):
        if isinstance(x, ast.Attribute) and x.attr in ('items', 'keys', 'values') and isinstance(x.value, ast.Name) \
                and x.value.id == name:
            return True
    return False


def check_while(ctx, f, nd, i):
    run = ctx.run
    role = 'while#%d:progress' % i
    test = f.term(nd.ast, nd)
    paths = ctx.body_paths(f, nd.id)
    back = [(p, k) for p, k in paths if k == 'back']
    if test == ('c', True):
        # while True: must have an exit; progress is the business of R-FIX / capacity (not in any claimed closure)
        exits = [k for p, k in paths if k in ('break', 'return', 'raise')]
        run.check(bool(exits), 'R-PROG', f, role, nd.lineno, '`while True` with %d exit paths (variant not decided here)' % len(exits),
                  '`while True` without any exit path', nontrivial=False)
        return
    variant = None
    atoms = flatten_cond(test, True)
    for atom, pol in atoms:
        if atom[0] != 'cmp' or not pol:
            continue
        if atom[1] == '<' and atom[2][0] == 'v':
            variant = ('lt', atom[2][1], atom[3])
        if atom[1] == '<' and atom[2] == ('c', 0) and atom[3][0] == 'v':
            variant = ('gt0', atom[3][1], None)
    for atom, pol in atoms:
        if atom[0] == 'cmp' and atom[1] == '==' and not pol and atom[2][0] == 'v' and atom[3] == ('c', '0'):
            variant = ('str0', atom[2][1], None)
    if variant is None:
        # while v != e : sound only when every step is exactly +1 (a larger step can jump over e)
        for atom, pol in atoms:
            if atom[0] == 'cmp' and atom[1] == '==' and not pol:
                for a_, b_ in ((atom[2], atom[3]), (atom[3], atom[2])):
                    if a_[0] == 'v' and isinstance(a_[2], tuple) and is_call(b_, 'builtins.len'):
                        big = []
                        for p, k in back:
                            events, env = walk_path(f, p)
                            for e in events:
                                if e.kind == 'aug' and e.name == a_[1] and e.term[0] == 'bin' and e.term[1] == '+' and e.extra != ('c', 1):
                                    big.append(show(e.extra)[:40])
                        if big:
                            run.refute('R-PROG', f, role, nd.lineno,
                                       "the loop runs while `%s != %s` but advances `%s` by %s on some path: the variable can jump over "
                                       "the bound and the loop never ends" % (a_[1], show(b_)[:30], a_[1], big[0]),
                                       inputs='an error in the last window of the strand')
                            return
    if variant is None:
        body = {n.id for n in f.nodes if nd.id in n.loops}
        read = {x[1] for x in walk_term(test) if x[0] == 'v'}
        written = {d.name for n in f.nodes if n.id in body for d in n.defs}
        exits = [k for p, k in paths if k in ('break', 'return', 'raise')]
        if not (read & written) and not exits:
            run.refute('R-PROG', f, role, nd.lineno,
                       "nothing in the body of the loop at line %d writes a name its test %s reads and no path leaves "
                       "the body: once entered it never ends" % (nd.lineno, show(test)[:80]),
                       inputs='inputs for which the test holds once')
        else:
            run.undecided('R-PROG', f, role, nd.lineno, 'no variant recognised in loop test %s' % show(test))
        return
    kind, v, bound = variant
    # the bound must not be written in the body
    if kind == 'lt':
        body = {n.id for n in f.nodes if nd.id in n.loops}
        bnames = {x[1] for x in walk_term(bound) if x[0] == 'v'}
        for n in f.nodes:
            if n.id in body:
                for d in n.defs:
                    if d.name in bnames and d.name != v:
                        run.refute('R-PROG', f, role + ':bound-stable', n.lineno,
                                   'the bound %s of the loop at line %d is modified in its body' % (show(bound), nd.lineno),
                                   inputs='any input reaching the loop')
    def radix_ok(t):
        """constant >= 2, or a parameter of a private helper that receives only constants >= 2 -> True; provably < 2 -> False;
        anything else -> None (cannot tell)"""
        t0 = t
        if is_call(t0, 'builtins.str') and len(t0[2]) == 1:
            t0 = t0[2][0]
        if t0[0] == 'c':
            try:
                return int(t0[1]) >= 2
            except (TypeError, ValueError):
                return None
        if t0[0] == 'v' and t0[2] == 'P':
            vals, unknown = ctx.param_values(f, t0[1])
            if vals and not unknown:
                try:
                    return all(int(v) >= 2 for v in vals)
                except (TypeError, ValueError):
                    return None
        return None
    bad, unsure = [], []
    for p, k in back:
        events, env = walk_path(f, p)
        ok = False
        maybe = False
        for e in events:
            if e.name != v:
                continue
            if kind == 'lt' and e.kind == 'aug':
                # v = v + p
                if e.term[0] == 'bin' and e.term[1] == '+' and positive_under_k(affine(e.extra)):
                    ok = True
                elif e.term[0] == 'c':
                    ok = True
            elif kind == 'lt' and e.kind == 'def':
                pass
            elif kind == 'gt0':
                rb = None
                if e.kind == 'aug' and e.term[0] == 'bin' and e.term[1] in ('//', '>>'):
                    rb = True if e.term[1] == '>>' and e.extra[0] == 'c' and e.extra[1] >= 1 else radix_ok(e.extra)
                if e.kind == 'def' and e.term[0] == 'bin' and e.term[1] == '//' and e.term[2][0] == 'v' and e.term[2][1] == v:
                    rb = radix_ok(e.term[3])        # q, r = divmod(v, b)  is  q = v // b
                if rb is True:
                    ok = True
                elif rb is None and (e.kind == 'aug' or (e.kind == 'def' and e.term[0] in ('item', 'bin'))):
                    maybe = True
            elif kind == 'str0':
                if e.kind == 'def' and e.term[0] == 'item' and e.term[2] == 0 and call_name(e.term[1]) and \
                        call_name(e.term[1]).endswith('.calculus_division'):
                    base = call_arg(e.term[1], 1, 'base')
                    rb = radix_ok(base) if base is not None else None
                    if rb is True:
                        ok = True
                    elif rb is None:
                        maybe = True
        if not ok:
            tests = [(n.lineno, pol) for n, pol in path_decisions(f, p)]
            (unsure if maybe else bad).append(tests)
    if bad:
        run.refute('R-PROG', f, role, nd.lineno,
                   "%d of %d paths through the loop body reach the back edge without advancing the variant `%s` "
                   "(branch decisions (line, taken): %s): the loop spins forever on inputs that drive that path"
                   % (len(bad), len(back), v, bad[0]), extracted={'variant': v, 'paths': len(back)},
                   inputs='inputs that select that arm, e.g. a first nucleotide that is not an arc of the start vertex')
    elif unsure:
        run.undecided('R-PROG', f, role, nd.lineno,
                      'the variant `%s` is divided by a quantity whose value (>= 2?) is not known statically' % v)
    else:
        run.ok('R-PROG', f, role, nd.lineno, 'variant `%s` advances on all %d back-edge paths' % (v, len(back)),
               extracted={'variant': v, 'kind': kind, 'paths': len(back)})


def r_heap_guard(ctx):
    run = ctx.run
    f = ctx.p.func('dsw.spiderweb.repair_dna')
    n = 0
    for nd in f.nodes:
        if nd.kind != 'for':
            continue
        it = f.term(nd.stmt.iter, nd)
        if not is_call(it, 'itertools.product'):
            continue
        n += 1
        ok = False
        for atom, pol in ctx.conds(f, nd):
            if atom[0] != 'cmp':
                continue
            heap = ('v', 'heap_size', 'P')
            if (atom[1] == '>' and atom[3] == heap and not pol) or (atom[1] == '<=' and atom[3] == heap and pol) or \
                    (atom[1] == '<' and atom[2] == heap and not pol) or (atom[1] == '>=' and atom[2] == heap and pol):
                cnt = atom[2] if atom[3] == heap else atom[3]
                if cnt[0] == 'v' and isinstance(cnt[2], tuple) and any(
                        f.defs[d].kind == 'aug' and isinstance(f.defs[d].extra, ast.Mult) for d in cnt[2]):
                    ok = True
                # math.prod over the per-site counts: an exact (arbitrary-precision) product
                if is_call(cnt, 'math.prod') and len(cnt[2]) == 1 and cnt[2][0][0] == 'comp' and is_call(cnt[2][0][2], 'builtins.len'):
                    ok = True
        if not ok:
            # evaluate the whole guard: with more combinations than heap_size the product loop must be unreachable
            from ..finite import feval, UNKNOWN
            heap = ('v', 'heap_size', 'P')
            cnts = set()
            for atom, pol in ctx.conds(f, nd):
                for x in walk_term(atom):
                    if x[0] == 'v' and isinstance(x[2], tuple) and any(
                            f.defs[d].kind == 'aug' and isinstance(f.defs[d].extra, ast.Mult) for d in x[2]):
                        cnts.add(x)
                    if is_call(x, 'math.prod') and len(x[2]) == 1 and x[2][0][0] == 'comp':
                        cnts.add(x)
            if len(cnts) == 1:
                cnt = next(iter(cnts))
                # tests of an optional parameter against None are free: the guard is judged under each of their truth values
                import itertools as _it
                free = sorted({x for a, p_ in ctx.conds(f, nd) for x in walk_term(a)
                               if x[0] == 'cmp' and x[1] in ('is', 'is not') and x[3] == ('c', None) and x[2][0] == 'v' and x[2][2] == 'P'},
                              key=repr)[:4]
                table = []
                for asg in _it.product((True, False), repeat=len(free)):
                    amap = dict(zip(free, asg))
                    row = []
                    for cv in (0, 5, 20):
                        vs = [feval(a, lambda x, cv=cv: cv if x == cnt else (10 if x == heap else amap.get(x, UNKNOWN)))
                              for a, p_ in ctx.conds(f, nd)]
                        if any(v is UNKNOWN for v in vs):
                            row.append(UNKNOWN)
                        else:
                            row.append(all(bool(v) == p_ for v, (a, p_) in zip(vs, ctx.conds(f, nd))))
                    table.append((amap, row))
                run.count('cases', 3 * len(table))
                entered = [(amap, row) for amap, row in table if row[2] is True]
                res = [True if any(r[i] is True for _a, r in table) else
                       (UNKNOWN if any(r[i] is UNKNOWN for _a, r in table) else False) for i in range(3)]
                if entered:
                    amap = entered[0][0]
                    run.refute('R-PROG', f, 'candidate-product:heap-guard', nd.lineno,
                               'with 20 combinations and heap_size 10 the loop over product(*candidate sets) is entered%s: the guard does '
                               'not stop the enumeration, so the work is exponential in the number of detected errors'
                               % ((' when ' + ', '.join('%s is %s' % (show(k_)[:30], v_) for k_, v_ in amap.items())) if amap else ''),
                               inputs='strands with many detected errors (2^n combinations)' + (', with a check supplied' if amap else ''))
                    continue
                if res[2] is True:
                    run.refute('R-PROG', f, 'candidate-product:heap-guard', nd.lineno,
                               'the guard of the candidate product evaluates to (%s, %s, %s) for a combination count of 0, 5 and 20 with '
                               'heap_size 10: the loop over product(*candidate sets) is entered although the count exceeds heap_size, '
                               'so the work is exponential in the number of detected errors' % tuple(res),
                               inputs='strands with many detected errors (2^n combinations)')
                    continue
                if res[2] is False and res[1] is True:
                    ok = True
        if not ok:
            # is the loop at least under *some* comparison with heap_size?  then the count is merely in another form
            some = any(any(x == ('v', 'heap_size', 'P') for x in walk_term(a)) for a, p_ in ctx.conds(f, nd))
            fixed = [x for a, p_ in ctx.conds(f, nd) for x in walk_term(a) if is_call(x, 'numpy.prod', 'numpy.product', 'numpy.cumprod')]
            if fixed:
                run.refute('R-PROG', f, 'candidate-product:heap-guard', nd.lineno,
                           'the candidate count compared with heap_size is %s, a fixed-width integer: it wraps around for 2^63 or '
                           'more combinations, slips under the guard and the product loop never ends' % show(fixed[0])[:80],
                           inputs='63 or more detected errors with two candidates each')
                continue
            if some:
                run.undecided('R-PROG', f, 'candidate-product:heap-guard', nd.lineno,
                              'the product loop is under a heap_size comparison whose counted quantity is not recognised')
                continue
        run.check(ok, 'R-PROG', f, 'candidate-product:heap-guard', nd.lineno,
                  'the product loop is only reached when the product count <= heap_size',
                  'the loop over product(*candidate sets) is not dominated by the early return on count > heap_size: '
                  'the number of combinations is exponential in the number of detected errors',
                  inputs='strands with many detected errors')
    run.floor('R-PROG', 'product loop in repair_dna', n, 1)


# ----------------------------------------------------------------------------------------------
def slice_of(t, base_pred):
    if t[0] == 'sub' and t[2][0] == 'slice' and base_pred(t[1]):
        return t[2][1], t[2][2], t[2][3]
    # x[:a][-c:]  is  x[a - c : a]  whenever a >= c (the domain of the tiling identities)
    if t[0] == 'sub' and t[2][0] == 'slice' and t[1][0] == 'sub' and t[1][2][0] == 'slice' and base_pred(t[1][1]):
        inner, outer = t[1][2], t[2]
        if inner[1] == ('c', None) and inner[3] == ('c', None) and outer[2] == ('c', None) and outer[3] == ('c', None) \
                and outer[1][0] == 'un' and outer[1][1] == '-':
            return ('bin', '-', inner[2], outer[1][2]), inner[2], ('c', None)
    return None


def scan_cursor(ctx, f, scan):
    """the position variable of the scan loop, however the loop test is written: the name that is advanced (+=) in the loop body
    and indexes the strand.  Returns the versioned symbol as it is read inside the loop, or None"""
    body = [n for n in f.nodes if scan in n.loops]
    advanced = {d.name for n in body for d in n.defs if d.kind == 'aug'}
    strand = ('v', 'dna_sequence', 'P')
    found = {}
    for n in body + [f.nodes[scan]]:
        for n2, r, t in ctx.root_terms(f):
            if n2.id != n.id or t is None:
                continue
            for x in walk_term(t):
                if x[0] == 'sub' and x[1] == strand and x[2][0] == 'v' and x[2][1] in advanced:
                    found.setdefault(x[2][1], x[2])
    if len(found) == 1:
        return next(iter(found.values()))
    head = f.nodes[scan]
    if head.ast is not None:
        t = f.term(head.ast, head)
        names = [x for x in walk_term(t) if x[0] == 'v' and x[1] in advanced]
        if len({x[1] for x in names}) == 1:
            return names[0]
    return None


def r_tile(ctx, step_only=False):
    run = ctx.run
    run.rule('R-TILE', "in the error arm of repair_dna's scan (E = cursor, k = observed length) the affine forms of "
                       "trim, chunk, look-back marker, resume k-mer, seed and step tile the strand: T1 E - trim = chunk.lo; "
                       "T2 chunk.hi = resume.hi - 1; T3 E + step = resume.hi; T4 |resume| = k; T5 marker = [chunk.lo - 1, E) "
                       "and occur(r) = (E - r) - chunk.lo; NZ: a slice bound -k + c cannot be 0 for k >= 1")
    f = ctx.p.func('dsw.spiderweb.repair_dna')
    steps = walk_steps(ctx, f)
    if not steps:
        raise AnalysisError("rule R-TILE lost its anchor: no walk step in repair_dna")
    scan = steps[0].node.loops[-1] if steps[0].node.loops else None
    if scan is None:
        raise AnalysisError("rule R-TILE lost its anchor: scan loop")
    head = f.nodes[scan]
    test = f.term(head.ast, head) if head.ast is not None else None
    if test is not None and test[0] == 'cmp' and test[1] == '<' and test[2][0] == 'v':
        E = test[2]
    else:
        E = scan_cursor(ctx, f, scan)
        if E is None:
            raise AnalysisError("rule R-TILE: scan loop test %s" % (show(test) if test else None))
    cursor = E[1]
    strand = ('v', 'dna_sequence', 'P')
    state = steps[0].d.name
    err = None
    err_all = []
    for p, k in ctx.body_paths(f, scan):
        if k != 'back':
            continue
        events, env = walk_path(f, p)
        if any(e.kind == 'def' and e.name == state and call_name(e.term) and call_name(e.term).endswith('.dna_to_number')
               for e in events):
            if not any(e.kind == 'aug' and e.name == cursor for e in events):
                run.refute('R-TILE', f, 'T3:step-missing-on-a-path', f.nodes[p[0]].lineno,
                           'a path through the error arm resynchronises the state from the strand but does not advance the '
                           'cursor `%s`: the resume k-mer and the scan position fall out of step' % cursor,
                           inputs='strands that drive that path of the error arm')
                continue
            err = (p, events)
            err_all.append((p, events))
    if err is None:
        raise AnalysisError("rule R-TILE lost its anchor: error arm (resynchronisation from the strand) not found")
    # the roles are read from the path that records the most; T7 then compares every other path with it
    err = max(err_all, key=lambda pe: sum(1 for e in pe[1] if e.kind == 'append'))
    p, events = err
    line = f.nodes[p[0]].lineno
    A = {}
    # resume
    for e in events:
        if e.kind == 'def' and e.name == state and call_name(e.term) and call_name(e.term).endswith('.dna_to_number'):
            sl = slice_of(call_arg(e.term, 0, 'dna_sequence'), lambda b: b == strand)
            if sl:
                A['resume'] = (affine(sl[0]) if sl[0] != ('c', None) else {1: 0}, affine(sl[1]))
                A['resume_line'] = e.node.lineno
                A['resync_term'] = e.term
        if e.kind == 'aug' and e.name == cursor:
            inc_ = affine(e.extra)
            if 'step' in A and A['step'] is not None and inc_ is not None:
                # the cursor advances in several statements of the arm: the step is their sum
                tot_ = dict(A['step'])
                for k_, v_ in inc_.items():
                    tot_[k_] = tot_.get(k_, 0) + v_
                A['step'] = {k_: v_ for k_, v_ in tot_.items() if v_ != 0 or k_ == 1}
            else:
                A['step'] = inc_
        if e.kind == 'append':
            arg = e.term[0] if e.term else None
            if arg is None:
                continue
            sl = slice_of(arg, lambda b: b == strand)
            if sl:
                A['chunk'] = (affine(sl[0]), affine(sl[1]))
                A['chunk_list'] = e.name
                continue
            sl = slice_of(arg, lambda b: b[0] == 'v' and b != strand)
            if sl:
                A['marker'] = (affine(sl[0]), affine(sl[1]))
                A['marker_list'] = e.name
                continue
            if arg[0] == 'sub' and is_alpha(arg[1]):
                A['seed'] = arg
                A['segments'] = e.name
        if e.kind == 'store' and e.extra[0] == 'sub' and e.extra[2] == ('c', -1):
            v = e.term
            if v is not None and v[0] == 'sub' and v[2][0] == 'slice' and v[1] == e.extra:
                A['trim_bound'] = v[2][2]
                A['trim_lo'] = v[2][1]
                A['trim_line'] = e.node.lineno
                A['trim_node'] = e.node
    need = ['resume', 'step', 'chunk', 'marker', 'seed', 'trim_bound']
    missing = [n for n in need if n not in A or A[n] is None]
    if missing:
        raise AnalysisError("rule R-TILE lost its anchor: roles %s not found in the error arm" % missing)
    # T7: the three records of an error site are appended in step.  segments has one more item than the two job lists,
    # and the assembly addresses fragments[i] next to segments[i]: a path that appends to one list and not to another
    # leaves them out of step for the rest of the scan.
    coupled = [A.get('segments'), A.get('marker_list'), A.get('chunk_list')]
    if all(coupled) and len(set(coupled)) == 3:
        for p_, ev_ in err_all:
            other = [e for e in ev_ if e.kind in ('store', 'aug', 'call') and getattr(e, 'name', None) in coupled[1:]]
            counts = [sum(1 for e in ev_ if e.kind == 'append' and e.name == n) for n in coupled]
            if other:
                run.undecided('R-TILE', f, 'T7:records-in-step', f.nodes[p_[0]].lineno,
                              'the job lists are also changed by %s' % other[0].kind)
            elif len(set(counts)) != 1:
                run.refute('R-TILE', f, 'T7:records-in-step', f.nodes[p_[-1]].lineno,
                           'a path through the error arm appends %s: the segment list and the job lists fall out of step, and the '
                           'assembly indexes the fragments of a site that was never queued (IndexError) or pairs segments with '
                           'the fragments of another site' % ', '.join('%d to `%s`' % (c, n) for c, n in zip(counts, coupled)),
                           inputs='strands with an error on that path (for a conditional on the look-back marker: an error inside '
                                  'the first window)')
            else:
                run.ok('R-TILE', f, 'T7:records-in-step', f.nodes[p_[0]].lineno,
                       'segment, marker and chunk are appended %d time(s) each on this path' % counts[0])
    if step_only:
        return
    Ea = {E: 1}
    ka = {K_SYM: 1}

    def form(name, a):
        return '%s = %s' % (name, aff_show(a))
    # trim amount
    u = A['trim_bound']
    clamp = False
    if is_call(u, 'builtins.max') and len(u[2]) == 2 and ('c', 0) in u[2]:
        u = u[2][0] if u[2][1] == ('c', 0) else u[2][1]
        clamp = True
    or_none = False
    if u[0] == 'bool' and u[1] == 'or' and len(u) == 4 and u[3] == ('c', None):
        u, or_none = u[2], True         # `X or None`: X == 0 selects the whole segment, i.e. trims -X = 0
    if is_call(u, 'numpy.max', 'numpy.amax') and len(u[2]) == 2:
        run.refute('R-TILE', f, 'trim:clamp-is-numpy-max', A.get('trim_line', line),
                   "the trim bound %s calls numpy's max (this module imports max from numpy), whose second argument is an "
                   "axis, not a second value: nothing is clamped and short segments are sliced with a negative bound"
                   % show(u)[:120], inputs='segments shorter than observed_length - 1')
    ua = affine(u)
    seglen = None
    trim = None
    if ua is not None and or_none:
        trim = {k: -v for k, v in ua.items()}
        kk, c = ua.get(K_SYM, 0), ua.get(1, 0)
        nz_ok = set(ua) <= {1, K_SYM} and kk < 0 and c <= -kk
    elif ua is not None:
        lens = [k for k in ua if k != 1 and is_call(k, 'builtins.len')]
        if lens and ua[lens[0]] == 1:
            rest = {k: v for k, v in ua.items() if k != lens[0]}
            trim = {k: -v for k, v in rest.items()}
            nz_ok = True
        else:
            trim = {k: -v for k, v in ua.items()}
            # NZ: bound = -(k) + c can reach 0 for k >= 1 ?
            kk = ua.get(K_SYM, 0)
            c = ua.get(1, 0)
            others = [s for s in ua if s not in (1, K_SYM)]
            nz_ok = bool(others) or not (kk < 0 and c > 0 and c % (-kk) == 0 and c // (-kk) >= 1)
    else:
        nz_ok = False
    if ua is not None and not nz_ok and A.get('trim_node') is not None and ua.get(K_SYM):
        # the trim is only executed where the bound is not zero (if k - 1 != 0: s = s[:-(k - 1)])
        k0 = ua.get(1, 0) // -ua.get(K_SYM) if ua.get(1, 0) % -ua.get(K_SYM) == 0 else None
        if k0 is not None:
            for a_, p_ in ctx.conds(f, A['trim_node']):
                if any(x == K_SYM for x in walk_term(a_)):
                    v_ = feval(a_, lambda x: k0 if x == K_SYM else UNKNOWN)
                    if v_ is not UNKNOWN and bool(v_) != p_:
                        nz_ok = True
    if ua is None:
        run.undecided('R-TILE', f, 'trim:NZ', A.get('trim_line', line), 'the trim bound %s is not an affine form' % show(A['trim_bound'])[:60])
    else:
      run.check(ua is not None and nz_ok, 'R-TILE', f, 'trim:NZ', A.get('trim_line', line),
              'the trim bound cannot degenerate to [:0]',
              "the segment is trimmed with the slice bound %s, which is 0 for observed_length = %s: `s[:0]` is empty "
              "where everything was meant to be kept, so every candidate loses the prefix before the first error"
              % (show(A['trim_bound']), (ua.get(1, 0) // -ua.get(K_SYM, 1)) if ua and ua.get(K_SYM) else '?'),
              extracted=show(A['trim_bound']), inputs='observed length 1')
    chunk_lo, chunk_hi = A['chunk']
    res_lo, res_hi = A['resume']
    mk_lo, mk_hi = A['marker']
    step = A['step']
    checks = [
        ('T1:E-trim=chunk.lo', trim is not None and chunk_lo is not None and aff_eq(aff_sub(Ea, trim), chunk_lo),
         'E - trim = %s but chunk.lo = %s' % (aff_show(aff_sub(Ea, trim)) if trim is not None else '?', aff_show(chunk_lo))),
        ('T2:chunk.hi=resume.hi-1', chunk_hi is not None and res_hi is not None and aff_eq(aff_sub(res_hi, {1: 1}), chunk_hi),
         'chunk.hi = %s but resume.hi - 1 = %s' % (aff_show(chunk_hi), aff_show(aff_sub(res_hi, {1: 1})) if res_hi else '?')),
        ('T3:E+step=resume.hi', step is not None and res_hi is not None and aff_eq(aff_sub(res_hi, step), Ea),
         'E + step = E + %s but resume.hi = %s' % (aff_show(step), aff_show(res_hi))),
        ('T4:|resume|=k', res_lo is not None and res_hi is not None and aff_eq(aff_sub(res_hi, res_lo), ka),
         'resume spans %s symbols, not k' % (aff_show(aff_sub(res_hi, res_lo)) if res_hi and res_lo else '?')),
        ('T5a:marker.lo+1=chunk.lo', mk_lo is not None and chunk_lo is not None and aff_eq(aff_sub(chunk_lo, mk_lo), {1: 1}),
         'marker.lo = %s, chunk.lo = %s' % (aff_show(mk_lo), aff_show(chunk_lo))),
        ('T5b:marker.hi=E', mk_hi is not None and aff_eq(mk_hi, Ea), 'marker.hi = %s, not E' % aff_show(mk_hi)),
    ]
    def pure(*forms):
        return all(fm is not None and set(fm) <= {E, K_SYM, 1} for fm in forms)
    needs = {'T1': (trim, chunk_lo), 'T2': (chunk_hi, res_hi), 'T3': (step, res_hi), 'T4': (res_lo, res_hi),
             'T5a': (mk_lo, chunk_lo), 'T5b': (mk_hi,)}
    for role, ok, why in checks:
        if not ok and not pure(*needs[role.split(':')[0]]):
            run.undecided('R-TILE', f, role, line, 'an offset involved is not an affine form of the cursor and k: %s' % why)
            continue
        run.check(bool(ok), 'R-TILE', f, role, line, role,
                  "repair offsets do not tile: %s (forms: trim=%s chunk=[%s, %s) marker=[%s, %s) resume=[%s, %s) step=%s)"
                  % (why, aff_show(trim), aff_show(chunk_lo), aff_show(chunk_hi), aff_show(mk_lo), aff_show(mk_hi),
                     aff_show(res_lo), aff_show(res_hi), aff_show(step)),
                  inputs='every strand with a detected error (all observed lengths)')
    # seed = ALPHA[S % 4] of the resynchronised state
    seed = A['seed']
    ok = seed[2][0] == 'bin' and seed[2][1] == '%' and seed[2][3] == ('c', 4) and seed[2][2] == A['resync_term']
    # the same letter read from the strand: STRAND[resume.hi - 1]
    if not ok and seed[0] == 'sub' and seed[1] == strand and res_hi is not None:
        sa_ = affine(seed[2])
        ok = sa_ is not None and aff_eq(sa_, aff_sub(res_hi, {1: 1}))
    wit_seed = (seed[2][0] == 'bin' and seed[2][1] in ('%', '//') and not ok) or \
        (seed[0] == 'sub' and seed[1] == strand and affine(seed[2]) is not None and set(affine(seed[2])) <= {E, K_SYM, 1} and not ok)
    _tri(run, ok, wit_seed, 'R-TILE', f, 'seed=last-letter-of-resume', line, 'the new segment starts with the last letter of the resume k-mer',
              'the new segment is seeded with %s, not ALPHA[resynchronised state %% 4]' % show(seed)[:120],
              inputs='every strand with a detected error')
    # occur
    r_occur(ctx, f, A, chunk_lo, Ea)
    # T6: the record of visited vertices is addressed by the cursor.  Stored at IQ[E] on the walk arm; or, when it is a list
    # that grows, every round of the scan grows it by exactly the amount the cursor advances
    rec = None
    for e in events:
        if e.kind == 'append' and e.term:
            sl = slice_of(e.term[0], lambda b: b[0] == 'v' and b != strand)
            if sl and e.term[0][1][0] == 'v':
                rec = e.term[0][1][1]
    if rec is not None:
        grows = stores = 0
        bad = None
        undec = None
        for pth, k in ctx.body_paths(f, scan):
            if k != 'back':
                continue
            evs, _env = walk_path(f, pth)
            delta = None
            growth = {1: 0}
            for e in evs:
                if e.kind == 'aug' and e.name == cursor:
                    delta = affine(e.extra) if delta is None else None
                if e.kind == 'store' and e.name == rec and e.extra[0] == 'sub':
                    stores += 1
                    ia = affine(e.extra[2])
                    if ia is None or not aff_eq(ia, Ea):
                        if ia is not None and set(ia) <= {E, 1, K_SYM}:
                            bad = 'the visited vertex is recorded at %s, not at the cursor %s' % (show(e.extra[2])[:40], cursor)
                        else:
                            undec = 'record index %s' % show(e.extra[2])[:40]
                if e.kind in ('append', 'extend') and e.name == rec:
                    grows += 1
                    if e.kind == 'append':
                        growth = {k_: v + (1 if k_ == 1 else 0) for k_, v in growth.items()}
                    else:
                        a0 = e.term[0] if e.term else None
                        n_ = None
                        if a0 is not None and a0[0] == 'bin' and a0[1] == '*':
                            for p_, q_ in ((a0[2], a0[3]), (a0[3], a0[2])):
                                if p_[0] == 'list' and len(p_) == 2:
                                    n_ = affine(q_)
                        elif a0 is not None and a0[0] == 'list':
                            n_ = {1: len(a0) - 1}
                        if n_ is None:
                            undec = 'extend(%s)' % (show(a0)[:40] if a0 else '?')
                        else:
                            for k_, v in n_.items():
                                growth[k_] = growth.get(k_, 0) + v
            if grows and delta is not None and undec is None:
                g_ = {k_: v for k_, v in growth.items() if v != 0}
                d_ = {k_: v for k_, v in delta.items() if v != 0}
                if g_ != d_:
                    bad = 'on a round that advances the cursor by %s the record of visited vertices grows by %s elements' % (
                        aff_show(delta), aff_show(growth))
        if grows or stores:
            if bad:
                run.refute('R-TILE', f, 'T6:record-addressed-by-cursor', line,
                           '%s: record position and strand position drift apart, so the look-back slice [E - k, E) after a later error '
                           'no longer holds the k vertices before the cursor' % bad,
                           inputs='strands with two or more detected errors')
            elif undec:
                run.undecided('R-TILE', f, 'T6:record-addressed-by-cursor', line, 'growth of the record not evaluable: %s' % undec)
            else:
                run.ok('R-TILE', f, 'T6:record-addressed-by-cursor', line, 'record position = strand position on every round')


def r_occur(ctx, f, A, chunk_lo, Ea):
    run = ctx.run
    n = 0
    for nd, c, callee, q in ctx.calls()[f.fq]:
        if callee is None or callee.name != 'path_matching':
            continue
        n += 1
        t = f.term(c, nd)
        occ = call_arg(t, 3, 'occur_location')
        prev = call_arg(t, 2, 'previous_index')
        seq = call_arg(t, 0, 'dna_sequence')
        # prev = element of reversed(marker) ; recall = its index
        okrev = False
        r_sym = None
        if prev is not None and prev[0] == 'iter':
            src = prev[1]
            if src[0] == 'sub' and src[2] == ('slice', ('c', None), ('c', None), ('c', -1)):
                okrev = True
                r_sym = ('idx', src, prev[2])
            elif is_call(src, 'builtins.reversed'):
                okrev = True
                r_sym = ('idx', src, prev[2])
        forward = prev is not None and prev[0] == 'iter' and not okrev and prev[1][0] in ('iter', 'item', 'v')
        if prev is not None and prev[0] == 'sub' and prev[2][0] != 'slice':
            # marker[-1 - r] / marker[len(marker) - 1 - r] with r running over range(len(marker)): the same reversed visit
            ia = affine(prev[2])
            own_len = ('call', ('g', 'builtins.len'), (prev[1],), ())
            if ia is not None:
                rs = [x for x in ia if x != 1 and x != own_len and
                      ((x[0] == 'iter' and is_call(x[1], 'builtins.range') and x[1][2] == (own_len,)) or
                       (x[0] == 'idx' and x[1] == prev[1]))]
                if len(rs) == 1 and ia.get(rs[0]) == -1 and ia.get(1, 0) == -1 and ia.get(own_len, 0) in (0, 1) and \
                        set(ia) <= {rs[0], 1, own_len}:
                    okrev, r_sym = True, rs[0]
                elif len(rs) == 1 and ia.get(rs[0]) == 1 and set(ia) <= {rs[0], 1} and ia.get(1, 0) == 0:
                    forward = True
        if not okrev and not forward:
            run.undecided('R-TILE', f, 'T5c:look-back-reversed', nd.lineno,
                          'how previous_index (%s) walks the look-back marker is not recognised' % (show(prev)[:60] if prev else None))
            continue
        run.check(okrev, 'R-TILE', f, 'T5c:look-back-reversed', nd.lineno,
                  'recalled vertices are visited from the newest to the oldest',
                  'previous_index iterates %s: the look-back marker must be traversed in reverse so that recall r is the '
                  'vertex r steps before the detection point' % (show(prev)[:100] if prev else None),
                  inputs='every strand with a detected error')
        oa = affine(occ) if occ is not None else None
        want = None
        if r_sym is not None and chunk_lo is not None:
            # occur(r) = (E - r) - chunk.lo - ... position of the symbol leaving the recalled vertex
            # recalled vertex r is the state after consuming position E-1-r ... the substituted symbol is at E - r - 1 + 1?
            # derivation: marker = IQ[E-k:E]; reversed element r is IQ[E-1-r], the state after position E-1-r; the
            # symbol leaving it is at position E-r, whose offset in the chunk is (E - r) - chunk.lo
            want = aff_sub(aff_sub(Ea, {r_sym: 1}), chunk_lo)
        ok = oa is not None and want is not None and aff_eq(oa, want)
        if not ok and (oa is None or want is None or not set(oa) <= set(want) | {1, K_SYM}):
            run.undecided('R-TILE', f, 'T5d:occur=(E-r)-chunk.lo', nd.lineno,
                          'occur_location %s is not an affine form of the recall index and k' % (show(occ)[:60] if occ else None))
            continue
        run.check(ok, 'R-TILE', f, 'T5d:occur=(E-r)-chunk.lo', nd.lineno,
                  'occur_location(r) = %s' % aff_show(want),
                  'occur_location is %s; the symbol leaving the vertex recalled r steps back sits at offset %s of the chunk'
                  % (aff_show(oa), aff_show(want)), extracted=aff_show(oa), expected=aff_show(want),
                  inputs='every strand with a detected error')
        # chunk / marker lists reach the call
        okc = seq is not None and seq[0] == 'iter' and seq[1][0] == 'v' and seq[1][1] == A.get('chunk_list')
        okm = prev is not None and any(x[0] == 'iter' and x[1][0] == 'v' and x[1][1] == A.get('marker_list')
                                      for x in walk_term(prev))
        lists_ = {A.get('chunk_list'), A.get('marker_list')}
        swapped_ = seq is not None and any(x[0] == 'iter' and x[1][0] == 'v' and x[1][1] == A.get('marker_list') for x in walk_term(seq)) \
            or prev is not None and any(x[0] == 'iter' and x[1][0] == 'v' and x[1][1] == A.get('chunk_list') for x in walk_term(prev))
        if not (okc and okm) and not swapped_:
            run.undecided('R-TILE', f, 'chunk-and-marker-reach-path-matching', nd.lineno,
                          'how the chunk / marker lists reach path_matching is not recognised')
            continue
        run.check(okc and okm, 'R-TILE', f, 'chunk-and-marker-reach-path-matching', nd.lineno,
                  'path_matching receives the chunk and the look-back of the same error',
                  'path_matching does not receive the chunk list / marker list built in the error arm (dna_sequence=%s, '
                  'previous_index=%s)' % (show(seq)[:60] if seq else None, show(prev)[:60] if prev else None),
                  inputs='every strand with a detected error')
    run.floor('R-TILE', 'path_matching call in repair_dna', n, 1)


# ----------------------------------------------------------------------------------------------
def r_cand(ctx):
    run = ctx.run
    run.rule('R-CAND', "path_matching: substitution candidates are produced outside, insertion and deletion candidates "
                       "inside, the has_indel test; every candidate append is under a true reliability flag, the flag is "
                       "cleared on every non-arc symbol of the tail walk; S replaces, I inserts, D deletes at occur_location; "
                       "tail walks start at occur+1 (S, D) / occur (I) from ACC[previous][letter] (S, I) / previous (D)")
    f = ctx.p.func('dsw.graphized.path_matching')
    occ = ('v', 'occur_location', 'P')
    strand = ('v', 'dna_sequence', 'P')
    prev = ('v', 'previous_index', 'P')
    apps = []
    for nd in f.nodes:
        if nd.kind == 'stmt' and isinstance(nd.stmt, ast.Expr) and isinstance(nd.stmt.value, ast.Call) \
                and isinstance(nd.stmt.value.func, ast.Attribute) and nd.stmt.value.func.attr == 'append':
            t = f.term(nd.stmt.value, nd)
            arg = t[2][0] if t[2] else None
            if arg is not None and arg[0] == 'tuple' and len(arg) == 3 and arg[1][0] == 'tuple' and arg[1][1][0] == 'c':
                apps.append((nd, arg[1][1][1], arg))
    tags = sorted(a[1] for a in apps)
    if tags != ['D', 'I', 'S']:
        raise AnalysisError("rule R-CAND lost its anchor: candidate appends tagged %s (expected S, I, D)" % tags)
    steps = walk_steps(ctx, f)
    for nd, tag, arg in apps:
        conds = ctx.conds(f, nd)
        indel = [pol for a, pol in conds if a == ('v', 'has_indel', 'P')]
        # has_indel may also gate a candidate through the iterable of an enclosing loop (`for x in [] if not has_indel else ...`)
        for L_ in nd.loops:
            ln_ = f.nodes[L_]
            if isinstance(ln_.stmt, ast.For):
                it_ = f.term(ln_.stmt.iter, ln_)
                for x_ in walk_term(it_):
                    if x_[0] == 'ifexp' and any(y_ == ('v', 'has_indel', 'P') for y_ in walk_term(x_[1])):
                        empty_when = None
                        for arm_, pol_ in ((x_[2], True), (x_[3], False)):
                            if arm_ in (('list',), ('tuple',), ('c', '')):
                                for a_, p_ in flatten_cond(x_[1], pol_):
                                    if a_ == ('v', 'has_indel', 'P'):
                                        empty_when = p_
                        if empty_when is not None:
                            indel.append(not empty_when)    # candidates only when has_indel is (not empty_when)
        if tag == 'S':
            run.check(not indel, 'R-CAND', f, 'S:independent-of-has_indel', nd.lineno,
                      'substitution candidates are produced whatever has_indel is',
                      'substitution candidates are only produced under has_indel: with indel handling off no substitution is repaired',
                      inputs='has_indel=False')
        else:
            run.check(indel == [True], 'R-CAND', f, '%s:only-with-has_indel' % tag, nd.lineno,
                      'indel candidates only with has_indel',
                      '%s candidates are produced without has_indel being set' % tag, inputs='has_indel=False')
        # reliability flag
        flags = [(a, pol) for a, pol in conds if a[0] == 'v' and a[1] not in ('has_indel',) and isinstance(a[2], tuple)]
        okflag = False
        for a, pol in flags:
            defs = [f.defs[i] for i in a[2]]
            vals = [TermBuilder(f, d.node).def_term(d.id) for d in defs]
            # the flag STARTS true: a candidate whose tail walk stays on arcs is always reported.  A start value computed from the
            # strand suppresses candidates for a reason that has nothing to do with the walk
            if pol and ('c', False) in vals and len(vals) == 2 and ('c', True) not in vals:
                other = [(d_, v_) for d_, v_ in zip(defs, vals) if v_ != ('c', False)][0]
                stepn0 = {s.node.id for s in steps}
                in_tail = any(L in f.nodes[s_].loops for s_ in stepn0 for L in f.nodes[other[0].node].loops)
                if other[1] is not None and other[1][0] in ('cmp', 'bool', 'un') and not in_tail:
                    run.refute('R-CAND', f, '%s:flag-starts-true' % tag, f.nodes[other[0].node].lineno,
                               'the reliability flag of the %s candidate starts as %s instead of True: the candidate is suppressed whenever '
                               'that expression is false, although its tail walk stays on arcs - the original strand can be missing '
                               'from the candidates' % (tag, show(other[1])[:60]),
                               inputs='edits for which the start expression is false (e.g. inside a run of equal nucleotides; at '
                                      'position 0 the index -1 wraps to the end of the chunk)')
            if pol and ('c', True) in vals and ('c', False) in vals and len(vals) == 2:
                # the False definition sits in the tail loop on the non-member arm together with a break
                dfalse = defs[vals.index(('c', False))]
                nfalse = f.nodes[dfalse.node]
                loop = nfalse.loops[-1] if nfalse.loops else None
                if loop is not None:
                    # every path of that loop without a walk step must pass the False definition
                    stepn = {s.node.id for s in steps}
                    allok = True
                    for pth, k in ctx.body_paths(f, loop):
                        has_step = any(n in stepn for n in pth)
                        if not has_step and dfalse.node not in pth:
                            allok = False
                        if has_step and dfalse.node in pth:
                            allok = False
                    okflag = allok
        if not okflag:
            # for ... else form: the append sits in the else block of its tail loop, which runs only when the loop was not
            # left by break; the break paths must be exactly the paths without a walk step
            for lp in f.nodes:
                if lp.kind == 'for' and lp.stmt.orelse and any(x is nd.stmt for s_ in lp.stmt.orelse for x in ast.walk(s_)):
                    stepn = {s.node.id for s in steps}
                    allok, nb = True, 0
                    for pth, k in ctx.body_paths(f, lp.id):
                        has_step = any(n in stepn for n in pth)
                        if k == 'break':
                            nb += 1
                            allok = allok and not has_step
                        elif k == 'back':
                            allok = allok and has_step
                    okflag = allok and nb > 0
        if not okflag:
            # path-sensitive form (flags that travel through tuples / helper results): no path that leaves the tail loop
            # on a non-arc symbol can reach the append, judged by the values that path itself assigns
            from ..ctx import paths_between, path_feasible
            dom = f.dominators()
            stepn = {s.node.id for s in steps}
            cands = [lp for lp in f.nodes if lp.kind == 'for' and lp.id in dom[nd.id] and lp.id not in nd.loops and
                     any(lp.id in f.nodes[s].loops for s in stepn)]
            if cands:
                lp = max(cands, key=lambda x: x.id)
                body = {n.id for n in f.nodes if lp.id in n.loops}
                decided, reach = True, False
                for pth, k in ctx.body_paths(f, lp.id):
                    has_step = any(n in stepn for n in pth)
                    if has_step and k == 'back':
                        continue
                    if has_step or k != 'break':
                        decided = False          # a step path that leaves, or a non-arc path that stays in the loop
                        continue
                    outs = [s for s in f.nodes[pth[-1]].succ if s not in body]
                    for o in outs:
                        for post in paths_between(f, o, nd.id, avoid=body | {lp.id}):
                            fe = path_feasible(f, pth + post, given=body)
                            if fe is None:
                                decided = False
                            elif fe:
                                reach = True
                if decided and not reach:
                    okflag = True
                elif reach:
                    run.refute('R-CAND', f, '%s:appended-only-when-tail-walk-stayed-on-arcs' % tag, nd.lineno,
                               'a path that leaves the tail walk of the %s candidate on a symbol without arc (break at a non-member '
                               'symbol) still reaches the append with every test on the way satisfied: candidates that leave the '
                               'graph are returned' % tag, inputs='chunks whose tail is not a walk after the tentative edit')
                    continue
        if not okflag:
            # refute only with a witness: the append depends on nothing the tail walk computes (no condition at all besides
            # has_indel), or its flag is never set to False anywhere; any other shape is outside what this rule decides
            dep = [a for a, pol in conds if a != ('v', 'has_indel', 'P') and a[0] != 'c']
            never_false = False
            for a, pol in flags:
                defs = [f.defs[i] for i in a[2]]
                vals = [TermBuilder(f, d.node).def_term(d.id) for d in defs]
                if vals and all(v == ('c', True) for v in vals):
                    never_false = True
            if dep and not never_false:
                run.undecided('R-CAND', f, '%s:appended-only-when-tail-walk-stayed-on-arcs' % tag, nd.lineno,
                              'the append is conditioned on %s, which is not a recognised reliability flag'
                              % [show(a)[:50] for a in dep][:2])
                continue
        run.check(okflag, 'R-CAND', f, '%s:appended-only-when-tail-walk-stayed-on-arcs' % tag, nd.lineno,
                  'append is under a flag that is cleared on every non-arc symbol of the tail walk',
                  'the %s candidate is appended without a reliability flag that is cleared exactly on the non-arc paths of '
                  'its tail walk: candidates that leave the graph are returned' % tag,
                  inputs='chunks whose tail is not a walk after the tentative edit')
    # every candidate string is joined from a fresh copy of the chunk that only its own edit modified
    for nd, tag, arg in apps:
        joined = arg[2]
        src = None
        if joined[0] == 'call' and joined[1][0] == 'attr' and joined[1][2] == 'join' and len(joined[2]) == 1:
            src = joined[2][0]
        fresh, why = False, 'candidate string is %s' % show(joined)[:60]
        if src is not None and src[0] == 'v' and isinstance(src[2], tuple) and len(src[2]) == 1 and \
                f.defs[src[2][0]].kind == 'mutate':
            m = f.defs[src[2][0]]
            before = f.reaching(m.node, src[1])
            if len(before) == 1 and f.defs[before[0]].kind == 'assign':
                bt = TermBuilder(f, f.defs[before[0]].node).def_term(before[0])
                fresh = bt == ('call', ('g', 'builtins.list'), (strand,), ())
                why = 'the buffer starts as %s' % show(bt)[:60]
            else:
                why = 'the buffer `%s` was already modified by an earlier candidate (definitions %s reach the edit)' % (
                    src[1], [f.defs[b].kind for b in before])
        elif src is not None:
            # an expression: it must not read a buffer that other candidates mutate
            dirty = [x for x in walk_term(src) if x[0] == 'v' and isinstance(x[2], tuple) and
                     any(f.defs[b].kind == 'mutate' for b in x[2])]
            fresh = not dirty and any(x == strand for x in walk_term(src))
            if dirty:
                why = 'it is assembled from the shared buffer `%s`, which earlier candidates modify in place' % dirty[0][1]
        if src is None:
            dirty = [x for x in walk_term(joined) if x[0] == 'v' and isinstance(x[2], tuple) and
                     any(f.defs[b].kind == 'mutate' for b in x[2])]
            if not dirty and any(x == strand for x in walk_term(joined)):
                fresh = True                # assembled directly from slices of the chunk: nothing shared between candidates
            elif not dirty:
                run.undecided('R-CAND', f, '%s:built-from-fresh-copy' % tag, nd.lineno, 'how the candidate string %s is built is not '
                              'recognised' % show(joined)[:60])
                continue
        run.check(fresh, 'R-CAND', f, '%s:built-from-fresh-copy' % tag, nd.lineno,
                  'joined from list(chunk) modified only by this candidate\'s edit',
                  "the %s candidate is not built from a fresh copy of the chunk: %s - an accepted earlier candidate leaks "
                  "into later ones" % (tag, why), inputs='look-back positions with two or more accepted candidates')
    # edit position and tail-walk geometry
    for nd in f.nodes:
        for d in nd.defs:
            if d.kind == 'mutate' and isinstance(d.extra, ast.Subscript) and isinstance(nd.stmt, ast.Assign):
                from ..ctx import _as_load
                tg = f.term(_as_load(d.extra), nd)
                if tg[0] == 'sub' and is_call(tg[1], 'builtins.list') and tg[1][2] == (strand,) and tg[2][0] == 'slice':
                    # buffer[p:p] = [x] is buffer.insert(p, x)
                    if tg[2][1] == tg[2][2] and tg[2][3] in (('c', None), ('c', 1)) and isinstance(nd.stmt.value, (ast.List, ast.Tuple)) \
                            and len(nd.stmt.value.elts) == 1:
                        run.check(tg[2][1] == occ, 'R-CAND', f, 'I:inserts-at-occur', nd.lineno, 'insertion at occur_location',
                                  'the insertion is made at %s, not at occur_location' % show(tg[2][1]), inputs='every deletion error')
                    else:
                        run.undecided('R-CAND', f, 'slice-store', nd.lineno, 'slice assignment %s into the candidate buffer is not '
                                      'recognised' % show(tg[2])[:50])
                elif tg[0] == 'sub' and is_call(tg[1], 'builtins.list') and tg[1][2] == (strand,):
                    run.check(tg[2] == occ, 'R-CAND', f, 'S:replaces-at-occur', nd.lineno, 'replacement at occur_location',
                              'the substitution is written at %s, not at occur_location' % show(tg[2]), inputs='every substitution')
            if d.kind == 'mutate' and isinstance(d.extra, ast.Attribute) and d.extra.attr == 'insert':
                t = f.term(d.value, nd)
                run.check(t[2] and t[2][0] == occ, 'R-CAND', f, 'I:inserts-at-occur', nd.lineno, 'insertion at occur_location',
                          'the insertion is made at %s, not at occur_location' % (show(t[2][0]) if t[2] else None),
                          inputs='every deletion error')
        for d in nd.defs:
            if d.kind == 'mutate' and isinstance(d.extra, ast.Attribute) and d.extra.attr == 'remove' and d.value is not None:
                before = f.reaching(nd.id, d.name)
                bts = [TermBuilder(f, f.defs[b].node).def_term(b) for b in before if f.defs[b].kind == 'assign']
                if any(bt == ('call', ('g', 'builtins.list'), (strand,), ()) for bt in bts):
                    run.refute('R-CAND', f, 'D:deletes-at-occur', nd.lineno,
                               'the deletion candidate is built with `%s`: list.remove drops the FIRST element equal to the value, not the '
                               'element at occur_location, so an earlier occurrence of the same nucleotide in the chunk is deleted '
                               'instead' % ast.unparse(nd.stmt)[:60],
                               inputs='insertion errors whose inserted nucleotide also occurs earlier in the look-back chunk')
        if isinstance(nd.stmt, ast.Delete):
            for tg in nd.stmt.targets:
                if isinstance(tg, ast.Subscript):
                    t = f.term(tg.slice, nd)
                    run.check(t == occ, 'R-CAND', f, 'D:deletes-at-occur', nd.lineno, 'deletion at occur_location',
                              'the deletion removes position %s, not occur_location' % show(t), inputs='every insertion error')
    # tail loops: iterate STRAND[occ + c:]
    tails = []
    for nd in f.nodes:
        if nd.kind == 'for':
            it = f.term(nd.stmt.iter, nd)
            src = it[2][0] if is_call(it, 'builtins.enumerate') and it[2] else it
            sl = slice_of(src, lambda b: b == strand)
            if sl and nd.loops:
                tails.append((nd, affine(sl[0]), sl[1]))
            elif sl:
                tails.append((nd, affine(sl[0]), sl[1]))
    # classify each tail loop by the candidate it feeds: the next append after it in node order
    want = {'S': {occ: 1, 1: 1}, 'I': {occ: 1}, 'D': {occ: 1, 1: 1}}
    for nd, lo, hi in tails:
        after = [(a[0].id, a[1]) for a in apps if a[0].id > nd.id]
        if not after:
            continue
        tag = min(after)[1]
        if lo is None or not set(lo) <= {occ, 1}:
            run.undecided('R-CAND', f, '%s:tail-start' % tag, nd.lineno, 'the start of the tail walk is not an affine form of occur_location')
            continue
        run.check(lo is not None and aff_eq(lo, want[tag]) and hi == ('c', None), 'R-CAND', f, '%s:tail-start' % tag, nd.lineno,
                  'tail walk of %s starts at %s' % (tag, aff_show(want[tag])),
                  'the tail walk validating the %s candidate reads dna_sequence[%s:%s]; it must start at %s and run to the end'
                  % (tag, aff_show(lo), '' if hi == ('c', None) else show(hi), aff_show(want[tag])),
                  inputs='every %s candidate' % tag)
    run.floor('R-CAND', 'tail walks in path_matching', len(tails), 3)
    # start states
    starts = {}
    for s in steps:
        if s.state == prev:
            starts.setdefault('from-previous', []).append(s)
    if len(starts.get('from-previous', [])) >= 2:
        run.ok('R-CAND', f, 'S,I:first-step-from-previous', f.node.lineno,
               'substitution and insertion walks take their first step from previous_index', nontrivial=False)
    else:
        run.undecided('R-CAND', f, 'S,I:first-step-from-previous', f.node.lineno,
                      'fewer than two first steps from previous_index were recognised: %d' % len(starts.get('from-previous', [])))


# ----------------------------------------------------------------------------------------------
def r_fallback(ctx):
    """the unrepaired strand is handed back only when there are no candidates or too many (C08: a detected error is
    repaired, also when a check is supplied; C09: what comes back was checked)"""
    run = ctx.run
    run.rule('R-RET', "repair_dna: a return that hands back the input strand instead of the collected candidates is "
                      "conditioned on the candidate count (0 or above heap_size)")
    f = ctx.p.func('dsw.spiderweb.repair_dna')
    n = 0
    for nd in f.stmts(ast.Return):
        n += 1
        t = f.term(nd.stmt.value, nd)
        role = 'return#%d' % n
        # a return that hands back a literal / conditional list (not the collected candidates) is the fallback: it must sit
        # under the "no candidates or too many" condition, otherwise detected errors are discarded without repair
        if t[0] == 'tuple' and len(t) == 3 and t[1][0] in ('list', 'ifexp'):
            under = False
            for atom, pol in ctx.conds(f, nd):
                if any(x == ('v', 'heap_size', 'P') for x in walk_term(atom)):
                    under = True
                if atom[0] == 'cmp' and atom[1] == '==' and atom[3] == ('c', 0):
                    under = True
                if atom[0] == 'bool' and any(any(x == ('v', 'heap_size', 'P') for x in walk_term(y)) for y in atom[2:]):
                    under = True
            run.check(under, 'R-RET', f, role + ':fallback-only-without-candidates', nd.lineno,
                      'the strand is handed back unrepaired only when there are no candidates or too many',
                      'repair_dna returns %s on a path that is not conditioned on the candidate count (0 or above heap_size): '
                      'detected errors are dropped without repair' % show(t[1])[:50],
                      inputs='a corrupted strand whose check happens to match, or any strand reaching that path')


def r_ret(ctx):
    r_fallback(ctx)
    run = ctx.run
    run.rule('R-RET', "every return of repair_dna is (L, 4-tuple) with L in { [], [x], sorted(set) }; every x and every "
                      "argument of set.add is, when vt_check is not None, under a true comparison "
                      "vt_check == set_vt(that value, len(vt_check))")
    f = ctx.p.func('dsw.spiderweb.repair_dna')
    vt = ('v', 'vt_check', 'P')

    unclear = []

    def chk(how, role_, line, bad, **kw):
        if not how and unclear:
            run.undecided('R-RET', f, role_, line, 'a comparison with %s is on the path, but its arguments are not in a form this rule '
                          'equates with the candidate and len(vt_check)' % unclear[-1])
        else:
            run.check(bool(how), 'R-RET', f, role_, line, how or '', bad, **kw)

    def passes_check(nd, value, extra=()):
        """conds at nd imply: vt_check is None, or vt_check == set_vt(value, len(vt_check))"""
        del unclear[:]
        def one(atom, pol):
            if atom[0] == 'cmp' and atom[1] == 'is' and atom[2] == vt and atom[3] == ('c', None) and pol:
                return 'no check supplied on this path'
            if atom[0] == 'cmp' and atom[1] == 'is not' and atom[2] == vt and atom[3] == ('c', None) and not pol:
                return 'no check supplied on this path'
            if atom[0] == 'cmp' and ((atom[1] == '==' and pol) or (atom[1] == '!=' and not pol)):
                for a, b in ((atom[2], atom[3]), (atom[3], atom[2])):
                    if a == vt and call_name(b) and call_name(b).endswith('.set_vt'):
                        LEN = ('call', ('g', 'builtins.len'), (vt,), ())
                        la = call_arg(b, 1, 'vt_length')
                        if la is not None and la != LEN:
                            la = ctx.simplify_under(f, la, nd, extra)
                        if la != LEN and la is not None:
                            # a length taken once before the loop (len(vt_check) if vt_check is not None else None)
                            fa = ctx.feasible_alternatives(f, la, nd, extra)
                            if fa and all(t_ == LEN for _d, t_ in fa):
                                la = LEN
                        da = call_arg(b, 0, 'dna_sequence')
                        if da == value and la == LEN:
                            return 'check comparison holds for this value'
                        # a comparison is there, with arguments this rule cannot equate with the value / the check length: a clear
                        # mismatch (the uncorrected strand, a constant length) is a witness, anything else is not decided here
                        clear = (da != value and da == ('v', 'dna_sequence', 'P') and value != da) or \
                                (da == value and la is not None and not any(x == vt for x in walk_term(la)))
                        if not clear:
                            unclear.append(show(b)[:80])
            return None
        def disj(parts):
            hs = []
            for x, xp in parts:
                fl = flatten_cond(x, xp)
                hs.append(one(fl[0][0], fl[0][1]) if len(fl) == 1 else None)
            return ' or '.join(sorted(set(hs))) if hs and all(hs) else None
        for atom, pol in list(ctx.conds(f, nd)) + list(extra):
            h = one(atom, pol)
            if h:
                return h
            # (no check supplied) or (check matches), taken as a whole; also its De Morgan form not (supplied and not matches)
            if atom[0] == 'bool' and atom[1] == 'or' and pol:
                h = disj([(x, True) for x in atom[2:]])
                if h:
                    return h
            if atom[0] == 'bool' and atom[1] == 'and' and not pol:
                h = disj([(x, False) for x in atom[2:]])
                if h:
                    return h
        return None
    n = 0
    all_rets = list(f.stmts(ast.Return))
    for nd in all_rets:
        n += 1
        t = f.term(nd.stmt.value, nd)
        role = 'return#%d' % n
        if t[0] != 'tuple' or len(t) != 3:
            run.refute('R-RET', f, role + ':shape', nd.lineno, 'repair_dna returns %s, not (candidates, statistics)' % show(t)[:80],
                       inputs='every call')
            continue
        L, stats = t[1], t[2]
        if L[0] == 'ifexp' and L[2][0] == 'list' and L[3][0] == 'list':
            # ([] if rejected else [x]): each arm is judged under its side of the condition
            okarms = True
            for arm, pol_ in ((L[2], True), (L[3], False)):
                if len(arm) == 1:
                    continue
                if len(arm) == 2:
                    how = passes_check(nd, arm[1], extra=flatten_cond(L[1], pol_))
                    okarms = okarms and bool(how)
                else:
                    okarms = False
            run.check(okarms, 'R-RET', f, role + ':candidate-check-consistent', nd.lineno,
                      'conditional single candidate: returned only when no check is supplied or the check matches',
                      'the single candidate is returned on a side of %s where a supplied check was not compared' % show(L[1])[:80],
                      inputs='strands with a wrong check and no repair candidates')
            continue
        run.check(stats[0] == 'tuple' and len(stats) == 5, 'R-RET', f, role + ':statistics', nd.lineno, '4-tuple of statistics',
                  'the statistics component is %s, not a 4-tuple' % show(stats)[:80], nontrivial=False, inputs='every call')
        if L[0] == 'list':
            if len(L) == 1:
                run.ok('R-RET', f, role + ':empty', nd.lineno, 'empty candidate list', nontrivial=False)
            elif len(L) == 2:
                how = passes_check(nd, L[1])
                chk(how, role + ':candidate-check-consistent', nd.lineno,
                    'the single candidate %s is returned on a path where a supplied check was not compared with '
                    'set_vt(candidate, len(vt_check))' % show(L[1])[:60],
                    inputs='strands with a wrong check and no repair candidates')
            else:
                run.refute('R-RET', f, role + ':sorted', nd.lineno, 'a literal list of %d candidates is returned unsorted' % (len(L) - 1),
                           inputs='every call')
            continue
        src = L
        sorted_ok = False
        # candidates routed through a numpy string array of FIXED width are cut to that width
        fixed = None
        for x in walk_term(L):
            if x[0] == 'call' and x[1][0] == 'g' and x[1][1].startswith('numpy.'):
                dt = dict(x[3]).get('dtype')
                while dt is not None and dt[0] == 'bin' and dt[1] == '+':
                    dt = dt[2]
                if dt is not None and dt[0] == 'c' and isinstance(dt[1], str) and dt[1].lstrip('<>=|')[:1] in ('U', 'S', 'a') and \
                        (dict(x[3]).get('dtype')[0] == 'bin' or dt[1].lstrip('<>=|')[1:].isdigit()):
                    fixed = x
        if fixed is not None:
            run.refute('R-RET', f, role + ':candidates-unaltered', nd.lineno,
                       'the candidates pass through %s, a string array of fixed width: every candidate longer than that width (a repair '
                       'by insertion is one nucleotide longer than the observed strand) is silently cut, after it passed the check'
                       % show(fixed)[:80], inputs='strands that lost a nucleotide, has_indel=True')
            continue
        if is_call(src, 'builtins.sorted') and len(src[2]) == 1:
            sorted_ok = True
            src = src[2][0]
            while is_call(src, 'builtins.list', 'builtins.set', 'builtins.tuple') and len(src[2]) == 1:
                src = src[2][0]
        if not sorted_ok:
            s0 = src
            while is_call(s0, 'builtins.list', 'builtins.tuple') and len(s0[2]) == 1:
                s0 = s0[2][0]
            set_like = s0[0] == 'v' and any(d.name == s0[1] and d.kind == 'assign' and
                                            TermBuilder(f, d.node).def_term(d.id) == ('call', ('g', 'builtins.set'), (), ())
                                            for d in f.defs)
            list_built = s0[0] == 'v' and isinstance(s0[2], tuple) and \
                any(d.name == s0[1] and d.kind == 'assign' and TermBuilder(f, d.node).def_term(d.id) == ('list',) for d in f.defs) and \
                any(d.name == s0[1] and d.kind == 'mutate' and isinstance(d.extra, ast.Attribute) and d.extra.attr in ('append', 'extend')
                    for d in f.defs)
            if list_built:
                run.refute('R-RET', f, role + ':sorted', nd.lineno,
                           'the candidates are appended to the plain list `%s` and returned as they come: the result is neither '
                           'sorted nor duplicate-free by construction' % s0[1],
                           inputs='two error sites producing the same strand; candidates of different lengths')
                continue
            if not set_like:
                run.undecided('R-RET', f, role + ':sorted', nd.lineno, 'returned collection %s is not in a recognised form' % show(L)[:60])
                continue
        run.check(sorted_ok, 'R-RET', f, role + ':sorted', nd.lineno, 'candidates pass through sorted()',
                  'the candidate collection %s is returned without sorted(): the order of a set of str depends on hash '
                  'randomisation, i.e. on the process' % show(L)[:80], inputs='two or more candidates')
        # where do the returned candidates come from?  every source must be a set (duplicate-free) whose elements were
        # compared with the supplied check
        SET0 = ('call', ('g', 'builtins.set'), (), ())
        state = {'adds': 0, 'undecided': None, 'not_set': None}

        def no_check_here(x_nd, extra=()):
            for atom, pol in list(ctx.conds(f, x_nd)) + list(extra):
                if atom[0] == 'cmp' and atom[2] == vt and atom[3] == ('c', None) and \
                        ((atom[1] == 'is' and pol) or (atom[1] == 'is not' and not pol)):
                    return True
            return False

        def source(t_, at, extra, depth=0, in_set=False):
            """judge the collection t_ as seen at node `at`; reports add sites itself.  in_set: the collection has already passed
            through set(...), so what it was collected in before no longer matters for duplicates"""
            if depth > 6:
                state['undecided'] = 'nesting too deep'
                return
            unchecked_ok = no_check_here(at, extra)
            while is_call(t_, 'builtins.list', 'builtins.set', 'builtins.tuple', 'builtins.frozenset') and len(t_[2]) == 1:
                if is_call(t_, 'builtins.set', 'builtins.frozenset'):
                    in_set = True
                t_ = t_[2][0]
            if t_[0] == 'comp' and (t_[1] == 'set' or (in_set and t_[1] in ('list', 'gen'))) and len(t_[3]) == 1:
                gen, conds_ = t_[3][0]
                elt = t_[2]
                ex = list(extra)
                for c_ in conds_:
                    ex.extend(flatten_cond(c_, True))
                how = passes_check(at, elt, extra=ex)
                if how or unchecked_ok:
                    state['adds'] += 1
                    run.ok('R-RET', f, 'comprehension:candidate-check-consistent', at.lineno, how or 'no check supplied on this path')
                    return
                if elt[0] == 'iter' and elt[1] == gen:
                    return source(gen, at, extra, depth + 1, True)      # an unfiltered copy of its source
                state['undecided'] = 'set comprehension %s' % show(t_)[:60]
                return
            if t_[0] == 'v' and isinstance(t_[2], tuple):
                name_ = t_[1]
                for di in t_[2]:
                    d = f.defs[di]
                    if d.kind == 'assign':
                        dt = TermBuilder(f, d.node).def_term(d.id)
                        if dt == SET0:
                            # elements arrive through .add(); each add is judged where it happens, unless the whole
                            # collection is only used where no check was supplied
                            for x in f.nodes:
                                for d2 in x.defs:
                                    if d2.kind == 'mutate' and d2.name == name_ and isinstance(d2.extra, ast.Attribute):
                                        if d2.extra.attr == 'add':
                                            state['adds'] += 1
                                            tt = f.term(d2.value, x)
                                            val = tt[2][0] if tt[2] else None
                                            how = passes_check(x, val) if val is not None else None
                                            if unchecked_ok and not how:
                                                how = 'the collection is returned only where no check is supplied'
                                            chk(how, 'add#%d:candidate-check-consistent' % state['adds'], x.lineno,
                                                'a candidate is added to the result set on a path where a supplied check was '
                                                'not compared with set_vt(candidate, len(vt_check))',
                                                inputs='repairs with a check supplied')
                                        elif d2.extra.attr not in ('update', 'discard', 'remove'):
                                            run.refute('R-RET', f, 'result-set:%s' % d2.extra.attr, x.lineno,
                                                       'the result set is modified by .%s()' % d2.extra.attr, inputs='every call')
                        elif dt is not None and (dt[0] in ('comp', 'v') or is_call(dt, 'builtins.set', 'builtins.list')):
                            if (dt[0] == 'list' or (dt[0] == 'comp' and dt[1] != 'set')) and not in_set:
                                state['not_set'] = show(dt)[:50]
                            source(dt, f.nodes[d.node], extra, depth + 1, in_set)
                        elif dt == ('list',) or (dt is not None and dt[0] == 'comp' and dt[1] == 'list'):
                            if not in_set:
                                state['not_set'] = show(dt)[:50]
                            elif dt == ('list',):
                                # a plain list grown by append and later deduplicated by set(): every append is an add site
                                for x in f.nodes:
                                    for d2 in x.defs:
                                        if d2.kind == 'mutate' and d2.name == name_ and isinstance(d2.extra, ast.Attribute) and \
                                                d2.extra.attr == 'append':
                                            state['adds'] += 1
                                            tt = f.term(d2.value, x)
                                            val = tt[2][0] if tt[2] else None
                                            how = passes_check(x, val) if val is not None else None
                                            if unchecked_ok and not how:
                                                how = 'the collection is returned only where no check is supplied'
                                            if not how:
                                                state['undecided'] = 'candidates appended to `%s` before the check is applied' % name_
                        else:
                            state['undecided'] = 'definition %s of `%s`' % (show(dt)[:50] if dt else None, name_)
                    elif d.kind == 'mutate':
                        continue
                    else:
                        state['undecided'] = '%s definition of `%s`' % (d.kind, name_)
                return
            state['undecided'] = 'collection %s' % show(t_)[:60]
        source(src, nd, ())
        if state['not_set']:
            run.refute('R-RET', f, role + ':duplicate-free', nd.lineno,
                       'the candidates are collected in %s, not in a set: duplicates can be returned' % state['not_set'],
                       inputs='ambiguous repairs')
        elif state['undecided']:
            run.undecided('R-RET', f, role + ':source', nd.lineno, 'origin of the returned candidates not recognised: %s'
                          % state['undecided'])
        else:
            run.ok('R-RET', f, role + ':duplicate-free', nd.lineno, 'candidates are collected in a set')
            run.floor('R-RET', 'add sites on the result set', state['adds'], 1)
    run.floor('R-RET', 'returns of repair_dna', n, 2)


def r_sites(ctx):
    """repair_dna: every fragment path_matching returns for an error site reaches that site's own collection"""
    run = ctx.run
    run.rule('R-SITE', "repair_dna collects the fragments of each detected error independently: the store of a fragment "
                       "into its site's collection is not conditioned on a collection shared between sites")
    f = ctx.p.func('dsw.spiderweb.repair_dna')
    n = 0
    for nd in f.nodes:
        for d in nd.defs:
            if d.kind != 'mutate' or not isinstance(d.extra, ast.Attribute) or d.extra.attr not in ('add', 'append'):
                continue
            t = f.term(d.value, nd)
            arg = t[2][0] if t[2] else None
            # fragment = second component of an element of path_matching(...)[0]
            if arg is None or not any(call_name(x) and call_name(x).endswith('.path_matching') for x in walk_term(arg)):
                continue
            recv = d.extra.value
            if not isinstance(recv, ast.Subscript):
                # a collection created afresh inside the loop over the error sites is that site's own collection
                per_site = False
                if isinstance(recv, ast.Name) and nd.loops:
                    made = [f.defs[i] for i in f.reaching(nd.id, recv.id) if f.defs[i].kind == 'assign']
                    per_site = bool(made) and all(nd.loops[0] in f.nodes[x.node].loops for x in made)
                if not per_site:
                    continue        # a plain shared collection is judged below through the conditions
            n += 1
            shared = []
            for atom, pol in ctx.conds(f, nd):
                if atom[0] == 'cmp' and atom[1] == 'in' and atom[3][0] == 'v' and isinstance(atom[3][2], tuple):
                    c = atom[3]
                    loops = nd.loops
                    outer = loops[0] if loops else None
                    defs = [f.defs[i] for i in c[2]]
                    outside = any(outer is not None and outer not in f.nodes[x.node].loops for x in defs if x.kind == 'assign')
                    grown = any(x.kind == 'mutate' for x in defs)
                    if outside and grown and atom[2] == arg:
                        shared.append(c[1])
            # a fragment that path_matching validated is not filtered again by a test on the graph: path_matching already followed
            # it through the accessor, and any further graph test on a piece of it (its last window, its junction) has to get every
            # boundary right (k = 1, the empty deletion fragment, vertex 0) to be sound
            K_ = ctx.kinds
            for atom, pol in ctx.conds(f, nd):
                dep_frag = any(x == arg for x in walk_term(atom))
                dep_graph = any(K_.kind(x, f) in ('ACC', 'ROW', 'ENTRY') for x in walk_term(atom) if x[0] in ('v', 'sub'))
                if dep_frag and dep_graph:
                    # a correct second filter would be harmless, so this is not a witness: whether the filter keeps the fragment of
                    # the original walk for every k and every fragment length is not decided here
                    run.undecided('R-SITE', f, 'validated-fragments-all-kept#%d' % n, nd.lineno,
                               'a fragment returned by path_matching only reaches its site\'s collection when %s: fragments that the '
                               'saturation repair validated are filtered a second time by a look-up in the accessor computed from a '
                               'piece of the fragment (for an empty fragment, or k = 1, that piece is not a vertex of the walk)'
                               % show(atom)[:80])
            run.check(not shared, 'R-SITE', f, 'site-collection-independent#%d' % n, nd.lineno,
                      'a fragment reaches its site\'s collection whatever the other sites produced',
                      "a fragment is dropped when it is already in `%s`, a collection shared by all error sites: a later site "
                      "loses every fragment an earlier site also produced, so the original strand can vanish from the "
                      "candidate product" % (shared[0] if shared else ''),
                      inputs='two detected errors whose correct fragments coincide (repetitive strands, small graphs)')
    run.floor('R-SITE', 'fragment stores in repair_dna', n, 1)
    # every recalled vertex of a site is tried: the look-back loop is not left early
    for nd, c, callee, q in ctx.calls()[f.fq]:
        if callee is None or callee.name != 'path_matching' or not nd.loops:
            continue
        lp = nd.loops[-1]
        skipping = [pth for pth, k in ctx.body_paths(f, lp) if k == 'back' and nd.id not in pth]
        if skipping:
            last = f.nodes[skipping[0][-1]]
            run.refute('R-SITE', f, 'every-look-back-position-tried', last.lineno,
                       'a round of the look-back loop over the recalled vertices can end (line %d) without calling path_matching for that '
                       'position: a recalled position is skipped, and when the error can only be repaired from there the original '
                       'strand is missing from the candidates' % last.lineno,
                       inputs='edits noticed late in a locally periodic region (the same vertex recalled at two positions)')
        for pth, k in ctx.body_paths(f, lp):
            if k in ('break', 'return') and nd.id in pth:
                last = f.nodes[pth[-1]]
                run.refute('R-SITE', f, 'every-look-back-position-tried', last.lineno,
                           'the look-back loop over the recalled vertices of an error site is left early (%s at line %d) after a '
                           'position produced candidates: an error noticed late is only repairable at an older position, which is '
                           'never tried, so the original strand is missing from the candidates' % (k, last.lineno),
                           inputs='substitutions detected one or more steps after they occur (has_indel off included)')
                break


def r_arity(ctx, entry):
    """a dsw function whose result is unpacked into n names returns an n-tuple on every path"""
    run = ctx.run
    run.rule('R-ARITY', "for every call `a, b, ... = f(...)` of a dsw function in the closure, every return statement of f is a "
                        "tuple display of that arity (an early return with another shape makes the unpacking raise)")
    clo = ctx.closure(entry)
    n = 0
    for fq in sorted(clo):
        f = ctx.p.func(fq)
        for nd in f.stmts(ast.Assign):
            st = nd.stmt
            if len(st.targets) == 1 and isinstance(st.targets[0], ast.Tuple) and isinstance(st.value, ast.Call):
                q, callee = ctx.resolve_call(f, st.value)
                if callee is None:
                    continue
                want = len(st.targets[0].elts)
                n += 1
                bad = []
                for r_ in callee.build().stmts(ast.Return):
                    v = r_.stmt.value
                    if isinstance(v, ast.Tuple):
                        if len(v.elts) != want:
                            bad.append((r_.lineno, '%d-tuple' % len(v.elts)))
                    elif isinstance(v, ast.Call) or v is None and False:
                        continue
                    else:
                        bad.append((r_.lineno, ast.unparse(v)[:40] if v is not None else 'None'))
                run.check(not bad, 'R-ARITY', f, 'unpack:%s#%d' % (callee.name, n), nd.lineno,
                          'every return of %s is a %d-tuple' % (callee.name, want),
                          "%s unpacks the result of %s into %d names, but %s returns %s at line %d: the unpacking raises "
                          "(ValueError / TypeError) on the inputs that take that return"
                          % (f.name, callee.name, want, callee.name, bad[0][1] if bad else '', bad[0][0] if bad else 0),
                          inputs='inputs that take the odd return path')
    run.floor('R-ARITY', 'unpacked dsw calls in the closure of %s' % entry, n, 1)


def r_recomb(ctx):
    """repair_dna: segments are extended by exactly the symbol read; candidates are segment_0 + frag_0 + ... + last segment"""
    run = ctx.run
    run.rule('R-RECOMB', "repair_dna: on the walk arm the current segment grows by exactly the symbol just read; every candidate "
                         "is split[0] + frag[0] + ... + split[n-2] + frag[n-2] + split[n-1] (loop over range(len(split) - 1), then "
                         "the last segment); the candidate count starts at 1 and is the product of the per-site counts")
    f = ctx.p.func('dsw.spiderweb.repair_dna')
    strand = ('v', 'dna_sequence', 'P')
    steps = walk_steps(ctx, f)
    scan = steps[0].node.loops[-1]
    head = f.nodes[scan]
    test = f.term(head.ast, head) if head.ast is not None else None
    cursor = test[2] if test is not None and test[0] == 'cmp' and test[1] == '<' and len(test) > 2 and test[2][0] == 'v' \
        else scan_cursor(ctx, f, scan)
    if cursor is None:
        raise AnalysisError("rule R-RECOMB: scan loop cursor not identified (%s)" % (show(test) if test else None))
    # (1) the walk arm: segments[-1] += STRAND[cursor]
    ok1 = False
    seg = None
    for p, k in ctx.body_paths(f, scan):
        if k != 'back' or steps[0].node.id not in p:
            continue
        events, env = walk_path(f, p)
        for e in events:
            if e.kind == 'augstore' and e.extra[0] == 'sub' and e.extra[2] == ('c', -1):
                seg = e.name
                ok1 = e.term == ('sub', strand, cursor)
    if seg is None:
        run.undecided('R-RECOMB', f, 'walk-arm:segment-grows-by-symbol-read', head.lineno,
                      'no `segments[-1] += symbol` on the walk arm: the segments are kept in another form')
        return
    grown = [e_.term for p_, k_ in ctx.body_paths(f, scan) if k_ == 'back' and steps[0].node.id in p_
             for e_ in walk_path(f, p_)[0] if e_.kind == 'augstore' and e_.extra[0] == 'sub' and e_.extra[2] == ('c', -1)]
    other_index = any(t_[0] == 'sub' and t_[1] == strand and t_[2] != cursor for t_ in grown) or \
        any(t_[0] == 'sub' and is_alpha(t_[1]) and t_[2][0] == 'sub' and t_[2][2][0] == 'c' and
            ctx.kinds.live_set(t_[2][1], f) is not None for t_ in grown)        # a fixed live letter, not the one read
    if not ok1 and not other_index:
        run.undecided('R-RECOMB', f, 'walk-arm:segment-grows-by-symbol-read', head.lineno,
                      'the current segment grows by %s, not recognisably the symbol just read' % [show(t_)[:40] for t_ in grown][:1])
    else:
      run.check(ok1, 'R-RECOMB', f, 'walk-arm:segment-grows-by-symbol-read', head.lineno,
              'segments[-1] += strand[cursor]', 'the walk arm does not append exactly the symbol it just followed to the current segment',
              inputs='every strand (a clean strand is not returned unchanged)')
    # (2) recombination
    found = 0
    for nd in f.nodes:
        if nd.kind != 'for':
            continue
        it = f.term(nd.stmt.iter, nd)
        if not is_call(it, 'itertools.product'):
            continue
        body = {n.id for n in f.nodes if nd.id in n.loops}
        inner = [n for n in f.nodes if n.id in body and n.kind == 'for']
        if not inner:
            # comprehension form:  ''.join(s + g for s, g in zip(segments, fragments)) + segments[-1]
            # (zip stops after the last fragment; there is one fragment per site, i.e. one less than segments)
            frag_iter = ('iter', it, nd.id)
            joined = tail = None
            for n in f.nodes:
                if n.id not in body or n.kind != 'stmt' or not isinstance(n.stmt, (ast.Assign, ast.AugAssign)):
                    continue
                t = f.term(n.stmt.value, n)
                for x in walk_term(t):
                    if x[0] == 'call' and x[1][0] == 'attr' and x[1][1] == ('c', '') and x[1][2] == 'join' and len(x[2]) == 1 \
                            and x[2][0][0] == 'comp':
                        joined = (n, x[2][0])
                    if x[0] == 'sub' and x[1][0] == 'v' and x[1][1] == seg and x[2] == ('c', -1):
                        tail = n
            if joined is None:
                continue
            found += 1
            n_, comp = joined
            item_, gens = comp[2], comp[3]
            gen = gens[0][0] if len(gens) == 1 and not gens[0][1] else None
            def segs(x):
                return (x[0] == 'v' and x[1] == seg) or \
                    (x[0] == 'sub' and x[1][0] == 'v' and x[1][1] == seg and x[2] == ('slice', ('c', None), ('c', -1), ('c', None)))
            okz = gen is not None and is_call(gen, 'builtins.zip') and len(gen[2]) == 2 and segs(gen[2][0]) and gen[2][1] == frag_iter
            swapped = gen is not None and is_call(gen, 'builtins.zip') and len(gen[2]) == 2 and segs(gen[2][1]) and gen[2][0] == frag_iter
            _tri(run, okz or swapped, False, 'R-RECOMB', f, 'recombination:range(len(segments)-1)', n_.lineno,
                 'one fragment between consecutive segments (zip(segments, fragments))', '', inputs='strands with detected errors')
            sg, fg = (gen[2][0], gen[2][1]) if okz else ((gen[2][1], gen[2][0]) if swapped else (None, None))
            okb = sg is not None and item_[0] == 'bin' and item_[1] == '+' and item_[2][0] == 'iter' and item_[2][1] == sg and \
                item_[3][0] == 'iter' and item_[3][1] == fg
            witb = sg is not None and item_[0] == 'bin' and item_[1] == '+' and item_[2][0] == 'iter' and item_[2][1] == fg and \
                item_[3][0] == 'iter' and item_[3][1] == sg
            _tri(run, okb, witb, 'R-RECOMB', f, 'recombination:segment-then-fragment', n_.lineno, 'segment + fragment of the same position',
                 'the joined pieces are %s: the fragment is put before the segment' % show(item_)[:70], inputs='strands with detected errors')
            anywhere_ = any(any(x[0] == 'sub' and x[1][0] == 'v' and x[1][1] == seg and
                                (x[2] == ('c', -1) or x[2][0] not in ('slice', 'idx', 'iter'))
                                for x in walk_term(rt))
                            for n2, _r, rt in ctx.root_terms(f) if rt is not None and scan not in n2.loops and n2.id != scan)
            _tri(run, tail is not None, not anywhere_, 'R-RECOMB', f, 'recombination:last-segment-appended', nd.lineno,
                 'segments[-1] is appended to the joined candidate',
                 'the last segment is never read after the scan: every candidate loses its tail', inputs='every strand')
            continue
        found += 1
        lp = inner[0]
        lt = f.term(lp.stmt.iter, lp)
        frag_iter = ('iter', it, nd.id)

        def is_seg(x):
            return x[0] == 'v' and x[1] == seg
        # (A) index loop over range(len(segments) - 1) [or range(len(fragments))]; (B) zip(segments, fragments)
        form, wit = None, None
        a = affine(lt[2][0]) if is_call(lt, 'builtins.range') and len(lt[2]) == 1 else None
        if a is not None:
            lens = [x for x in a if x != 1 and is_call(x, 'builtins.len')]
            if len(lens) == 1 and is_seg(lens[0][2][0]) and a.get(lens[0]) == 1 and set(a) <= {lens[0], 1}:
                if a.get(1, 0) == -1:
                    form = 'index'
                else:
                    wit = 'range(len(segments) %+d)' % a.get(1, 0)
            elif len(lens) == 1 and lens[0][2][0] == frag_iter and aff_eq(a, {lens[0]: 1}):
                form = 'index'
        elif is_call(lt, 'builtins.zip') and len(lt[2]) == 2 and not lt[3]:
            def seg_or_all_but_last(x):
                return is_seg(x) or (x[0] == 'sub' and is_seg(x[1]) and x[2] == ('slice', ('c', None), ('c', -1), ('c', None)))
            if seg_or_all_but_last(lt[2][0]) and lt[2][1] == frag_iter:
                form = 'zip'
            elif seg_or_all_but_last(lt[2][1]) and lt[2][0] == frag_iter:
                form = 'zip-swapped'
        _tri(run, form is not None, wit is not None, 'R-RECOMB', f, 'recombination:range(len(segments)-1)', lp.lineno,
             'one fragment between consecutive segments',
             'the recombination loop runs over %s: one fragment belongs between each pair of consecutive segments, i.e. '
             'len(segments) - 1 rounds' % wit, inputs='strands with detected errors')
        # inner body: acc += segments[i] + fragments[i]   |   acc += segment + fragment (zip)
        okb, witb = False, None
        for p, k in ctx.body_paths(f, lp.id):
            if k != 'back':
                continue
            events, env = walk_path(f, p)
            for e in events:
                if e.kind == 'aug' and e.extra[0] == 'bin' and e.extra[1] == '+':
                    x, y = e.extra[2], e.extra[3]
                    if form == 'index':
                        def elem(z):
                            if z[0] == 'sub' and is_seg(z[1]):
                                return 'seg', z[2]
                            if z[0] == 'sub' and z[1] == frag_iter:
                                return 'frag', z[2]
                            return None, None
                        (kx, ix), (ky, iy) = elem(x), elem(y)
                        if kx == 'seg' and ky == 'frag' and ix == iy and ix[0] in ('iter', 'idx'):
                            okb = True
                        elif kx == 'frag' and ky == 'seg':
                            witb = 'the fragment is put before the segment'
                        elif kx == 'seg' and ky == 'frag' and ix != iy:
                            witb = 'segment %s is paired with fragment %s' % (show(ix)[:20], show(iy)[:20])
                    elif form in ('zip', 'zip-swapped'):
                        def which(z):
                            if z[0] == 'item' and z[1] == ('iter', lt, lp.id):
                                pos = z[2]
                                return 'seg' if (pos == 0) == (form == 'zip') else 'frag'
                            if z[0] == 'iter' and z[2] == lp.id:      # elements of a zipped source
                                return 'seg' if seg_or_all_but_last(z[1]) else ('frag' if z[1] == frag_iter else None)
                            return None
                        kx, ky = which(x), which(y)
                        if kx == 'seg' and ky == 'frag':
                            okb = True
                        elif kx == 'frag' and ky == 'seg':
                            witb = 'the fragment is put before the segment'
        _tri(run, okb, witb is not None, 'R-RECOMB', f, 'recombination:segment-then-fragment', lp.lineno,
             'candidate += segment i + fragment i',
             'inside the recombination loop %s' % witb, inputs='strands with detected errors')
        # the last segment closes every candidate
        last = ('sub', ('v', seg), ('c', -1))

        def reads_last(t_):
            return any(x[0] == 'sub' and is_seg(x[1]) and x[2] == ('c', -1) for x in walk_term(t_))
        oke = any(reads_last(rt) for n, _r, rt in ctx.root_terms(f) if n.id in body and n.loops[-1] == nd.id and rt is not None)
        def reads_other(t_):
            # a segment addressed by something that is not a loop position (segments[len(fragments)], segments[n - 1] ...)
            return any(x[0] == 'sub' and is_seg(x[1]) and x[2][0] not in ('idx', 'iter', 'slice') for x in walk_term(t_))
        anywhere = any(reads_last(rt) or reads_other(rt) for n, _r, rt in ctx.root_terms(f)
                       if scan not in n.loops and n.id != scan and rt is not None)
        _tri(run, oke, not anywhere, 'R-RECOMB', f, 'recombination:last-segment-appended', nd.lineno,
             'the last segment closes the candidate',
             'the last segment is never read after the scan: every candidate (also for a clean strand) loses its tail',
             inputs='every strand')
    run.floor('R-RECOMB', 'recombination loops', found, 1)
    # (3) count starts at 1 and is multiplied by len(fragments) per site
    okc, witness = False, None
    for d in f.defs:
        if d.kind == 'aug' and isinstance(d.extra, ast.Mult) and d.value is not None:
            nd = f.nodes[d.node]
            init = [f.defs[i] for i in f.reaching(nd.loops[-1] if nd.loops else nd.id, d.name) if f.defs[i].kind == 'assign']
            its = [TermBuilder(f, x.node).def_term(x.id) for x in init]
            t = f.term(d.value, nd)
            if is_call(t, 'builtins.len'):
                okc = bool(its) and all(i == ('c', 1) for i in its)
                bad = [i for i in its if i[0] == 'c' and i != ('c', 1)]
                if bad:
                    witness = 'the candidate count starts at %s, not 1' % show(bad[0])
        if d.kind == 'assign' and d.value is not None and not okc:
            # count = math.prod(len(x) for x in sets): the empty product is 1
            t = TermBuilder(f, d.node).def_term(d.id)
            if is_call(t, 'math.prod') and len(t[2]) == 1 and t[2][0][0] == 'comp' and is_call(t[2][0][2], 'builtins.len') \
                    and not t[3]:
                okc = True
    _tri(run, okc, witness is not None, 'R-RECOMB', f, 'count=product-of-site-counts-from-1', f.node.lineno,
         'count starts at 1 and is the product of the per-site candidate counts',
         '%s: a clean strand (empty product) must give count 1 so that it reaches the product path' % witness,
         inputs='clean strands')


def r_tile_clamp(ctx):
    """C10: for an error inside the first window (cursor < k) the look-back marker and the chunk are empty together"""
    run = ctx.run
    run.rule('R-CLAMP', "in the error arm of repair_dna the look-back marker IQ[lo:hi] and the chunk STRAND[lo':hi'] are both plain "
                        "slices whose lower bounds go negative together for a cursor inside the first window (both then select "
                        "nothing), or both are clamped at 0: a marker that is clamped while the chunk wraps gives path_matching a "
                        "vertex to recall but no chunk to index")
    f = ctx.p.func('dsw.spiderweb.repair_dna')
    strand = ('v', 'dna_sequence', 'P')
    forms = {}
    for nd in f.nodes:
        if nd.kind == 'stmt' and isinstance(nd.stmt, ast.Expr) and isinstance(nd.stmt.value, ast.Call) and \
                isinstance(nd.stmt.value.func, ast.Attribute) and nd.stmt.value.func.attr == 'append' and nd.loops:
            t = f.term(nd.stmt.value, nd)
            arg = t[2][0] if t[2] else None
            if arg is None or arg[0] != 'sub' or arg[2][0] != 'slice':
                continue
            base = arg[1]
            composite = base[0] == 'sub' and base[2][0] == 'slice'
            root = base[1] if composite else base
            clamped = composite or any(is_call(x, 'builtins.max') for x in walk_term(arg[2])) or \
                any(x[0] == 'ifexp' and (x[2] == ('c', 0) or x[3] == ('c', 0)) for x in walk_term(arg[2][1]))
            # a lower bound with two definitions one of which is the constant 0:  lo = x if x > 0 else 0  (statement form)
            alts = f.alternatives(arg[2][1])
            if alts and len(alts) >= 2 and any(t_ == ('c', 0) for _d, t_ in alts):
                clamped = True
            role = 'chunk' if root == strand else ('marker' if root[0] == 'v' else None)
            if role:
                forms[role] = (clamped, nd.lineno, show(arg)[:60])
    if 'chunk' not in forms or 'marker' not in forms:
        raise AnalysisError("rule R-CLAMP lost its anchor: chunk / marker appends (%s)" % sorted(forms))
    # a look-back marker is shorter than k (empty) for an error inside the first window: it may be iterated, never indexed
    # by position
    marker_lists = set()
    for nd in f.nodes:
        if nd.kind == 'stmt' and isinstance(nd.stmt, ast.Expr) and isinstance(nd.stmt.value, ast.Call) and \
                isinstance(nd.stmt.value.func, ast.Attribute) and nd.stmt.value.func.attr == 'append' and \
                isinstance(nd.stmt.value.func.value, ast.Name):
            t = f.term(nd.stmt.value, nd)
            arg = t[2][0] if t[2] else None
            if arg is not None and arg[0] == 'sub' and arg[2][0] == 'slice' and arg[1][0] == 'v' and arg[1] != strand and \
                    arg[1][1] in ctx.kinds.row_names(f):
                marker_lists.add(nd.stmt.value.func.value.id)
    hits = []
    for nd, x in ctx.all_subterms(f):
        if x[0] == 'sub' and x[2][0] != 'slice' and x[1][0] in ('iter', 'item'):
            src = [y for y in walk_term(x[1]) if y[0] == 'v' and y[1] in marker_lists]
            direct = x[1][0] == 'iter' and x[1][1][0] == 'v' and x[1][1][1] in marker_lists
            viazip = x[1][0] == 'item' and x[1][1][0] == 'iter' and is_call(x[1][1][1], 'builtins.zip', 'builtins.enumerate') and src
            if (direct or viazip) and x[2] != ('slice', ('c', None), ('c', None), ('c', -1)):
                # an index drawn from range(len(marker)) (possibly mirrored: -1 - i, len - 1 - i) stays inside the marker
                own_len = ('call', ('g', 'builtins.len'), (x[1],), ())
                bounded = any(y[0] in ('iter', 'idx') and (y[0] == 'idx' and y[1] == x[1] or
                                                            y[0] == 'iter' and is_call(y[1], 'builtins.range') and
                                                            any(z == own_len for z in walk_term(y[1])))
                              for y in walk_term(x[2]))
                if not bounded:
                    hits.append((nd.lineno, show(x)[:60]))
    run.check(not hits, 'R-CLAMP', f, 'marker-iterated-not-indexed', hits[0][0] if hits else forms['marker'][1],
              'the look-back marker is only iterated',
              'the look-back marker is indexed by position (%s): for an error inside the first window the marker holds fewer than k '
              'vertices (none at all at the first nucleotide), so the index is out of range and repair_dna raises IndexError'
              % (hits[0][1] if hits else ''), inputs='a first nucleotide that is not an arc of the start vertex; errors at positions < k')
    ok = forms['chunk'][0] == forms['marker'][0]
    run.check(ok, 'R-CLAMP', f, 'marker-and-chunk-clamped-alike', forms['marker'][1],
              'marker and chunk treat a cursor inside the first window alike',
              "the look-back marker is %s (%s at 0) while the chunk is %s (%s): for an error inside the first window one is empty "
              "and the other is not, and path_matching indexes an empty chunk (IndexError)"
              % (forms['marker'][2], 'clamped' if forms['marker'][0] else 'not clamped', forms['chunk'][2],
                 'clamped' if forms['chunk'][0] else 'not clamped'),
              inputs='k >= 3, first error at positions 1..k-2')
