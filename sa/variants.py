"""Self-validation corpus: breaking variants (each tagged with the rule and the properties that must
report it) and benign twins (must stay silent for every property).  A variant is a list of textual
edits located by the construct's own text on the current tree (never by line number); a locator
that no longer finds its construct makes the variant `inapplicable`, not a failure.
"""
import ast

from . import twins

SW, GR, OP, BF = 'dsw/spiderweb.py', 'dsw/graphized.py', 'dsw/operation.py', 'dsw/biofilter.py'
VARIANTS = {}


def V(vid, props, rule, rel, *edits, kind='break', note=''):
    assert vid not in VARIANTS, vid
    VARIANTS[vid] = {'props': props, 'rule': rule, 'edits': {rel: list(edits)}, 'kind': kind, 'note': note}


def V2(vid, props, rule, edits_by_file, kind='break', note=''):
    assert vid not in VARIANTS, vid
    VARIANTS[vid] = {'props': props, 'rule': rule, 'edits': edits_by_file, 'kind': kind, 'note': note}


ENC_LIVE = "used_indices = where(accessor[vertex_index] >= 0)[0]"
# occurrences of ENC_LIVE in spiderweb.py: 1 encode normal, 2 encode fast, 3 decode normal, 4 decode fast
CODER = ['C01', 'C05']

# ---------------------------------------------------------------- R-LIVE
for i, where_ in enumerate(['enc-normal', 'enc-fast', 'dec-normal', 'dec-fast']):
    V('live-gt0-' + where_, ['C01', 'C05'] + (['C06'] if 'dec' in where_ else []) + (['C04', 'C02'] if 'enc' in where_ else []),
      'R-LIVE', SW, (ENC_LIVE, ENC_LIVE.replace('>= 0', '> 0'), i + 1))
    V('live-gem1-' + where_, ['C01', 'C05'] + (['C06'] if 'dec' in where_ else []), 'R-LIVE', SW,
      (ENC_LIVE, ENC_LIVE.replace('>= 0', '>= -1'), i + 1))
V('live-gt0-both-sides', ['C01', 'C05', 'C06'], 'R-LIVE', SW, *[(ENC_LIVE, ENC_LIVE.replace('>= 0', '> 0'), 1)] * 4,
  note='consistent change: invisible to every round trip')
V('live-gt0-repair', ['C08', 'C09'], 'R-LIVE', SW,
  ("used_indices, nucleotide = where(accessor[vertex_index] >= 0)[0]", "used_indices, nucleotide = where(accessor[vertex_index] > 0)[0]"))
for i in range(4):
    V('live-gt0-path-matching-%d' % (i + 1), ['C08'], 'R-LIVE', GR, ("where(accessor[", "where(accessor[", 1),
      (">= 0)[0]", "> 0)[0]", i + 1) if i == 0 else ("where(accessor[vertex_index] >= 0)[0]", "where(accessor[vertex_index] > 0)[0]", i))
V('live-gt0-latter-map', ['C14'], 'R-LIVE', GR, ("latter_map[location] = vertex[vertex >= 0].tolist()", "latter_map[location] = vertex[vertex > 0].tolist()"))
V('live-gt0-matrix', ['C14'], 'R-LIVE', GR, ("matrix[vertex_index][vertex[vertex >= 0]] = 1", "matrix[vertex_index][vertex[vertex > 0]] = 1"))
V('live-plus2-vertices', ['C14', 'C19', 'C03'], 'R-LIVE', GR,
  ("return where(sum(((accessor + 1).astype(bool))", "return where(sum(((accessor + 2).astype(bool))"))
V('live-gt0-leaf', ['C14'], 'R-LIVE', GR, ("available_latters = vertex[vertex >= 0].tolist()", "available_latters = vertex[vertex > 0].tolist()"))
V('live-gt0-cascade', ['C03'], 'R-LIVE', SW, ("current = len(where(accessor[former_index] >= 0)[0])", "current = len(where(accessor[former_index] > 0)[0])"))

# ---------------------------------------------------------------- R-WALK
V('walk-dec-deg1-no-test', ['C06', 'C01', 'C05'], 'R-WALK', SW,
  ("                if nucleotide == used_nucleotide:\n                    vertex_index = accessor[vertex_index][nucleotides.index(nucleotide)]\n                else:\n                    raise ValueError(\"At least one error is found in this DNA sequence!\")\n",
   "                vertex_index = accessor[vertex_index][nucleotides.index(nucleotide)]\n"))
V('walk-dec-fast-no-membership', ['C06', 'C01', 'C05'], 'R-WALK|R-DEG', SW,
  ("            if nucleotide in used_nucleotides:  # check whether the DNA sequence is right currently.\n                remainder = used_nucleotides.index(nucleotide)\n            else:\n                raise ValueError(\"At least one error is found in this DNA sequence!\")\n\n            if shuffles is not None:  # shuffle remainder based on the inputted shuffles.\n                remainder = where(argsort(shuffles[vertex_index, used_indices]) == remainder)[0][0]\n\n            vertex_index",
   "            remainder = nucleotides.index(nucleotide)\n\n            if shuffles is not None:  # shuffle remainder based on the inputted shuffles.\n                remainder = where(argsort(shuffles[vertex_index, used_indices]) == remainder)[0][0]\n\n            vertex_index"))
V('walk-dec-normal-else-pass', ['C06', 'C01', 'C05'], 'R-WALK|R-DEG', SW,
  ("                    remainder = used_nucleotides.index(nucleotide)\n                else:\n                    raise ValueError(\"At least one error is found in this DNA sequence!\")\n\n                if shuffles is not None:  # shuffle remainder based on the inputted shuffles.\n                    remainder = where(",
   "                    remainder = used_nucleotides.index(nucleotide)\n                else:\n                    remainder = 0\n\n                if shuffles is not None:  # shuffle remainder based on the inputted shuffles.\n                    remainder = where("))
V('walk-enc-passthrough-col0', ['C02', 'C04', 'C05', 'C01'], 'R-WALK', SW,
  ("                value = used_indices[0]\n\n                if need_path:", "                value = 0\n\n                if need_path:"))
V('walk-enc-emit-remainder', ['C02', 'C04', 'C05', 'C01'], 'R-WALK', SW,
  ("nucleotide, vertex_index = nucleotides[value], accessor[vertex_index][value]\n\n            dna_sequence += nucleotide",
   "nucleotide, vertex_index = nucleotides[remainder], accessor[vertex_index][value]\n\n            dna_sequence += nucleotide"))
V('walk-enc-fast-emit-twice', ['C02', 'C04', 'C05', 'C01'], 'R-WALK', SW,
  ("            dna_sequence += nucleotides[value]\n", "            dna_sequence += nucleotides[value]\n            if radix == 1:\n                dna_sequence += nucleotides[value]\n"))
V('walk-dec-deg1-no-update', ['C06', 'C01', 'C05'], 'R-WALK', SW,
  ("                if nucleotide == used_nucleotide:\n                    vertex_index = accessor[vertex_index][nucleotides.index(nucleotide)]\n",
   "                if nucleotide == used_nucleotide:\n                    pass\n"))
V('walk-dec-stale-live', ['C06', 'C01', 'C05'], 'R-WALK', SW,
  ("                saved_values.append((len(used_indices), remainder))\n                vertex_index = accessor[vertex_index][nucleotides.index(nucleotide)]\n",
   "                saved_values.append((len(used_indices), remainder))\n                vertex_index = accessor[vertex_index][nucleotides.index(nucleotide)]\n                vertex_index = accessor[vertex_index][nucleotides.index(nucleotide)]\n"))

# ---------------------------------------------------------------- R-DEG
V('deg-enc-fast-swap-tests', CODER, 'R-DEG|R-SEL', SW, ("            if radix == 4:  # current vertex contains information.\n                remainder = binary_message[location] * 2",
                                                   "            if radix == 2:  # current vertex contains information.\n                remainder = binary_message[location] * 2"),
  ("            elif radix == 2:\n                remainder = binary_message[location]\n", "            elif radix == 4:\n                remainder = binary_message[location]\n"))
V('deg-enc-fast-inc1', CODER + ['C04'], 'R-DEG', SW, ("                value = used_indices[remainder]\n                location += 2", "                value = used_indices[remainder]\n                location += 1"))
V('deg-dec-fast-no-radix3', ['C06', 'C05'], 'R-DEG', SW, ("            elif radix == 3:\n                raise ValueError(\"Not implementation!\")\n            else:\n                raise ValueError(\"Current vertex doesn't have an out-degree, \"\n                                 + \"the accessor, the start vertex, or DNA sequence is wrong!\")\n\n    return binary_message",
                                                    "\n    return binary_message"))
V('deg-enc-normal-raise-type', ['C04', 'C05'], 'R-DEG', SW, ("            else:  # current vertex is wrong.\n                raise ValueError(\"Current vertex doesn't have an out-degree, \"\n                                 + \"the accessor or the start vertex is wrong!\")\n\n            nucleotide, vertex_index = nucleotides[value], accessor[vertex_index][value]\n\n            dna_sequence += nucleotide",
                                                       "            else:  # current vertex is wrong.\n                raise RuntimeError(\"Current vertex doesn't have an out-degree, \"\n                                 + \"the accessor or the start vertex is wrong!\")\n\n            nucleotide, vertex_index = nucleotides[value], accessor[vertex_index][value]\n\n            dna_sequence += nucleotide"))
V('deg-dec-normal-dead-keyerror', ['C06', 'C05'], 'R-DEG|R-EXC', SW, ("                raise ValueError(\"Current vertex doesn't have an out-degree, \"\n                                 + \"the accessor, the start vertex, or DNA sequence is wrong!\")\n\n            if verbose:",
                                                               "                raise KeyError(\"Current vertex doesn't have an out-degree, \"\n                                 + \"the accessor, the start vertex, or DNA sequence is wrong!\")\n\n            if verbose:"))
V('deg-enc-normal-gt2', CODER + ['C04'], 'R-DEG', SW, ("            if len(used_indices) > 1:  # current vertex contains information.\n                quotient, remainder",
                                                "            if len(used_indices) > 2:  # current vertex contains information.\n                quotient, remainder"),
  ("            elif len(used_indices) == 1:  # current vertex does not contain information.\n                value = used_indices[0]\n\n                if need_path:",
   "            elif len(used_indices) >= 1:  # current vertex does not contain information.\n                value = used_indices[0]\n\n                if need_path:"))

# ---------------------------------------------------------------- R-SEL
SHUF_ENC = "remainder = argsort(shuffles[vertex_index, used_indices])[remainder]"
SHUF_DEC = "remainder = where(argsort(shuffles[vertex_index, used_indices]) == remainder)[0][0]"
for i, w in enumerate(['enc-normal', 'enc-fast4', 'enc-fast2']):
    V('sel-unrestricted-' + w, CODER + ['C18'], 'R-SEL', SW, (SHUF_ENC, "remainder = argsort(shuffles[vertex_index])[remainder]", i + 1))
    V('sel-negated-' + w, CODER + ['C18'], 'R-SEL', SW, (SHUF_ENC, "remainder = argsort(-shuffles[vertex_index, used_indices])[remainder]", i + 1))
    V('sel-direct-' + w, CODER + ['C18'], 'R-SEL', SW, (SHUF_ENC, "remainder = shuffles[vertex_index, used_indices][remainder]", i + 1))
    V('sel-dropped-' + w, CODER + ['C18'], 'R-SEL', SW, (SHUF_ENC, "pass", i + 1))
for i, w in enumerate(['dec-normal', 'dec-fast']):
    V('sel-unrestricted-' + w, CODER + ['C18'], 'R-SEL', SW, (SHUF_DEC, "remainder = where(argsort(shuffles[vertex_index]) == remainder)[0][0]", i + 1))
    V('sel-forward-' + w, CODER + ['C18'], 'R-SEL', SW, (SHUF_DEC, "remainder = argsort(shuffles[vertex_index, used_indices])[remainder]", i + 1))
    V('sel-dropped-' + w, CODER + ['C18'], 'R-SEL', SW, (SHUF_DEC, "pass", i + 1))
V('sel-both-sides-negated', ['C05', 'C18'], 'R-SEL', SW,
  *([(SHUF_ENC, "remainder = argsort(-shuffles[vertex_index, used_indices])[remainder]", 1)] * 3 +
    [(SHUF_DEC, "remainder = where(argsort(-shuffles[vertex_index, used_indices]) == remainder)[0][0]", 1)] * 2),
  note='consistent on both sides: round trips stay green, the format changes')
V('sel-enc-reversed-live', CODER, 'R-SEL|R-WALK', SW, ("                value = used_indices[remainder]\n\n                if need_path:", "                value = used_indices[::-1][remainder]\n\n                if need_path:"))
V('sel-enc-complement-digit', CODER, 'R-SEL', SW, ("                value = used_indices[remainder]\n\n                if need_path:", "                value = used_indices[len(used_indices) - 1 - remainder]\n\n                if need_path:"))

# ---------------------------------------------------------------- R-BASE
V('base-plus-one', CODER + ['C04'], 'R-BASE|R-SEL', SW, ("calculus_division(number=quotient, base=str(len(used_indices)))", "calculus_division(number=quotient, base=str(len(used_indices) + 1))"))
V('base-literal-4', CODER + ['C04'], 'R-BASE|R-SEL', SW, ("calculus_division(number=quotient, base=str(len(used_indices)))", "calculus_division(number=quotient, base=\"4\")"))
V('base-swap-unpack', CODER + ['C04'], 'R-BASE|R-SEL', SW, ("quotient, remainder = calculus_division(number=quotient, base=str(len(used_indices)))", "remainder, quotient = calculus_division(number=quotient, base=str(len(used_indices)))"))
V('base-saved-radix-4', CODER, 'R-BASE|R-SEL', SW, ("saved_values.append((len(used_indices), remainder))", "saved_values.append((4, remainder))"))
V('base-second-writer', ['C04', 'C05', 'C01'], 'R-BASE|R-SEL|R-PROG', SW, ("                value = used_indices[remainder]\n\n                if need_path:\n                    record_path.append([vertex_index, 1])",
                                                                "                value = used_indices[remainder]\n                quotient = calculus_addition(number=quotient, base=\"0\") if remainder else quotient\n\n                if need_path:\n                    record_path.append([vertex_index, 1])"),
  note='behaviour preserving second writer would be benign; this one is flagged as a deviation of the single-writer clause')

# ---------------------------------------------------------------- R-ENDIAN
V('endian-forward-horner', CODER, 'R-ENDIAN', SW, ("enumerate(saved_values[::-1])", "enumerate(saved_values)"))
V('endian-init-1', CODER, 'R-ENDIAN', SW, ("quotient, saved_values = \"0\", []", "quotient, saved_values = \"1\", []"))
V('endian-pack-lsb-first-enc', CODER, 'R-SEL|R-ENDIAN', SW, ("remainder = binary_message[location] * 2\n                if location + 1 < len(binary_message):\n                    remainder += binary_message[location + 1]",
                                                          "remainder = binary_message[location]\n                if location + 1 < len(binary_message):\n                    remainder += binary_message[location + 1] * 2"))
V('endian-unpack-swapped-dec', CODER, 'R-ENDIAN', SW, ("binary_message[message_location] = remainder // 2", "binary_message[message_location] = remainder % 2"),
  ("                    binary_message[message_location + 1] = remainder % 2", "                    binary_message[message_location + 1] = remainder // 2"))
V('endian-horner-swap-mul-add', CODER, 'R-ENDIAN', SW, ("quotient = calculus_multiplication(number=quotient, base=str(out_degree))\n            quotient = calculus_addition(number=quotient, base=str(number))",
                                                        "quotient = calculus_addition(number=quotient, base=str(number))\n            quotient = calculus_multiplication(number=quotient, base=str(out_degree))"))

# ---------------------------------------------------------------- R-AHEAD
V('ahead-enc-unguarded', ['C01'], 'R-AHEAD', SW, ("                remainder = binary_message[location] * 2\n                if location + 1 < len(binary_message):\n                    remainder += binary_message[location + 1]",
                                                 "                remainder = binary_message[location] * 2 + binary_message[location + 1]"))
V('ahead-dec-unguarded', ['C01'], 'R-AHEAD', SW, ("                if message_location + 1 < bit_length:\n                    binary_message[message_location + 1] = remainder % 2",
                                                 "                binary_message[message_location + 1] = remainder % 2"))

# ---------------------------------------------------------------- R-VTUSE
V('vtuse-dec-no-compare', ['C06', 'C01', 'C07'], 'R-VTUSE', SW, ("    if vt_check is not None:\n        if vt_check != set_vt(dna_sequence=dna_sequence, vt_length=len(vt_check)):\n            raise ValueError(\"At least one error is found in this DNA sequence!\")\n\n    if not is_faster:\n        quotient, saved_values",
                                                           "    if not is_faster:\n        quotient, saved_values"))
V('vtuse-dec-len-minus-1', ['C06', 'C01', 'C07'], 'R-VTUSE', SW, ("if vt_check != set_vt(dna_sequence=dna_sequence, vt_length=len(vt_check)):", "if vt_check != set_vt(dna_sequence=dna_sequence, vt_length=len(vt_check) - 1):"))
V('vtuse-dec-only-normal-mode', ['C06', 'C01', 'C07'], 'R-VTUSE', SW, ("    if vt_check is not None:\n        if vt_check != set_vt(dna_sequence=dna_sequence, vt_length=len(vt_check)):", "    if vt_check is not None and not is_faster:\n        if vt_check != set_vt(dna_sequence=dna_sequence, vt_length=len(vt_check)):"))
V('vtuse-enc-prefix', ['C01', 'C07'], 'R-VTUSE', SW, ("        vt_check = set_vt(dna_sequence=dna_sequence, vt_length=vt_length)", "        vt_check = set_vt(dna_sequence=dna_sequence[:-1], vt_length=vt_length)"))
V('vtuse-dec-mismatch-pass', ['C06', 'C01', 'C07'], 'R-VTUSE|R-EXC', SW, ("        if vt_check != set_vt(dna_sequence=dna_sequence, vt_length=len(vt_check)):\n            raise ValueError(\"At least one error is found in this DNA sequence!\")",
                                                                    "        if vt_check != set_vt(dna_sequence=dna_sequence, vt_length=len(vt_check)):\n            pass"))

# ---------------------------------------------------------------- R-ALPHA
V('alpha-encode-actg', CODER + ['C02'], 'R-ALPHA|R-WALK', SW, ('monitor, record_path, vertex_index, dna_sequence, nucleotides = Monitor(), [], start_index, "", "ACGT"',
                                               'monitor, record_path, vertex_index, dna_sequence, nucleotides = Monitor(), [], start_index, "", "ACTG"'))
V('alpha-decode-actg', CODER + ['C06'], 'R-ALPHA', SW, ('vertex_index, nucleotides, monitor = start_index, "ACGT", Monitor()', 'vertex_index, nucleotides, monitor = start_index, "ACTG", Monitor()'))

# ---------------------------------------------------------------- re-introduced pinned defects
V('defect-D1-no-dtype', ['C07', 'C01', 'C06'], 'R-TYPED', SW, ("for nucleotide in dna_sequence], dtype=int)", "for nucleotide in dna_sequence])"))
V('defect-D3-keyword-call', ['C11'], 'R-IFACE', SW, ("bio_filter.valid(dna_sequence)", "bio_filter.valid(dna_sequence=dna_sequence)"))
V('defect-D4-literal-10-a', ['C03', 'C13'], 'R-KPLUMB', SW, ("obtain_formers(useless_vertex, observed_length)", "obtain_formers(useless_vertex, 10)"))
V('defect-D4-literal-10-b', ['C03', 'C13'], 'R-KPLUMB', SW, ("obtain_formers(former_index, observed_length)", "obtain_formers(former_index, 10)"))
V('defect-D5-no-handler', ['C03'], 'R-EXC|R-ARB', SW, ("                try:\n                    cycle = find_cycle(graph)\n                except NetworkXNoCycle:\n                    break\n",
                                                     "                cycle = find_cycle(graph)\n                if len(cycle) == 0:\n                    break\n"))
V('defect-D5-all-edges', ['C03'], 'R-ARB', SW, ("                    if len(where(latter_indices >= 0)[0]) == 1:  # only arcs that carry no information.\n                        for latter_index in latter_indices:\n                            if latter_index >= 0:\n                                graph.add_edge(u_of_edge=former_index, v_of_edge=latter_index)",
                                               "                    if len(where(latter_indices >= 0)[0]) >= 1:  # only arcs that carry no information.\n                        for latter_index in latter_indices:\n                            if latter_index >= 0:\n                                graph.add_edge(u_of_edge=former_index, v_of_edge=latter_index)"))

V('defect-D9-numpy-modulo', ['C07'], 'R-TYPED', SW, ("vt_value = int(sum(where((values[1:] - values[:-1]) > 0)[0])) % (", "vt_value = sum(where((values[1:] - values[:-1]) > 0)[0]) % ("))

# ---------------------------------------------------------------- R-SHIFT
V('shift-latters-k-minus-1', ['C13', 'C02', 'C11', 'C03'], 'R-SHIFT', GR, ("% (len(nucleotides) ** observed_length))\n        latters.append", "% (len(nucleotides) ** (observed_length - 1)))\n        latters.append"))
V('shift-latters-plus1', ['C13', 'C02', 'C11', 'C03'], 'R-SHIFT', GR, ("latter = int((current * len(nucleotides) + latter_value)", "latter = int((current * len(nucleotides) + latter_value + 1)"))
V('shift-formers-mod', ['C13', 'C03'], 'R-SHIFT', GR, ("former = current // len(nucleotides) + former_value", "former = current % len(nucleotides) + former_value"))
V('shift-formers-exp', ['C13', 'C03'], 'R-SHIFT', GR, ("former_value * int(len(nucleotides) ** (observed_length - 1))", "former_value * int(len(nucleotides) ** observed_length)"))
V('shift-formers-range3', ['C13', 'C03'], 'R-SHIFT', GR, ("    for former_value in range(len(nucleotides)):", "    for former_value in range(len(nucleotides) - 1):"))
V('shift-removed-arc-target', ['C13', 'C19'], 'R-SHIFT', SW, ("latter = int((former * len(nucleotides) + latter_value) % (len(nucleotides) ** observed_length))", "latter = int((former * len(nucleotides) + former_value) % (len(nucleotides) ** observed_length))"))

# ---------------------------------------------------------------- R-KPLUMB
V('kplumb-valid-graph-plus1', ['C11', 'C13', 'C02'], 'R-KPLUMB', SW, ("                latters = obtain_latters(current=vertex_index, observed_length=observed_length)\n                for position, latter_vertex_index in enumerate(latters):\n                    if vertices[latter_vertex_index]:\n                        accessor[vertex_index][position] = latter_vertex_index\n\n            if verbose:\n                monitor(vertex_index + 1, len(vertices))\n\n        if verbose:\n            print(\"Valid graph",
                                                                           "                latters = obtain_latters(current=vertex_index, observed_length=observed_length + 1)\n                for position, latter_vertex_index in enumerate(latters):\n                    if vertices[latter_vertex_index]:\n                        accessor[vertex_index][position] = latter_vertex_index\n\n            if verbose:\n                monitor(vertex_index + 1, len(vertices))\n\n        if verbose:\n            print(\"Valid graph"))
V('kplumb-score-default', ['C13', 'C19'], 'R-KPLUMB', SW, ("has_deletion=has_deletion,\n                                          observed_length=observed_length, verbose=verbose)", "has_deletion=has_deletion,\n                                          verbose=verbose)"))
V('kplumb-find-vertices-literal', ['C11', 'C13', 'C02'], 'R-KPLUMB|R-MASK', SW, ("number_to_dna(decimal_number=vertex_index, dna_length=observed_length)", "number_to_dna(decimal_number=vertex_index, dna_length=2)"))
V('kplumb-trim-literal', ['C03', 'C13', 'C02'], 'R-KPLUMB|R-ORD', SW, ("latter_indices = obtain_latters(current=vertex_index, observed_length=observed_length)", "latter_indices = obtain_latters(current=vertex_index, observed_length=2)"))

# ---------------------------------------------------------------- R-MASK / R-IFACE / R-ORD(empty)
V('mask-kmer-plus1', ['C11', 'C02'], 'R-MASK', SW, ("number_to_dna(decimal_number=vertex_index, dna_length=observed_length)", "number_to_dna(decimal_number=vertex_index + 1, dna_length=observed_length)"))
V('mask-range-minus1', ['C11', 'C02'], 'R-MASK', SW, ("    for vertex_index in range(len(vertices)):\n        dna_sequence = number_to_dna", "    for vertex_index in range(len(vertices) - 1):\n        dna_sequence = number_to_dna"))
V('mask-second-writer', ['C11', 'C02'], 'R-MASK', SW, ("    valid_rate = sum(vertices) / len(vertices)\n\n    if valid_rate == 0:", "    vertices[0] = True\n    valid_rate = sum(vertices) / len(vertices)\n\n    if valid_rate == 0:"))
V('ord-find-vertices-lt0', ['C11'], 'R-ORD', SW, ("    if valid_rate == 0:\n        raise ValueError(\"No vertex is collected!\")", "    if valid_rate < 0:\n        raise ValueError(\"No vertex is collected!\")"))
V('exc-find-vertices-runtime', ['C11'], 'R-EXC|R-ORD', SW, ("        raise ValueError(\"No vertex is collected!\")", "        raise RuntimeError(\"No vertex is collected!\")"))
V('ord-valid-graph-ge0', ['C11'], 'R-ORD', SW, ("    if valid_rate > 0:\n        accessor = -ones(shape=(int(len(nucleotides) ** observed_length), len(nucleotides)), dtype=int)\n\n        for vertex_index", "    if valid_rate >= 0:\n        accessor = -ones(shape=(int(len(nucleotides) ** observed_length), len(nucleotides)), dtype=int)\n\n        for vertex_index"))
V('exc-valid-graph-keyerror', ['C11'], 'R-EXC|R-ORD', SW, ("        raise ValueError(\"No collected vertex!\")\n\n\ndef connect_coding_graph", "        raise KeyError(\"No collected vertex!\")\n\n\ndef connect_coding_graph"))

# ---------------------------------------------------------------- R-ARC
VG_STORE = "                    if vertices[latter_vertex_index]:\n                        accessor[vertex_index][position] = latter_vertex_index\n\n            if verbose:\n                monitor(vertex_index + 1, len(vertices))\n\n        if verbose:\n            print(\"Valid graph"
V('arc-valid-no-target-test', ['C11', 'C02'], 'R-ARC', SW, (VG_STORE, VG_STORE.replace("if vertices[latter_vertex_index]:", "if True:")))
V('arc-valid-wrong-column', ['C11', 'C02', 'C13'], 'R-ARC', SW, (VG_STORE, VG_STORE.replace("accessor[vertex_index][position] = latter_vertex_index", "accessor[vertex_index][(position + 1) % 4] = latter_vertex_index")))
V('arc-valid-wrong-value', ['C11', 'C02', 'C13'], 'R-ARC', SW, (VG_STORE, VG_STORE.replace("accessor[vertex_index][position] = latter_vertex_index", "accessor[vertex_index][position] = vertex_index")))
V('arc-valid-no-source-test', ['C11', 'C02'], 'R-ARC', SW, ("            if vertices[vertex_index]:\n                latters = obtain_latters(current=vertex_index, observed_length=observed_length)\n                for position, latter_vertex_index in enumerate(latters):\n                    if vertices[latter_vertex_index]:\n                        accessor[vertex_index][position] = latter_vertex_index\n\n            if verbose:\n                monitor(vertex_index + 1, len(vertices))\n\n        if verbose:\n            print(\"Valid graph",
                                                            "            if True:\n                latters = obtain_latters(current=vertex_index, observed_length=observed_length)\n                for position, latter_vertex_index in enumerate(latters):\n                    if vertices[latter_vertex_index]:\n                        accessor[vertex_index][position] = latter_vertex_index\n\n            if verbose:\n                monitor(vertex_index + 1, len(vertices))\n\n        if verbose:\n            print(\"Valid graph"))
V('arc-coding-store-zero', ['C03', 'C13', 'C02'], 'R-ARC', SW, ("                    accessor[useless_vertex] = -1", "                    accessor[useless_vertex] = 0"))
V('arc-coding-stale-vertices', ['C03'], 'R-ARC', SW, ("            while True:\n                vertices = obtain_vertices(accessor)\n                graph = DiGraph()", "            vertices = obtain_vertices(accessor)\n            while True:\n                graph = DiGraph()"))
V('arc-lmap-enumerate-column', ['C14', 'C13'], 'R-ARC', GR, ("            for latter_vertex in latter_vertices:\n                accessor[former_vertex, latter_vertex % len(nucleotides)] = latter_vertex", "            for position, latter_vertex in enumerate(latter_vertices):\n                accessor[former_vertex, position] = latter_vertex"))
V('arc-matrix-row-filtered', ['C14', 'C13'], 'R-ARC', GR, ("saved_information = [index if index in next_indices else -1 for index in reference_latters]", "saved_information = [index for index in reference_latters if index in next_indices] + [-1] * (4 - len(next_indices))"))
V('arc-complete-alloc-rows', ['C13'], 'R-ARC', GR, ("accessor, monitor = -ones(shape=(int(4 ** observed_length), 4), dtype=int), Monitor()", "accessor, monitor = -ones(shape=(int(4 ** observed_length) + 1, 4), dtype=int), Monitor()"))

# ---------------------------------------------------------------- R-ORD threshold / R-FIX / R-EXC in C03
V('ord-threshold-gt', ['C03'], 'R-ORD', SW, ("sum(vertices[latter_indices]) >= threshold", "sum(vertices[latter_indices]) > threshold"))
V('ord-useless-le', ['C03'], 'R-ORD', GR, ("            if len(latter_vertices) < threshold:", "            if len(latter_vertices) <= threshold:"))
V('exc-coding-runtime', ['C03'], 'R-EXC', SW, ("            raise ValueError(\"No coding graph is created!\")\n\n        if not changed:", "            raise RuntimeError(\"No coding graph is created!\")\n\n        if not changed:"))
V('fix-no-feedback', ['C03'], 'R-FIX', SW, ("        vertices = new_vertices\n        times += 1", "        times += 1"))
V('fix-no-feedback-lmap', ['C03'], 'R-FIX', GR, ("        latter_map = new_latter_map\n\n        round_number += 1", "        round_number += 1"))
V('fix-exit-inverted', ['C03'], 'R-FIX', SW, ("        if not changed:\n            break", "        if changed:\n            break"))
V('twin-fix-empty-after-break', ['C03'], None, SW, ("        if sum(new_vertices) < 1:\n            raise ValueError(\"No coding graph is created!\")\n\n        if not changed:\n            break\n", "        if not changed:\n            break\n\n        if sum(new_vertices) < 1:\n            raise ValueError(\"No coding graph is created!\")\n"), kind='benign', note='the post-loop guard still raises ValueError for an empty result')
V('fix-materialise-from-param', ['C03'], 'R-FIX', SW, ("    times, nucleotides = 1, \"ACGT\"\n\n    while True:\n        if verbose:\n            print(\"Check the vertex", "    times, nucleotides, original = 1, \"ACGT\", vertices\n\n    while True:\n        if verbose:\n            print(\"Check the vertex"),
  ("            if vertices[vertex_index]:\n                latters = obtain_latters(current=vertex_index, observed_length=observed_length)\n                for position, latter_vertex_index in enumerate(latters):\n                    if vertices[latter_vertex_index]:\n                        accessor[vertex_index][position] = latter_vertex_index\n\n            if verbose:\n                monitor(vertex_index + 1, len(vertices))\n\n        if threshold",
   "            if original[vertex_index]:\n                latters = obtain_latters(current=vertex_index, observed_length=observed_length)\n                for position, latter_vertex_index in enumerate(latters):\n                    if original[latter_vertex_index]:\n                        accessor[vertex_index][position] = latter_vertex_index\n\n            if verbose:\n                monitor(vertex_index + 1, len(vertices))\n\n        if threshold"))
V('ctor-gt-accepts-all', ['C02'], 'R-ORD', BF, ("            if observed_length < max_homopolymer_runs:", "            if observed_length > max_homopolymer_runs * 100:"))
V('ctor-motif-ge', ['C02'], 'R-ORD', BF, ("                if len(undesired_motif) > observed_length:", "                if len(undesired_motif) > observed_length + 1:"))

# ---------------------------------------------------------------- R-LEGAL / R-BFS
V('legal-test-deleted', ['C14'], 'R-LEGAL', GR, ("        if list(set(next_indices) | set(reference_latters)) != reference_latters:\n            raise ValueError(\"Wrong format in the adjacency matrix, \"\n                             + \"which cannot be converted to equivalent compressed accessor!\")\n", ""))
V('legal-arm-pass', ['C14'], 'R-LEGAL|R-EXC', GR, ("            raise ValueError(\"Wrong format in the adjacency matrix, \"\n                             + \"which cannot be converted to equivalent compressed accessor!\")", "            pass"))
V('bfs-depth-minus1', ['C14'], 'R-BFS', GR, ("    elif latter_map is not None:\n        for step in range(depth):", "    elif latter_map is not None:\n        for step in range(depth - 1):"))
V('bfs-no-rebind', ['C14'], 'R-BFS', GR, ("                level += available_latters\n            branch = level", "                level += available_latters\n            pass"))

# ---------------------------------------------------------------- R-PROG
V('defect-D2-elif', ['C10'], 'R-PROG', SW, ("        else:\n            detected_count += 1", "        elif len(split_sequences[-1]) > 0:\n            detected_count += 1"))
V('prog-step-in-one-arm', ['C10', 'C08'], 'R-PROG|R-TILE', SW, ("            location += observed_length + 1\n", "            if detected_count > 1:\n                location += observed_length + 1\n"))
V('prog-heap-guard-dropped', ['C10'], 'R-PROG', SW, ("    if count == 0 or count > heap_size:", "    if count == 0:"))
V('prog-while-true-in-matching', ['C10'], 'R-PROG', GR, ("    if has_indel:\n        for a_nucleotide in", "    while len(repair_info) > 1000:\n        visited_count += 1\n\n    if has_indel:\n        for a_nucleotide in"))
V('prog-walk-arm-no-advance', ['C10'], 'R-PROG', SW, ("            visited_times += 1\n            location += 1\n", "            visited_times += 1\n"))
V('prog-recursion', ['C10'], 'R-PROG', SW, ("    repaired_fragment_set = [set() for _ in range(len(index_markers))]", "    if detected_count > 100:\n        return repair_dna(dna_sequence, accessor, start_index, observed_length, vt_check, has_indel, heap_size)\n    repaired_fragment_set = [set() for _ in range(len(index_markers))]"))
V('exc-repair-raises', ['C10'], 'R-EXC', SW, ("    repaired_results, count = set(), 1\n", "    repaired_results, count = set(), 1\n    if detected_count > len(dna_sequence) // 2:\n        raise ValueError(\"too many errors\")\n"))
V('twin-vt-value-already-int', ['C10', 'C07', 'C01', 'C06'], None, SW, ("number_to_dna(decimal_number=int(vt_value), dna_length=vt_length - 1)", "number_to_dna(decimal_number=vt_value, dna_length=vt_length - 1)"),
  kind='benign', note='since the D9 repair vt_value is a Python int already, the int() is redundant')

# ---------------------------------------------------------------- R-TILE
V('defect-D8-neg-bound', ['C08'], 'R-TILE', SW, ("split_sequences[-1][: -(observed_length - 1) or None]", "split_sequences[-1][: - observed_length + 1]"))
V('tile-numpy-max-clamp', ['C08'], 'R-TILE', SW, ("split_sequences[-1][: -(observed_length - 1) or None]", "split_sequences[-1][: max(len(split_sequences[-1]) - observed_length + 1, 0)]"),
  note='the first version of the D8 repair: max is numpy.max in this module, the 0 is an axis')
V('tile-trim-k', ['C08'], 'R-TILE', SW, ("split_sequences[-1][: -(observed_length - 1) or None]", "split_sequences[-1][: -observed_length]"))
V('tile-resume-lo', ['C08'], 'R-TILE', SW, ("dna_sequence[location + 1: location + observed_length + 1]", "dna_sequence[location: location + observed_length + 1]"))
V('tile-resume-hi', ['C08'], 'R-TILE', SW, ("dna_sequence[location + 1: location + observed_length + 1]", "dna_sequence[location + 1: location + observed_length]"))
V('tile-marker-lo', ['C08'], 'R-TILE', SW, ("index_queue[location - observed_length: location]", "index_queue[location - observed_length + 1: location]"))
V('tile-marker-hi', ['C08'], 'R-TILE', SW, ("index_queue[location - observed_length: location]", "index_queue[location - observed_length: location + 1]"))
V('tile-chunk-lo', ['C08'], 'R-TILE', SW, ("dna_sequence[location - observed_length + 1: location + observed_length]", "dna_sequence[location - observed_length: location + observed_length]"))
V('tile-chunk-hi', ['C08'], 'R-TILE', SW, ("dna_sequence[location - observed_length + 1: location + observed_length]", "dna_sequence[location - observed_length + 1: location + observed_length + 1]"))
V('tile-step-k', ['C08'], 'R-TILE', SW, ("            location += observed_length + 1\n", "            location += observed_length\n"))
V('tile-occur-plus1', ['C08'], 'R-TILE', SW, ("occur_location=observed_length - recall - 1)", "occur_location=observed_length - recall)"))
V('tile-marker-not-reversed', ['C08'], 'R-TILE', SW, ("for recall, vertex_index in enumerate(index_marker[::-1]):", "for recall, vertex_index in enumerate(index_marker):"))
V('tile-seed-div4', ['C08'], 'R-TILE', SW, ("split_sequences.append(nucleotides[vertex_index % 4])", "split_sequences.append(nucleotides[vertex_index // 4 % 4])"))

# ---------------------------------------------------------------- R-CAND
V('cand-subst-under-indel', ['C08'], 'R-CAND|R-WALK', GR, ("    for r_nucleotide in list(filter(", "    for r_nucleotide in [] if not has_indel else list(filter("),
  note='substitution candidates only with has_indel (expressed through the iterable)')
V('cand-append-unconditional', ['C08'], 'R-CAND', GR, ("        if reliable:  # \"S\" refers to repair by substation.\n", "        if True:  # \"S\" refers to repair by substation.\n"))
V('cand-flag-not-cleared', ['C08'], 'R-CAND|R-WALK', GR, ("            else:\n                reliable = False\n                break\n\n        if reliable:  # \"S\"", "            else:\n                break\n\n        if reliable:  # \"S\""))
V('cand-insert-plus1', ['C08'], 'R-CAND', GR, ("obtained_dna_sequence.insert(occur_location, a_nucleotide)", "obtained_dna_sequence.insert(occur_location + 1, a_nucleotide)"))
V('cand-delete-plus1', ['C08'], 'R-CAND', GR, ("del obtained_dna_sequence[occur_location]", "del obtained_dna_sequence[occur_location + 1]"))
V('cand-replace-minus1', ['C08'], 'R-CAND', GR, ("obtained_dna_sequence[occur_location] = r_nucleotide", "obtained_dna_sequence[occur_location - 1] = r_nucleotide"))
V('cand-S-tail-from-occur', ['C08'], 'R-CAND', GR, ("        for index, nucleotide in enumerate(dna_sequence[occur_location + 1:]):\n            used_nucleotides = [nucleotides[used_index] for used_index in where(accessor[vertex_index] >= 0)[0]]\n            if nucleotide in used_nucleotides:\n                vertex_index = accessor[vertex_index][nucleotides.index(nucleotide)]\n                visited_count += 1\n            else:\n                reliable = False\n                break\n\n        if reliable:  # \"S\"",
                                                      "        for index, nucleotide in enumerate(dna_sequence[occur_location:]):\n            used_nucleotides = [nucleotides[used_index] for used_index in where(accessor[vertex_index] >= 0)[0]]\n            if nucleotide in used_nucleotides:\n                vertex_index = accessor[vertex_index][nucleotides.index(nucleotide)]\n                visited_count += 1\n            else:\n                reliable = False\n                break\n\n        if reliable:  # \"S\""))
V('cand-I-tail-plus1', ['C08'], 'R-CAND', GR, ("            for nucleotide in dna_sequence[occur_location:]:", "            for nucleotide in dna_sequence[occur_location + 1:]:"))
V('cand-tail-no-membership', ['C08'], 'R-WALK', GR, ("            for nucleotide in dna_sequence[occur_location:]:\n                used_nucleotides = [nucleotides[used_index] for used_index in where(accessor[vertex_index] >= 0)[0]]\n                if nucleotide in used_nucleotides:",
                                                      "            for nucleotide in dna_sequence[occur_location:]:\n                used_nucleotides = [nucleotides[used_index] for used_index in where(accessor[vertex_index] >= 0)[0]]\n                if nucleotide in nucleotides:"))

# ---------------------------------------------------------------- R-RET
V('ret-fallback-unconditional', ['C09'], 'R-RET', SW, ("        if vt_check is not None:\n            if vt_check == set_vt(dna_sequence=dna_sequence, vt_length=len(vt_check)):\n                return [dna_sequence], (0, False, 0, visited_times)\n            else:\n                return [], (0, True, 0, visited_times)\n        else:\n            return [dna_sequence], (0, False, 0, visited_times)",
                                                        "        return [dna_sequence], (0, False, 0, visited_times)"))
V('ret-not-sorted', ['C09', 'C20'], 'R-RET|R-STATE', SW, ("    return sorted(list(repaired_results)), (detected_count", "    return list(repaired_results), (detected_count"))
V('ret-add-before-compare', ['C09'], 'R-RET', SW, ("        if vt_check is not None:\n            if vt_check == set_vt(dna_sequence=repaired_dna_sequence, vt_length=len(vt_check)):\n                repaired_results.add(repaired_dna_sequence)\n            else:\n                chuck_flag = True\n        else:\n            repaired_results.add(repaired_dna_sequence)",
                                                     "        repaired_results.add(repaired_dna_sequence)\n        if vt_check is not None:\n            if vt_check != set_vt(dna_sequence=repaired_dna_sequence, vt_length=len(vt_check)):\n                chuck_flag = True"))
V('ret-check-other-strand', ['C09'], 'R-RET', SW, ("            if vt_check == set_vt(dna_sequence=repaired_dna_sequence, vt_length=len(vt_check)):", "            if vt_check == set_vt(dna_sequence=dna_sequence, vt_length=len(vt_check)):"))
V('ret-check-len-minus1', ['C09'], 'R-RET', SW, ("            if vt_check == set_vt(dna_sequence=repaired_dna_sequence, vt_length=len(vt_check)):", "            if vt_check[1:] == set_vt(dna_sequence=repaired_dna_sequence, vt_length=len(vt_check) - 1):"))
V('ret-results-list', ['C09'], 'R-RET', SW, ("    repaired_results, count = set(), 1", "    repaired_results, count = [], 1"), ("                repaired_results.add(repaired_dna_sequence)\n            else:\n                chuck_flag", "                repaired_results.append(repaired_dna_sequence)\n            else:\n                chuck_flag"),
  ("        else:\n            repaired_results.add(repaired_dna_sequence)", "        else:\n            repaired_results.append(repaired_dna_sequence)"))

# ---------------------------------------------------------------- R-PURE / R-STATE / R-VERB
V('pure-mask-in-place', ['C20', 'C03'], 'R-PURE', SW, ("            new_vertices[vertex_index] = sum(vertices[latter_indices]) >= threshold\n", "            new_vertices[vertex_index] = sum(vertices[latter_indices]) >= threshold\n            if not new_vertices[vertex_index]:\n                vertices[vertex_index] = False\n"))
V('pure-latter-map-view-store', ['C20'], 'R-PURE', GR, ("        vertex = accessor[location]\n        latter_map[location] = vertex[vertex >= 0].tolist()", "        vertex = accessor[location]\n        vertex[vertex < -1] = -1\n        latter_map[location] = vertex[vertex >= 0].tolist()"))
V('pure-bit-array-store', ['C20'], 'R-PURE', OP, ("    monitor = Monitor()\n    if is_string:\n        decimal_number = \"0\"\n\n        for index, a_bit in enumerate(bit_array):", "    monitor = Monitor()\n    bit_array[0] = int(bit_array[0])\n    if is_string:\n        decimal_number = \"0\"\n\n        for index, a_bit in enumerate(bit_array):"))
V('pure-useless-in-place', ['C20', 'C03'], 'R-PURE', GR, ("                new_latter_map[former_vertex] = available_latter_vertices", "                new_latter_map[former_vertex] = available_latter_vertices\n                latter_map[former_vertex] = available_latter_vertices"))
V('pure-score-deletes-key', ['C20', 'C19'], 'R-PURE', GR, ("            del delete_branch\n", "            del delete_branch\n            if len(latter_map[current_index]) == 0:\n                del latter_map[current_index]\n"))
V('pure-capacity-column-view', ['C20'], 'R-PURE', GR, ("            for positions in accessor.T:\n                available = where(positions >= 0)", "            for positions in accessor.T:\n                positions[positions < -1] = -1\n                available = where(positions >= 0)"))
V('pure-alias-then-store', ['C20'], 'R-PURE', SW, ("    vertex_index, nucleotides, monitor = start_index, \"ACGT\", Monitor()\n", "    vertex_index, nucleotides, monitor = start_index, \"ACGT\", Monitor()\n    table = shuffles\n    if table is not None:\n        table[0].sort()\n"))
V('pure-shuffle-argument', ['C20'], 'R-PURE', SW, ("        quotient = bit_to_number(binary_message, verbose=verbose)", "        random.shuffle(binary_message)\n        quotient = bit_to_number(binary_message, verbose=verbose)"))
V('pure-filter-remembers', ['C20', 'C02'], 'R-PURE', BF, ("        if only_last:\n            observed_dna_sequence = dna_sequence[-self.observed_length:]", "        self.last_sequence = dna_sequence\n        if only_last:\n            observed_dna_sequence = dna_sequence[-self.observed_length:]"))
V('pure-matrix-augmented', ['C20'], 'R-PURE', GR, ("    for vertex_index, vertex in enumerate(matrix):\n        next_indices = where(vertex == 1)[0].tolist()", "    matrix *= 1\n    for vertex_index, vertex in enumerate(matrix):\n        next_indices = where(vertex == 1)[0].tolist()"))
V('state-memo-dict', ['C20'], 'R-STATE', GR, ("def obtain_latters(current, observed_length):", "LATTER_CACHE = {}\n\n\ndef obtain_latters(current, observed_length):"),
  ("        latters.append(latter)\n\n    return latters", "        latters.append(latter)\n\n    LATTER_CACHE[(current, observed_length)] = latters\n\n    return latters"))
V('state-mutable-default', ['C20'], 'R-STATE', GR, ("def path_matching(dna_sequence, accessor, previous_index, occur_location, has_indel=False, nucleotides=None):", "def path_matching(dna_sequence, accessor, previous_index, occur_location, has_indel=False, nucleotides=None, seen=[]):"))
V('state-rng-in-encode', ['C20'], 'R-STATE', SW, ("        quotient = bit_to_number(binary_message, verbose=verbose)", "        random.seed(len(binary_message))\n        quotient = bit_to_number(binary_message, verbose=verbose)"))
V('state-global-counter', ['C20'], 'R-STATE', OP, ("def calculus_addition(number, base):", "CALLS = 0\n\n\ndef calculus_addition(number, base):"), ("    number, base = list(number), list(base.zfill(len(number)))\n\n    result = [0 for _ in range(len(number) + 1)]", "    global CALLS\n    CALLS += 1\n    number, base = list(number), list(base.zfill(len(number)))\n\n    result = [0 for _ in range(len(number) + 1)]"))
V('state-clock-in-result', ['C20'], 'R-STATE', OP, ("def bit_to_number(bit_array, is_string=True, verbose=False):", "def bit_to_number(bit_array, is_string=True, verbose=False, started=None):"), ("    monitor = Monitor()\n    if is_string:\n        decimal_number = \"0\"", "    monitor = Monitor()\n    started = datetime.now() if started is None else started\n    if is_string:\n        decimal_number = \"0\""))
V('verb-assignment-in-region', ['C20'], 'R-VERB', SW, ("            if verbose:\n                monitor(location + 1, len(binary_message))", "            if verbose:\n                location += 0\n                monitor(location + 1, len(binary_message))"))
V('verb-state-change-in-region', ['C20'], 'R-VERB', SW, ("            if verbose:\n                monitor(location + 1, len(dna_sequence))\n\n        for location, (out_degree, number)", "            if verbose:\n                monitor(location + 1, len(dna_sequence))\n                vertex_index = int(vertex_index)\n\n        for location, (out_degree, number)"))
V('verb-monitor-outside', ['C20'], 'R-VERB', SW, ("        if verbose:\n            monitor(vertex_index + 1, len(vertices), extra={\"valid\": sum(vertices[: vertex_index + 1])})", "        monitor(vertex_index + 1, len(vertices), extra={\"valid\": sum(vertices[: vertex_index + 1])})"))
V('verb-numpy-int-to-dna', ['C20'], 'R-TYPED', SW, ("        print(\"Remove arc \" + number_to_dna(int(former), dna_length=observed_length)", "        print(\"Remove arc \" + number_to_dna(former, dna_length=observed_length)"))
V('verb-result-depends', ['C20'], 'R-VERB', GR, ("    if verbose:\n        print(\"Remove useless vertex, the out-degree of witch less than \" + str(threshold) + \".\")", "    if verbose:\n        print(\"Remove useless vertex, the out-degree of witch less than \" + str(threshold) + \".\")\n        threshold = int(threshold)"))
V('verb-passed-as-other-flag', ['C20'], 'R-VERB', SW, ("        quotient = bit_to_number(binary_message, verbose=verbose)", "        quotient = bit_to_number(binary_message, is_string=not verbose, verbose=verbose)"))

# ---------------------------------------------------------------- R-VTFORM
VT_VAL = "vt_value = int(sum(where((values[1:] - values[:-1]) > 0)[0])) % (len(nucleotides) ** (vt_length - 1))"
V('vt-ge0', ['C07'], 'R-VTFORM', SW, (VT_VAL, VT_VAL.replace(") > 0)[0])", ") >= 0)[0])")))
V('vt-lt0', ['C07'], 'R-VTFORM', SW, (VT_VAL, VT_VAL.replace(") > 0)[0])", ") < 0)[0])")))
V('vt-swapped-slices', ['C07'], 'R-VTFORM', SW, (VT_VAL, VT_VAL.replace("values[1:] - values[:-1]", "values[:-1] - values[1:]")))
V('vt-exponent-n', ['C07'], 'R-VTFORM', SW, (VT_VAL, VT_VAL.replace("** (vt_length - 1))", "** vt_length)")))
V('vt-width-n', ['C07'], 'R-VTFORM', SW, ("number_to_dna(decimal_number=int(vt_value), dna_length=vt_length - 1)", "number_to_dna(decimal_number=int(vt_value), dna_length=vt_length)"))
V('vt-positions-plus1', ['C07'], 'R-VTFORM', SW, (VT_VAL, VT_VAL.replace("> 0)[0]))", "> 0)[0] + 1))")))
V('vt-flag-mod3', ['C07'], 'R-VTFORM', SW, ("vt_flag = sum(values) % len(nucleotides)", "vt_flag = sum(values) % (len(nucleotides) - 1)"))
V('vt-flag-first-symbol', ['C07'], 'R-VTFORM', SW, ("vt_flag = sum(values) % len(nucleotides)", "vt_flag = sum(values[:1]) % len(nucleotides)"))
V('vt-no-modulus', ['C07'], 'R-VTFORM', SW, (VT_VAL, "vt_value = int(sum(where((values[1:] - values[:-1]) > 0)[0]))"))
V('vt-offset-slices', ['C07'], 'R-VTFORM', SW, (VT_VAL, VT_VAL.replace("values[1:] - values[:-1]", "values[2:] - values[:-2]")))

# ---------------------------------------------------------------- R-FILTER / GC ordering
V('filter-check-reads-full', ['C12', 'C02'], 'R-FILTER', BF, ("                if nucleotide * (1 + self.max_homopolymer_runs) in observed_dna_sequence:", "                if nucleotide * (1 + self.max_homopolymer_runs) in dna_sequence:"))
V('filter-rc-not-reversed', ['C12'], 'R-FILTER', BF, ("reverse_complement = reverse_complement[::-1].upper()", "reverse_complement = reverse_complement.upper()"))
V('filter-complement-map', ['C12'], 'R-FILTER', BF, ('.replace("G", "c")', '.replace("G", "g")'))
V('filter-run-r', ['C12', 'C02'], 'R-FILTER', BF, ("nucleotide * (1 + self.max_homopolymer_runs) in", "nucleotide * self.max_homopolymer_runs in"))
V('filter-last-window-skipped', ['C12', 'C02'], 'R-FILTER', BF, ("range(len(observed_dna_sequence) - self.observed_length + 1)", "range(len(observed_dna_sequence) - self.observed_length)"))
V('filter-window-short', ['C12', 'C02'], 'R-FILTER', BF, ("observed_dna_sequence[index: index + self.observed_length]", "observed_dna_sequence[index: index + self.observed_length - 1]"))
V('filter-at-bound-lo', ['C12'], 'R-FILTER|R-ORD', BF, ("if at_count > (1 - self.gc_range[0]) * self.observed_length:", "if at_count > self.gc_range[0] * self.observed_length:"))
V('filter-gc-upper-ge', ['C12', 'C02'], 'R-ORD', BF, ("                    if gc_count > self.gc_range[1] * self.observed_length:\n                        return False\n                    if gc_count < ", "                    if gc_count >= self.gc_range[1] * self.observed_length:\n                        return False\n                    if gc_count < "))
V('filter-gc-lower-le', ['C12', 'C02'], 'R-ORD', BF, ("                    if gc_count < self.gc_range[0] * self.observed_length:", "                    if gc_count <= self.gc_range[0] * self.observed_length:"))
V('filter-short-upper-ge', ['C12'], 'R-ORD', BF, ("                if gc_count > self.gc_range[1] * self.observed_length:\n                    return False\n                at_count", "                if gc_count >= self.gc_range[1] * self.observed_length:\n                    return False\n                at_count"))
V('filter-last-k-plus1', ['C12', 'C02'], 'R-FILTER', BF, ("observed_dna_sequence = dna_sequence[-self.observed_length:]", "observed_dna_sequence = dna_sequence[-self.observed_length - 1:]"))
V('filter-no-char-test', ['C12'], 'R-FILTER', BF, ("        for nucleotide in observed_dna_sequence:\n            if nucleotide not in \"ACGT\":\n                return False\n", ""))
V('filter-rc-dropped', ['C12'], 'R-FILTER', BF, ("                if reverse_complement in observed_dna_sequence:\n                    return False\n", ""))
V('filter-gc-counts-c-only', ['C12', 'C02'], 'R-FILTER', BF, ('gc_count = sub_dna_sequence.count("C") + sub_dna_sequence.count("G")', 'gc_count = sub_dna_sequence.count("C") + sub_dna_sequence.count("C")'))

# ---------------------------------------------------------------- R-CONV
V('conv-bit-radix3', ['C16', 'C07'], 'R-CONV', OP, ('decimal_number = calculus_multiplication(number=decimal_number, base="2")', 'decimal_number = calculus_multiplication(number=decimal_number, base="3")'))
V('conv-bit-int-radix', ['C16'], 'R-CONV', OP, ("decimal_number = decimal_number * 2 + a_bit", "decimal_number = decimal_number * 4 + a_bit"))
V('conv-dna-int-radix', ['C16', 'C13'], 'R-CONV', OP, ("decimal_number = decimal_number * 4 + nucleotide_value", "decimal_number = decimal_number * 2 + nucleotide_value"))
V('conv-bit-append', ['C16'], 'R-CONV', OP, ("            one_array.insert(0, int(remainder))", "            one_array.append(int(remainder))"))
V('conv-dna-append', ['C16', 'C13', 'C07'], 'R-CONV', OP, ("            one_array.insert(0, nucleotides[remainder])", "            one_array.append(nucleotides[remainder])"))
V('conv-dna-pad-right', ['C16', 'C13', 'C07'], 'R-CONV', OP, ("return nucleotides[0] * (dna_length - len(one_array)) + one_array", "return one_array + nucleotides[0] * (dna_length - len(one_array))"))
V('conv-dna-pad-symbol', ['C16', 'C13', 'C07'], 'R-CONV', OP, ("return nucleotides[0] * (dna_length - len(one_array)) + one_array", "return nucleotides[1] * (dna_length - len(one_array)) + one_array"))
V('conv-bit-pad-width', ['C16'], 'R-CONV', OP, ("return [0] * (bit_length - len(one_array)) + one_array", "return [0] * (bit_length - len(one_array) - 1) + one_array"))
V('conv-dna-div-base', ['C16', 'C13', 'C07'], 'R-CONV', OP, ("calculus_division(number=decimal_number, base=str(len(nucleotides)))", "calculus_division(number=decimal_number, base=str(len(nucleotides) - 1))"))
V('conv-dna-reversed', ['C16', 'C13'], 'R-CONV', OP, ("nucleotide_values = list(map(nucleotides.index, dna_sequence))", "nucleotide_values = list(map(nucleotides.index, dna_sequence[::-1]))"))
V('conv-dispatch-no-raise', ['C16'], 'R-CONV', OP, ("    else:\n        raise ValueError(\"No such type of decimal number (\" + str(type(decimal_number)) + \")!\")\n\n    if len(one_array) == bit_length:", "\n    if len(one_array) == bit_length:"))
V('conv-alpha-dna-to-number', ['C16', 'C13'], 'R-ALPHA', OP, ('    nucleotides = "ACGT"\n\n    nucleotide_values', '    nucleotides = "ACTG"\n\n    nucleotide_values'))

# ---------------------------------------------------------------- R-SHUF
V('shuf-column-twice', ['C18'], 'R-SHUF', SW, ("    shuffles[:, 3] = 3\n", "    shuffles[:, 3] = 2\n"))
V('shuf-seed-deleted', ['C18'], 'R-SHUF', SW, ("    random.seed(random_seed)\n\n    monitor = Monitor()", "    monitor = Monitor()"))
V('shuf-seed-after-loop', ['C18'], 'R-SHUF', SW, ("    random.seed(random_seed)\n\n    monitor = Monitor()", "    monitor = Monitor()"), ("    random.seed(None)\n\n    return shuffles", "    random.seed(random_seed)\n    random.seed(None)\n\n    return shuffles"))
V('shuf-seed-constant', ['C18'], 'R-SHUF', SW, ("    random.seed(random_seed)\n\n    monitor = Monitor()", "    random.seed(2021)\n\n    monitor = Monitor()"))
V('shuf-sorted-write-back', ['C18'], 'R-SHUF', SW, ("        shuffles[index] = card\n", "        shuffles[index] = sorted(card)\n"))
V('shuf-rows-short', ['C18'], 'R-SHUF', SW, ("    for index in range(4 ** observed_length):\n        card = shuffles[index]", "    for index in range(4 ** observed_length - 1):\n        card = shuffles[index]"))
V('shuf-shape', ['C18'], 'R-SHUF', SW, ("shuffles = zeros(shape=(4 ** observed_length, len(nucleotides)), dtype=int)", "shuffles = zeros(shape=(4 ** (observed_length - 1) * 4 + 1, len(nucleotides)), dtype=int)"))
V('shuf-argument-written', ['C18', 'C20'], 'R-PURE|R-SHUF', SW, ("def create_random_shuffles(observed_length, random_seed=None, verbose=False):", "def create_random_shuffles(observed_length, random_seed=None, verbose=False, into=None):"),
  ("    random.seed(None)\n\n    return shuffles", "    random.seed(None)\n    if into is not None:\n        into[:] = shuffles\n\n    return shuffles"))

# ---------------------------------------------------------------- R-PAIR / R-REPR
V('pair-no-cleanup', ['C19'], 'R-PAIR', SW, ("    if len(latter_map[former]) == 0:\n        del latter_map[former]\n", ""))
V('pair-second-store', ['C19'], 'R-PAIR', SW, ("    accessor[former, latter_value] = -1\n", "    accessor[former, latter_value] = -1\n    accessor[former, former_value] = -1\n"))
V('pair-deleted-wrong-element', ['C19'], 'R-PAIR', SW, ("del latter_map[former][latter_map[former].index(latter)]", "del latter_map[former][latter_value % len(latter_map[former])]"))
V('pair-score-column-index', ['C19'], 'R-PAIR', GR, ("            scores[current_index, latter_map[current_index][one] % len(nucleotides)] += score", "            scores[current_index, one] += score"))
V('pair-score-shape', ['C19'], 'R-PAIR', GR, ("    scores = zeros(shape=(len(nucleotides) ** observed_length, len(nucleotides)), dtype=int)", "    scores = zeros(shape=(len(nucleotides) ** observed_length + 1, len(nucleotides)), dtype=int)"))
V('pair-store-zero', ['C19'], 'R-PAIR', SW, ("    accessor[former, latter_value] = -1\n", "    accessor[former, latter_value] = 0\n"))
V('repr-latter-map-other-row', ['C14'], 'R-REPR', GR, ("        vertex = accessor[location]\n        latter_map[location]", "        vertex = accessor[index]\n        latter_map[location]"))
V('repr-matrix-transposed', ['C14'], 'R-REPR', GR, ("        matrix[vertex_index][vertex[vertex >= 0]] = 1", "        matrix[vertex[vertex >= 0], vertex_index] = 1"))

# ---------------------------------------------------------------- R-MSG / R-TIGHT
V('msg-variant-drops-last-bit', ['C01', 'C05', 'C04'], 'R-MSG', SW, ("quotient = bit_to_number(binary_message, verbose=verbose)", "quotient = bit_to_number(binary_message[:-1], verbose=verbose)"))
V('msg-cursor-starts-at-1', ['C01', 'C05', 'C04'], 'R-MSG', SW, ("        location = 0\n        while location < len(binary_message):", "        location = 1\n        while location < len(binary_message):"))
V('msg-result-width', ['C01', 'C05'], 'R-MSG', SW, ("number_to_bit(decimal_number=quotient, bit_length=bit_length)", "number_to_bit(decimal_number=quotient, bit_length=bit_length + 1)"))
V('msg-fast-output-shape', ['C01', 'C05'], 'R-MSG|R-AHEAD', SW, ("message_location, binary_message = 0, zeros(shape=(bit_length,), dtype=int)", "message_location, binary_message = 0, zeros(shape=(bit_length + 1,), dtype=int)"))
V('tight-extra-disjunct', ['C04'], 'R-TIGHT', SW, ("        while quotient != \"0\":", "        while quotient != \"0\" or len(where(accessor[vertex_index] >= 0)[0]) == 1:"))
V('twin-tight-or-false', ['C04', 'C01', 'C05'], None, SW, ("        while location < len(binary_message):", "        while location < len(binary_message) or False:"), kind='benign')

# ---------------------------------------------------------------- R-RECOMB
V('recomb-last-segment-dropped', ['C09', 'C08'], 'R-RECOMB', SW, ("        repaired_dna_sequence += split_sequences[-1]\n", ""))
V('recomb-range-full', ['C09', 'C08'], 'R-RECOMB', SW, ("        for index in range(len(split_sequences) - 1):", "        for index in range(len(split_sequences) - 2):"))
V('recomb-count-from-0', ['C09', 'C08'], 'R-RECOMB', SW, ("    repaired_results, count = set(), 1", "    repaired_results, count = set(), 0"))
V('recomb-segment-wrong-symbol', ['C09', 'C08'], 'R-RECOMB', SW, ("            split_sequences[-1] += nucleotide\n", "            split_sequences[-1] += nucleotides[used_indices[0]]\n"))
V('recomb-fragment-order', ['C09', 'C08'], 'R-RECOMB', SW, ("repaired_dna_sequence += split_sequences[index] + fragments[index]", "repaired_dna_sequence += fragments[index] + split_sequences[index]"))

# ---------------------------------------------------------------- R-MAX / R-ARITY / R-KEEP / R-CASCADE
V('max-argmin-column', ['C19'], 'R-MAX', SW, ("former_value, latter_value = former % len(nucleotides), argmax(scores[former])", "former_value, latter_value = former % len(nucleotides), argmax(-scores[former])"))
V('max-row-from-nonzero', ['C19'], 'R-MAX', SW, ("vertex_indices = unique(where(scores == max(scores))[0])", "vertex_indices = unique(where(scores > 0)[0])"))
V('arity-early-return-list', ['C10'], 'R-ARITY', GR, ("    for r_nucleotide in list(filter(", "    if len(used_indices) == 0:\n        return repair_info\n\n    for r_nucleotide in list(filter("))
V('keep-no-saved-test', ['C03'], 'R-KEEP', GR, ("                    if (latter_vertex not in remove_vertices) and (latter_vertex in saved_vertices):", "                    if latter_vertex not in remove_vertices:"))
V('cascade-wrong-variable', ['C03', 'C04'], 'R-CASCADE', SW, ("new_pairs += [(i, former_index) for i in obtain_formers(former_index, observed_length)]", "new_pairs += [(i, former_index) for i in obtain_formers(latter_index, observed_length)]"))
V('fix-buffer-hoisted', ['C03', 'C04'], 'R-FIX', SW, ("    times, nucleotides = 1, \"ACGT\"\n\n    while True:", "    times, nucleotides = 1, \"ACGT\"\n    new_vertices = zeros(shape=(int(len(nucleotides) ** observed_length),), dtype=bool)\n\n    while True:"),
  ("        new_vertices, monitor = zeros(shape=(int(len(nucleotides) ** observed_length),), dtype=bool), Monitor()", "        monitor = Monitor()"))
V('fix-bounded-rounds', ['C03', 'C04'], 'R-FIX', SW, ("    times, nucleotides = 1, \"ACGT\"\n\n    while True:", "    times, nucleotides = 1, \"ACGT\"\n\n    while times <= observed_length:"))

# ---------------------------------------------------------------- benign twins (every property must stay exit 0)
ALL = ['C%02d' % i for i in range(1, 21)]
for name, fn in twins.TWINS.items():
    V2('twin-' + name, ALL, None, {rel: [fn] for rel in (SW, GR, OP, BF)}, kind='benign')
