"""CLI: /verif/check <ID> [--tier quick|thorough] [--replay <path>] [--explain]"""
import argparse
import json
import os
import sys
import time
import traceback

from .core import AnalysisError, Project
from .ctx import Ctx
from .report import Run, finish

REPO = os.environ.get('DSW_REPO', '/repo')


def analyse(prop, project, tier='quick'):
    """run the rules of one property on a project; returns (run, error or None)"""
    from . import props
    run = Run(prop, tier)
    err = None
    try:
        if prop not in props.PROPERTIES:
            raise AnalysisError("no check is built for property %s" % prop)
        ctx = Ctx(project, run)
        props.PROPERTIES[prop](ctx)
        if run.errors:
            err = ' | '.join(run.errors)
    except AnalysisError as e:
        err = str(e)
    except RecursionError as e:
        err = "analyser recursion limit: %s" % e
    except Exception as e:  # analyser bug: never a violation
        err = "analyser failure %s: %s | %s" % (type(e).__name__, e,
                                                traceback.format_exc().strip().splitlines()[-3:])
    return run, err


def main(argv=None):
    ap = argparse.ArgumentParser()
    ap.add_argument('prop')
    ap.add_argument('--tier', default=os.environ.get('VERIF_TIER', 'quick'), choices=['quick', 'thorough'])
    ap.add_argument('--replay')
    ap.add_argument('--explain', action='store_true')
    ap.add_argument('--repo', default=REPO)
    ap.add_argument('--no-write', action='store_true', help='do not write evidence / replay files (dev runs on scratch copies)')
    a = ap.parse_args(argv)
    seed = int(os.environ.get('VERIF_SEED', '0') or 0)
    sys.setrecursionlimit(10000)
    project = None
    try:
        project = Project(a.repo)
    except AnalysisError as e:
        run = Run(a.prop, a.tier)
        code, _ = finish(run, None, error=str(e), seed=seed)
        return code
    run, err = analyse(a.prop, project, a.tier)
    only = None
    if a.replay:
        with open(a.replay, encoding='utf-8') as fh:
            rp = json.load(fh)
        only = rp['obligation']['key']
        print("replaying obligation %s (recorded at %s)" % (only, rp['obligation'].get('where')))
        for o in run.obs:
            if o.key == only:
                print("  now: %s at %s %s" % (o.verdict, o.where, o.detail))
        code, _ = finish(run, project, error=err, seed=seed, write=False, only_key=only)
        return code
    selftest = None
    if a.tier == 'thorough' and err is None:
        from . import selftest as st
        selftest, st_err = st.run_selftest(a.prop, a.repo)
        if st_err:
            err = st_err
    if a.explain:
        for o in run.obs:
            print("%-9s %-8s %-55s %-40s %s" % (o.verdict, o.rule, o.func, o.role, o.where))
    code, _ = finish(run, project, error=err, seed=seed, selftest=selftest, write=not a.no_write)
    return code


if __name__ == '__main__':
    sys.exit(main())
