"""E3: role / kind inference on terms.  Flow-insensitive on names, seeded from the public parameter
names that the test-suite and the documentation pin (accessor, vertices, latter_map, shuffles, ...).
"""
import ast

from .core import AnalysisError, TermBuilder, call_arg, call_name, is_call, walk_term, children
from .finite import UNKNOWN, feval

ALPHA = 'ACGT'
WHERE_LIKE = ('numpy.where', 'numpy.nonzero', 'numpy.argwhere')
FLAT_WHERE = ('numpy.flatnonzero',)


def is_four(t):
    """the constant 4 (len("ACGT") is already folded)"""
    return t == ('c', 4)


def acc_alloc(t):
    """-ones(shape=(R, 4), ...) | full((R, 4), -1) | ones(..)*-1 | zeros(..)-1  -> rows term, else None"""
    inner = None
    if t[0] == 'un' and t[1] == '-' and is_call(t[2], 'numpy.ones'):
        inner = t[2]
    elif t[0] == 'bin' and t[1] == '*' and ((is_call(t[2], 'numpy.ones') and t[3] == ('c', -1)) or
                                            (is_call(t[3], 'numpy.ones') and t[2] == ('c', -1))):
        inner = t[2] if is_call(t[2], 'numpy.ones') else t[3]
    elif t[0] == 'bin' and t[1] == '-' and is_call(t[2], 'numpy.zeros') and t[3] == ('c', 1):
        inner = t[2]
    elif is_call(t, 'numpy.full') and call_arg(t, 1, 'fill_value') == ('c', -1):
        inner = t
    if inner is None:
        return None
    shape = call_arg(inner, 0, 'shape')
    if shape is not None and shape[0] in ('tuple', 'list') and len(shape) == 3 and is_four(shape[2]):
        return shape[1]
    return None


class Kinds:
    def __init__(self, project):
        self.p = project
        self.ret = {}           # fq -> 'ACC' | {pos: 'ACC'}
        self._names = {}
        self._rows = {}         # fq -> names of arrays that hold walk states (entries of the accessor, -1 = none)
        for _ in range(3):
            self._names = {}
            for fq, f in project.funcs.items():
                self._summarise(fq, f.build())

    # ------------------------------------------------------------------ name kinds
    def acc_names(self, f):
        if f.fq in self._names:
            return self._names[f.fq]
        names = set()
        if 'accessor' in f.params:
            names.add('accessor')
        self._names[f.fq] = names
        self._rows.setdefault(f.fq, set())
        changed = True
        while changed:
            changed = False
            for d in f.defs:
                if d.name in names or d.kind not in ('assign',):
                    continue
                t = TermBuilder(f, d.node).def_term(d.id)
                if t is not None and self.kind(t, f) == 'ACC':
                    names.add(d.name)
                    changed = True
        return names

    def row_names(self, f):
        """arrays / lists that receive accessor entries (walk states) by subscript store, and lists of slices of those"""
        if f.fq in self._rows and self._rows[f.fq] is not None and getattr(self, '_rows_done', {}).get(f.fq):
            return self._rows[f.fq]
        self.acc_names(f)
        rows = self._rows.setdefault(f.fq, set())
        done = getattr(self, '_rows_done', None)
        if done is None:
            done = self._rows_done = {}
        done[f.fq] = True
        import ast as _ast
        for nd in f.nodes:
            for d in nd.defs:
                if d.kind == 'mutate' and isinstance(d.extra, _ast.Subscript) and isinstance(nd.stmt, _ast.Assign) and d.value is not None:
                    try:
                        v = f.term(nd.stmt.value, nd)
                    except AnalysisError:
                        continue
                    if self.kind(v, f) == 'ENTRY' and d.name not in self.acc_names(f):
                        rows.add(d.name)
        # lists that collect slices of such arrays: their elements are rows
        lists = self._names[f.fq]
        for nd in f.nodes:
            for d in nd.defs:
                if d.kind == 'mutate' and isinstance(d.extra, _ast.Attribute) and d.extra.attr == 'append' and d.value is not None:
                    t = f.term(d.value, nd)
                    arg = t[2][0] if t[0] == 'call' and t[2] else None
                    if arg is not None and arg[0] == 'sub' and arg[1][0] == 'v' and arg[1][1] in rows and arg[2][0] == 'slice':
                        lists.add(d.name)
        return rows

    def param_kind(self, f, pname):
        """a parameter that receives walk states (accessor entries, -1 = none) at every call site inside the package is an
        entry: tests on it are liveness tests"""
        memo = self.__dict__.setdefault('_pk', {})
        busy = self.__dict__.setdefault('_pk_busy', set())
        key = (f.fq, pname)
        if key in memo:
            return memo[key]
        if key in busy:
            return None
        busy.add(key)
        try:
            return self._param_kind(f, pname, memo, key)
        finally:
            busy.discard(key)

    def _param_kind(self, f, pname, memo, key):
        ctx = getattr(self, 'ctx', None)
        if ctx is None or f.name in getattr(self.p, 'exports', {}) and False:
            return None
        try:
            sites = ctx.param_arg_terms(f, pname)
        except Exception:
            sites = []
        kinds = set()
        for caller, nd, t in sites:
            kinds.add(self.kind(t, caller))
        if sites and kinds == {'ENTRY'}:
            memo[key] = 'ENTRY'          # only positive answers are kept: the array kinds of the callers may not be known yet
            return 'ENTRY'
        return None

    def _summarise(self, fq, f):
        res = None
        for nd in f.stmts(ast.Return):
            if nd.stmt.value is None:
                continue
            t = f.term(nd.stmt.value, nd)
            if self.kind(t, f) == 'ACC':
                res = 'ACC'
            elif t[0] == 'tuple':
                pos = {i: 'ACC' for i, x in enumerate(t[1:]) if self.kind(x, f) == 'ACC'}
                if pos:
                    res = pos
        if res is not None:
            self.ret[fq] = res

    # ------------------------------------------------------------------ term kinds
    def kind(self, t, f):
        """'ACC' | 'ACCT' | 'ROW' | 'COL' | 'ENTRY' | None"""
        k = t[0]
        if k == 'v':
            if t[1] in self.acc_names(f):
                return 'ACC'
            if t[1] in self._rows.get(f.fq, ()):
                return 'ROW'
            if t[2] == 'P':
                return self.param_kind(f, t[1])
            return None
        if acc_alloc(t) is not None:
            return 'ACC'
        if k == 'call':
            q = call_name(t)
            if q:
                fn = self.p.resolve_func(q)
                if fn is not None and self.ret.get(fn.fq) == 'ACC':
                    return 'ACC'
                if q in ('numpy.array', 'numpy.asarray', 'numpy.copy') and t[2] and self.kind(t[2][0], f) == 'ACC':
                    return 'ACC'
            # the largest / smallest entry of a row is an entry: a test on it is a liveness test of the whole row
            if q in ('numpy.max', 'numpy.min', 'numpy.amax', 'numpy.amin', 'builtins.max', 'builtins.min') and len(t[2]) == 1 \
                    and not t[3] and self.kind(t[2][0], f) in ('ROW', 'COL'):
                return 'ENTRY'
            if t[1][0] == 'attr' and t[1][2] in ('max', 'min') and not t[2] and self.kind(t[1][1], f) in ('ROW', 'COL'):
                return 'ENTRY'
            if t[1][0] == 'attr' and t[1][2] in ('copy', 'view') and self.kind(t[1][1], f) == 'ACC':
                return 'ACC'
            if t[1][0] == 'attr' and t[1][2] in ('tolist', 'copy') and self.kind(t[1][1], f) in ('ROW', 'COL'):
                return self.kind(t[1][1], f)
            return None
        if k == 'item':
            src = t[1]
            q = call_name(src) if src[0] == 'call' else None
            if q:
                fn = self.p.resolve_func(q)
                if fn is not None and isinstance(self.ret.get(fn.fq), dict) and self.ret[fn.fq].get(t[2]) == 'ACC':
                    return 'ACC'
            return None
        if k == 'attr' and t[2] == 'T':
            return 'ACCT' if self.kind(t[1], f) == 'ACC' else None
        if k == 'sub':
            bk = self.kind(t[1], f)
            idx = t[2]
            if bk == 'ACC':
                if idx[0] == 'slice':
                    return 'ACC'
                if idx[0] == 'tuple':
                    # a[:, j] is a column, a[i, :] a row
                    if len(idx) == 3 and idx[1][0] == 'slice' and idx[2][0] != 'slice':
                        return 'COL'
                    if len(idx) == 3 and idx[2][0] == 'slice':
                        return 'ROW'
                    return None
                return 'ROW'
            if bk == 'ACCT':
                return 'COL' if idx[0] != 'slice' else 'ACCT'
            if bk in ('ROW', 'COL'):
                if idx[0] == 'slice':
                    return bk
                # fancy / boolean selection keeps "a bag of entries"; a scalar index gives one entry
                if idx[0] in ('cmp',) or is_call(idx, *WHERE_LIKE) or is_call(idx, *FLAT_WHERE):
                    return bk
                if idx[0] == 'sub' and is_call(idx[1], *WHERE_LIKE):
                    return bk
                return 'ENTRY'
            return None
        if k == 'iter':
            bk = self.kind(t[1], f)
            if bk == 'ACC':
                return 'ROW'
            if bk == 'ACCT':
                return 'COL'
            if bk in ('ROW', 'COL'):
                return 'ENTRY'
            return None
        return None

    # ------------------------------------------------------------------ live sets
    def live_set(self, t, f):
        """LIVE(S): where(ACC[S] <pred>)[0] and friends -> (acc, state, pred cmp, row) or None"""
        pred = None
        # the same positions as a list / tuple / int array
        while True:
            if t[0] == 'call' and t[1][0] == 'attr' and t[1][2] in ('tolist', 'copy') and not t[2]:
                t = t[1][1]
            elif t[0] == 'call' and t[1][0] == 'attr' and t[1][2] == 'astype' and t[2] == (('g', 'builtins.int'),):
                t = t[1][1]
            elif is_call(t, 'builtins.list', 'builtins.tuple') and len(t[2]) == 1 and not t[3] and t[2][0][0] != 'comp':
                t = t[2][0]
            else:
                break
        if t[0] == 'sub' and t[2] == ('c', 0) and is_call(t[1], *WHERE_LIKE) and len(t[1][2]) == 1:
            pred = t[1][2][0]
        elif t[0] == 'sub' and t[2] == ('c', 0) and t[1][0] == 'call' and t[1][1][0] == 'attr' and t[1][1][2] == 'nonzero' \
                and not t[1][2]:
            pred = t[1][1][1]           # (pred).nonzero()[0] / asarray(pred).nonzero()[0]
            if is_call(pred, 'numpy.asarray', 'numpy.array') and len(pred[2]) == 1:
                pred = pred[2][0]
        elif is_call(t, *FLAT_WHERE) and len(t[2]) == 1:
            pred = t[2][0]
        elif t[0] == 'comp' and t[1] == 'list' and len(t[3]) == 1:
            it, conds = t[3][0]
            if is_call(it, 'builtins.range') and it[2] and is_four(it[2][-1]) and len(conds) == 1 \
                    and t[2][0] == 'iter' and t[2][1] == it:
                c = conds[0]
                # ACC[S][i] <pred> with i the bound variable: rewrite to the row form
                if c[0] == 'cmp':
                    for a, b in ((2, 3), (3, 2)):
                        x = c[a]
                        if x[0] == 'sub' and x[2] == t[2] and self.kind(x[1], f) == 'ROW':
                            lst = list(c)
                            lst[a] = x[1]
                            pred = tuple(lst)
        if pred is None:
            return None
        row = self.row_of_pred(pred, f)
        if row is None or row[0] != 'sub':
            return None
        return row[1], row[2], pred, row

    def row_of_pred(self, pred, f):
        """the ROW/COL/ENTRY/ACC side of a liveness predicate term, else None"""
        if pred[0] == 'cmp':
            for side in (pred[2], pred[3]):
                if side[0] == 'call' and side[1][0] == 'g' and side[1][1] in ('numpy.max', 'numpy.amax') and side[2] \
                        and self.kind(side[2][0], f) in ('ACC', 'ROW') and any(k == 'axis' for k, _ in side[3]):
                    return side
                if self.kind(side, f) in ('ACC', 'ROW', 'COL', 'ENTRY', 'ACCT'):
                    return side
                if side[0] == 'bin' and side[1] in ('+', '-') and side[3][0] == 'c' and \
                        self.kind(side[2], f) in ('ACC', 'ROW', 'COL', 'ENTRY', 'ACCT'):
                    return side[2]
        if pred[0] == 'call' and pred[1][0] == 'attr' and pred[1][2] == 'astype' and \
                pred[2] and pred[2][0] == ('g', 'builtins.bool'):
            inner = pred[1][1]
            if inner[0] == 'bin' and inner[1] in ('+', '-') and inner[3][0] == 'c' and \
                    self.kind(inner[2], f) in ('ACC', 'ROW', 'COL', 'ENTRY', 'ACCT'):
                return inner[2]
        return None

    def out_degree_row(self, t, f):
        """t counts the live arcs of one row: len(where(P(row))[0]) | len(row[P(row)]) | sum(P(row)) | P(row).sum()
        -> the row term, else None"""
        if is_call(t, 'builtins.len') and len(t[2]) == 1:
            x = t[2][0]
            if x[0] == 'sub' and x[2] == ('c', 0) and is_call(x[1], *WHERE_LIKE) and x[1][2]:
                return self.row_of_pred(x[1][2][0], f)
            if is_call(x, *FLAT_WHERE) and x[2]:
                return self.row_of_pred(x[2][0], f)
            if x[0] == 'sub' and x[2][0] == 'cmp':
                row = self.row_of_pred(x[2], f)
                return row if row is not None and row == x[1] else None
        if is_call(t, 'numpy.sum', 'builtins.sum', 'numpy.count_nonzero') and len(t[2]) == 1:
            return self.row_of_pred(t[2][0], f)
        return None

    def live_table(self, pred, f):
        """truth table of a liveness predicate on the entry classes (-1, 0, positive)"""
        row = self.row_of_pred(pred, f)
        if row is None:
            return None
        out = []
        for val in (-1, 0, 7):
            out.append(feval(pred, lambda x, val=val: val if x == row else UNKNOWN))
        return tuple(out)

    def live_letters(self, t, f):
        """[ALPHA[i] for i in LIVE(S)] -> the LIVE term, else None"""
        if t[0] == 'comp' and t[1] == 'list' and len(t[3]) == 1 and not t[3][0][1]:
            it = t[3][0][0]
            elt = t[2]
            if elt[0] == 'sub' and (elt[1] == ('c', ALPHA) or (elt[1][0] == 'v' and elt[1][1] == 'nucleotides')) \
                    and elt[2][0] == 'iter' and elt[2][1] == it:
                if self.live_set(it, f) is not None:
                    return it
        return None


def find_k_term(f):
    """the observed length in scope of function f: the parameter, or int(log(len(X))/log(4))"""
    f.build()
    if 'observed_length' in f.params:
        return ('v', 'observed_length', 'P')
    for d in f.defs:
        if d.kind == 'assign' and d.value is not None:
            t = TermBuilder(f, d.node).def_term(d.id)
            if t is not None and is_k_derivation(t):
                return t
    return None


def is_k_derivation(t):
    if is_call(t, 'builtins.int') and len(t[2]) == 1:
        x = t[2][0]
        if x[0] == 'bin' and x[1] == '/' and is_call(x[2], 'numpy.log', 'math.log') and \
                is_call(x[3], 'numpy.log', 'math.log') and x[3][2] and is_four(x[3][2][0]):
            inner = x[2][2][0] if x[2][2] else None
            if inner is not None and is_call(inner, 'builtins.len'):
                return True
    return False
