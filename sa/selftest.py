"""Self-validation of the checker (thorough tier): breaking variants must be reported by the named rule,
benign twins must stay silent.  Variants are analysed in overlay mode (in memory); /repo is never
written.  This measures the discriminating power of the rules on the *current* tree; it decides
nothing about /repo by itself.
"""
import ast
import concurrent.futures
import os

from .core import AnalysisError, Project
from .report import finish


def apply_text(src, old, new, occurrence=1):
    """replace the n-th occurrence of old by new; None when the locator does not find its construct"""
    pos = -1
    for _ in range(occurrence):
        pos = src.find(old, pos + 1)
        if pos < 0:
            return None
    return src[:pos] + new + src[pos + len(old):]


def variant_overlay(repo, var):
    """build the overlay dict for a variant, or None if inapplicable"""
    overlay = {}
    for rel, edits in var['edits'].items():
        path = os.path.join(repo, rel)
        with open(path, encoding='utf-8') as fh:
            src = fh.read()
        for e in edits:
            if callable(e):
                src = e(src)
            else:
                old, new = e[0], e[1]
                occ = e[2] if len(e) > 2 else 1
                src = apply_text(src, old, new, occ)
            if src is None:
                return None
        try:
            ast.parse(src)
        except SyntaxError:
            return None
        overlay[rel] = src
    return overlay


def run_variant(prop, repo, var):
    """-> (status, code, lines) status in applied / inapplicable"""
    from .main import analyse
    try:
        overlay = variant_overlay(repo, var)
    except Exception as e:  # a transformer that no longer fits the tree
        return 'inapplicable', None, [str(e)]
    if overlay is None:
        return 'inapplicable', None, []
    try:
        project = Project(repo, overlay=overlay)
    except AnalysisError as e:
        return 'applied', 2, [str(e)]
    run, err = analyse(prop, project, 'quick')
    code, lines = finish(run, project, error=err, write=False, quiet=True)
    return 'applied', code, lines


def apply_unified_diff(repo, diff_text):
    """apply a unified diff in memory -> {relpath: new source} or None when a hunk does not match"""
    import re
    files, cur = {}, None
    lines = diff_text.splitlines()
    i = 0
    while i < len(lines):
        l = lines[i]
        if l.startswith('+++ '):
            rel = l[4:].strip()
            rel = rel[2:] if rel.startswith('b/') else rel
            cur = rel
            files[cur] = []
        elif l.startswith('@@') and cur is not None:
            m = re.match(r'@@ -(\d+)(?:,(\d+))? \+(\d+)(?:,(\d+))? @@', l)
            if not m:
                return None
            hunk = {'start': int(m.group(1)), 'lines': []}
            i += 1
            while i < len(lines) and not lines[i].startswith('@@') and not lines[i].startswith('diff ') \
                    and not lines[i].startswith('--- '):
                if lines[i].startswith('\\'):
                    i += 1
                    continue
                hunk['lines'].append(lines[i])
                i += 1
            files[cur].append(hunk)
            continue
        i += 1
    out = {}
    for rel, hunks in files.items():
        path = os.path.join(repo, rel)
        if not os.path.exists(path):
            return None
        with open(path, encoding='utf-8') as fh:
            src = fh.read().split('\n')
        offset = 0
        for h in hunks:
            old = [x[1:] for x in h['lines'] if x[:1] in (' ', '-') or x == '']
            new = [x[1:] for x in h['lines'] if x[:1] in (' ', '+') or x == '']
            pos = h['start'] - 1 + offset
            # tolerate drift: search near the recorded position
            found = None
            for d in sorted(range(-60, 61), key=abs):
                p = pos + d
                if 0 <= p and src[p:p + len(old)] == old:
                    found = p
                    break
            if found is None:
                return None
            src[found:found + len(old)] = new
            offset += len(new) - len(old) + (found - pos)
        out[rel] = '\n'.join(src)
    return out


def seeded_changes(prop):
    """(id, overlay-or-None, expected) for the independently seeded changes written against this property"""
    import json
    from .report import VERIF
    root = os.path.join(VERIF, 'seeded')
    res = []
    if not os.path.isdir(root):
        return res
    for sid in sorted(os.listdir(root)):
        d = os.path.join(root, sid)
        if not os.path.isdir(d) or not sid.startswith(prop + '-'):
            continue
        try:
            meta = json.load(open(os.path.join(d, 'meta.json')))
            diff = open(os.path.join(d, 'patch.diff'), encoding='utf-8').read()
        except Exception:
            continue
        res.append((sid, diff, meta.get('expected_own_check', 'detected')))
    return res


def benign_changes():
    from .report import VERIF
    root = os.path.join(VERIF, 'benign')
    out = []
    if os.path.isdir(root):
        for bid in sorted(os.listdir(root)):
            p = os.path.join(root, bid, 'patch.diff')
            if os.path.exists(p):
                out.append((bid, open(p, encoding='utf-8').read()))
    return out


def _seed_job(args):
    prop, repo, sid, diff = args
    from .main import analyse
    try:
        overlay = apply_unified_diff(repo, diff)
    except Exception:
        overlay = None
    if overlay is None:
        return sid, 'inapplicable', None
    try:
        project = Project(repo, overlay=overlay)
    except AnalysisError:
        return sid, 'applied', 2
    run, err = analyse(prop, project, 'quick')
    code, lines = finish(run, project, error=err, write=False, quiet=True)
    return sid, 'applied', code


def _job(args):
    prop, repo, vid = args
    from .variants import VARIANTS
    var = VARIANTS[vid]
    status, code, lines = run_variant(prop, repo, var)
    return vid, status, code, lines


def run_selftest(prop, repo, jobs=None):
    from .variants import VARIANTS
    mine = [vid for vid, v in VARIANTS.items() if prop in v['props']]
    res = {'applied': 0, 'detected': 0, 'missed': [], 'inapplicable': [], 'benign_applied': 0, 'benign_ok': 0,
           'benign_flagged': [], 'undecided_on_breaking': [], 'wrong_rule': []}
    if not mine:
        return res, None
    jobs = jobs or min(16, os.cpu_count() or 4)
    with concurrent.futures.ProcessPoolExecutor(max_workers=jobs) as ex:
        results = list(ex.map(_job, [(prop, repo, vid) for vid in mine], chunksize=2))
    try:
        import json as _json
        survives = _json.load(open(os.path.join(os.path.dirname(os.path.abspath(__file__)), 'variants_vs_tests.json')))
    except Exception:
        survives = {}
    res['applied_that_keep_the_pinned_suite_green'] = 0
    res['detected_that_keep_the_pinned_suite_green'] = 0
    for vid, status, code, lines in results:
        v = VARIANTS[vid]
        if status != 'inapplicable' and v['kind'] != 'benign' and survives.get(vid) == 'tests-pass':
            res['applied_that_keep_the_pinned_suite_green'] += 1
            if code == 1:
                res['detected_that_keep_the_pinned_suite_green'] += 1
        if status == 'inapplicable':
            res['inapplicable'].append(vid)
            continue
        if v['kind'] == 'benign':
            res['benign_applied'] += 1
            if code == 0:
                res['benign_ok'] += 1
            else:
                res['benign_flagged'].append({'variant': vid, 'exit': code, 'report': lines[:4]})
            continue
        res['applied'] += 1
        if code == 1:
            res['detected'] += 1
            rule = v.get('rule')
            if rule and not any(('rule=' + r) in l for l in lines for r in rule.split('|')):
                res['wrong_rule'].append({'variant': vid, 'expected_rule': rule})
        elif code == 2:
            res['undecided_on_breaking'].append(vid)
        else:
            res['missed'].append(vid)
    # independently seeded changes written against this property (see /verif/seeded/MATRIX.md)
    seeds = seeded_changes(prop)
    res['seeded_applied'], res['seeded_detected'], res['seeded_missed'], res['seeded_known_misses'] = 0, 0, [], []
    res['seeded_inapplicable'] = []
    if seeds:
        with concurrent.futures.ProcessPoolExecutor(max_workers=jobs) as ex:
            sres = list(ex.map(_seed_job, [(prop, repo, sid, diff) for sid, diff, exp in seeds]))
        expected = {sid: exp for sid, diff, exp in seeds}
        for sid, status, code in sres:
            if status == 'inapplicable':
                res['seeded_inapplicable'].append(sid)
                continue
            res['seeded_applied'] += 1
            if code == 1:
                res['seeded_detected'] += 1
            elif expected.get(sid) != 'detected':
                res['seeded_known_misses'].append(sid)
            else:
                res['seeded_missed'].append({'seeded': sid, 'exit': code})
    # independently written behaviour-preserving refactorings (/verif/benign): none may be reported
    bens = benign_changes()
    res['refactorings_applied'] = res['refactorings_silent'] = res['refactorings_undecided'] = 0
    res['refactorings_flagged'] = []
    res['refactorings_inapplicable'] = []
    if bens:
        with concurrent.futures.ProcessPoolExecutor(max_workers=jobs) as ex:
            bres = list(ex.map(_seed_job, [(prop, repo, bid, diff) for bid, diff in bens]))
        for bid, status, code in bres:
            if status == 'inapplicable':
                res['refactorings_inapplicable'].append(bid)
                continue
            res['refactorings_applied'] += 1
            if code == 0:
                res['refactorings_silent'] += 1
            elif code == 2:
                res['refactorings_undecided'] += 1
            else:
                res['refactorings_flagged'].append(bid)
    err = None
    if res.get('refactorings_flagged'):
        err = "self-validation: behaviour-preserving refactoring(s) reported: %s" % res['refactorings_flagged']
    elif res.get('seeded_missed'):
        err = "self-validation: seeded change(s) no longer reported: %s" % [x['seeded'] for x in res['seeded_missed']]
    elif res['benign_flagged']:
        err = "self-validation: benign twin(s) reported: %s" % [b['variant'] for b in res['benign_flagged']]
    elif res['applied'] and not res['detected']:
        err = "self-validation: none of the %d applicable breaking variants was detected" % res['applied']
    return res, err
