"""Self-validation of the checker (thorough tier): breaking variants must be reported by the named rule,
benign twins must stay silent.  Variants are analysed in overlay mode (in memory); /repo is never
written.  This measures the discriminating power of the rules on the *current* tree; it decides
nothing about /repo by itself.
"""
import ast
import concurrent.futures
import os

from .core import AnalysisError, Project
from .report import finish


def apply_text(src, old, new, occurrence=1):
    """replace the n-th occurrence of old by new; None when the locator does not find its construct"""
    pos = -1
    for _ in range(occurrence):
        pos = src.find(old, pos + 1)
        if pos < 0:
            return None
    return src[:pos] + new + src[pos + len(old):]


def variant_overlay(repo, var):
    """build the overlay dict for a variant, or None if inapplicable"""
    overlay = {}
    for rel, edits in var['edits'].items():
        path = os.path.join(repo, rel)
        with open(path, encoding='utf-8') as fh:
            src = fh.read()
        for e in edits:
            if callable(e):
                src = e(src)
            else:
                old, new = e[0], e[1]
                occ = e[2] if len(e) > 2 else 1
                src = apply_text(src, old, new, occ)
            if src is None:
                return None
        try:
            ast.parse(src)
        except SyntaxError:
            return None
        overlay[rel] = src
    return overlay


def run_variant(prop, repo, var):
    """-> (status, code, lines) status in applied / inapplicable"""
    from .main import analyse
    try:
        overlay = variant_overlay(repo, var)
    except Exception as e:  # a transformer that no longer fits the tree
        return 'inapplicable', None, [str(e)]
    if overlay is None:
        return 'inapplicable', None, []
    try:
        project = Project(repo, overlay=overlay)
    except AnalysisError as e:
        return 'applied', 2, [str(e)]
    run, err = analyse(prop, project, 'quick')
    code, lines = finish(run, project, error=err, write=False, quiet=True)
    return 'applied', code, lines


def _job(args):
    prop, repo, vid = args
    from .variants import VARIANTS
    var = VARIANTS[vid]
    status, code, lines = run_variant(prop, repo, var)
    return vid, status, code, lines


def run_selftest(prop, repo, jobs=None):
    from .variants import VARIANTS
    mine = [vid for vid, v in VARIANTS.items() if prop in v['props']]
    res = {'applied': 0, 'detected': 0, 'missed': [], 'inapplicable': [], 'benign_applied': 0, 'benign_ok': 0,
           'benign_flagged': [], 'undecided_on_breaking': [], 'wrong_rule': []}
    if not mine:
        return res, None
    jobs = jobs or min(16, os.cpu_count() or 4)
    with concurrent.futures.ProcessPoolExecutor(max_workers=jobs) as ex:
        results = list(ex.map(_job, [(prop, repo, vid) for vid in mine], chunksize=2))
    for vid, status, code, lines in results:
        v = VARIANTS[vid]
        if status == 'inapplicable':
            res['inapplicable'].append(vid)
            continue
        if v['kind'] == 'benign':
            res['benign_applied'] += 1
            if code == 0:
                res['benign_ok'] += 1
            else:
                res['benign_flagged'].append({'variant': vid, 'exit': code, 'report': lines[:4]})
            continue
        res['applied'] += 1
        if code == 1:
            res['detected'] += 1
            rule = v.get('rule')
            if rule and not any(('rule=' + r) in l for l in lines for r in rule.split('|')):
                res['wrong_rule'].append({'variant': vid, 'expected_rule': rule})
        elif code == 2:
            res['undecided_on_breaking'].append(vid)
        else:
            res['missed'].append(vid)
    err = None
    if res['benign_flagged']:
        err = "self-validation: benign twin(s) reported: %s" % [b['variant'] for b in res['benign_flagged']]
    elif res['applied'] and not res['detected']:
        err = "self-validation: none of the %d applicable breaking variants was detected" % res['applied']
    return res, err
