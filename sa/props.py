"""Property -> rules (DESIGN.md section 4)."""
from .rules import live

SW, GR, OP, BF = 'dsw.spiderweb.', 'dsw.graphized.', 'dsw.operation.', 'dsw.biofilter.'


def c05(ctx):
    fqs = ctx.closure(SW + 'encode', SW + 'decode')
    live.r_live(ctx, fqs, floor=4, what='liveness predicates in encode/decode')
    live.r_alpha(ctx, fqs, floor=2)


PROPERTIES = {
    'C05': c05,
}
