"""Property -> rules (DESIGN.md section 4)."""
from .rules import live, walk, exc

SW, GR, OP, BF = 'dsw.spiderweb.', 'dsw.graphized.', 'dsw.operation.', 'dsw.biofilter.'


def coder_common(ctx):
    fqs = ctx.closure(SW + 'encode', SW + 'decode')
    live.r_live(ctx, fqs, floor=4, what='liveness predicates in encode/decode')
    live.r_alpha(ctx, fqs, floor=2)
    walk.r_walk(ctx, [SW + 'encode', SW + 'decode'], {SW + 'encode': 2, SW + 'decode': 3})
    walk.r_deg(ctx, ['encode', 'decode'])
    walk.r_sel(ctx)
    walk.r_endian(ctx)


def c01(ctx):
    coder_common(ctx)
    walk.r_ahead(ctx)
    walk.r_vtuse(ctx)
    exc.r_typed_index(ctx, SW + 'set_vt')
    exc.r_typed_dispatch(ctx, ctx.closure(SW + 'encode', SW + 'decode'), floor=2)


def c05(ctx):
    coder_common(ctx)
    walk.r_vtuse(ctx)


def c06(ctx):
    fqs = ctx.closure(SW + 'decode')
    live.r_live(ctx, fqs, floor=2, what='liveness predicates in decode')
    live.r_alpha(ctx, fqs, floor=1)
    walk.r_walk(ctx, [SW + 'decode'], {SW + 'decode': 3})
    walk.r_deg(ctx, ['decode'])
    walk.r_vtuse(ctx)
    exc.r_exc(ctx, SW + 'decode', {'ValueError'}, floor=5)
    exc.r_typed_index(ctx, SW + 'set_vt')
    exc.r_typed_dispatch(ctx, fqs, floor=2)


PROPERTIES = {
    'C01': c01,
    'C05': c05,
    'C06': c06,
}
