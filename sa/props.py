"""Property -> rules (DESIGN.md section 4)."""
from .rules import live, walk

SW, GR, OP, BF = 'dsw.spiderweb.', 'dsw.graphized.', 'dsw.operation.', 'dsw.biofilter.'


def c05(ctx):
    fqs = ctx.closure(SW + 'encode', SW + 'decode')
    live.r_live(ctx, fqs, floor=4, what='liveness predicates in encode/decode')
    live.r_alpha(ctx, fqs, floor=2)
    walk.r_walk(ctx, [SW + 'encode', SW + 'decode'], {SW + 'encode': 2, SW + 'decode': 3})
    walk.r_deg(ctx, ['encode', 'decode'])
    walk.r_sel(ctx)
    walk.r_endian(ctx)
    walk.r_ahead(ctx)
    walk.r_vtuse(ctx)


PROPERTIES = {
    'C05': c05,
}
