"""Property -> rules (DESIGN.md section 4)."""
from .core import AnalysisError
from .rules import live as _live, walk as _walk, exc as _exc, graph as _graph, graph2 as _graph2, repair as _repair, \
    purity as _purity, misc as _misc, misc2 as _misc2


class _Guarded:
    """a rule that loses its anchor (AnalysisError) must not hide the refutations of its sibling rules:
    the error is recorded on the run, the remaining rules still execute"""

    def __init__(self, mod):
        self._mod = mod

    def __getattr__(self, name):
        fn = getattr(self._mod, name)

        def wrapper(ctx, *a, **k):
            try:
                return fn(ctx, *a, **k)
            except AnalysisError as e:
                ctx.run.errors.append(str(e))
                return None
        return wrapper


live, walk, exc, graph, graph2, repair, purity, misc, misc2 = (
    _Guarded(m) for m in (_live, _walk, _exc, _graph, _graph2, _repair, _purity, _misc, _misc2))

SW, GR, OP, BF = 'dsw.spiderweb.', 'dsw.graphized.', 'dsw.operation.', 'dsw.biofilter.'


def coder_common(ctx):
    fqs = ctx.closure(SW + 'encode', SW + 'decode')
    live.r_live(ctx, fqs, floor=4, what='liveness predicates in encode/decode')
    live.r_alpha(ctx, fqs, floor=2)
    walk.r_walk(ctx, [SW + 'encode', SW + 'decode'], {SW + 'encode': 2, SW + 'decode': 2})
    walk.r_deg(ctx, ['encode', 'decode'])
    walk.r_sel(ctx)
    walk.r_endian(ctx)
    walk.r_msg(ctx)
    walk.r_raise(ctx)


def c01(ctx):
    misc.r_vtform(ctx)
    misc2.r_conv(ctx)
    purity.r_state_closure(ctx, SW + 'encode', SW + 'decode')
    coder_common(ctx)
    walk.r_ahead(ctx)
    walk.r_vtuse(ctx)
    exc.r_typed_index(ctx, SW + 'set_vt')
    exc.r_typed_dispatch(ctx, ctx.closure(SW + 'encode', SW + 'decode'), floor=2)


def c05(ctx):
    purity.r_state_closure(ctx, SW + 'encode', SW + 'decode')
    coder_common(ctx)
    walk.r_vtuse(ctx)
    misc2.r_conv(ctx)           # the decoded value is rendered big-endian at exactly the requested width


def c06(ctx):
    purity.r_state_closure(ctx, SW + 'decode')
    fqs = ctx.closure(SW + 'decode')
    live.r_live(ctx, fqs, floor=2, what='liveness predicates in decode')
    live.r_alpha(ctx, fqs, floor=1)
    walk.r_walk(ctx, [SW + 'decode'], {SW + 'decode': 2})
    walk.r_deg(ctx, ['decode'])
    walk.r_raise(ctx, ('decode',))
    walk.r_vtuse(ctx)
    exc.r_exc(ctx, SW + 'decode', {'ValueError'}, floor=5)
    exc.r_typed_index(ctx, SW + 'set_vt')
    exc.r_typed_dispatch(ctx, fqs, floor=2)
    misc2.r_conv(ctx)           # number_to_bit returns exactly bit_length items on every arm
    misc.r_vtform(ctx)          # 'the check matches' is the documented check of the strand


def c02(ctx):
    purity.r_state_closure(ctx, SW + 'find_vertices', SW + 'connect_valid_graph', SW + 'connect_coding_graph', SW + 'encode', BF + 'LocalBioFilter.valid', BF + 'LocalBioFilter.__init__')
    graph.r_mask(ctx)
    gen = [SW + 'connect_valid_graph', SW + 'connect_coding_graph', GR + 'get_complete_accessor']
    graph2.r_arc(ctx, gen, floor=4)
    graph.r_shift(ctx, ('obtain_latters',))
    graph.r_kplumb(ctx, [SW + 'find_vertices', SW + 'connect_valid_graph', SW + 'connect_coding_graph',
                         GR + 'get_complete_accessor'], floor=6)
    live.r_live(ctx, [SW + 'encode'], floor=2)
    walk.r_walk(ctx, [SW + 'encode'], {SW + 'encode': 2})
    graph2.r_ord_ctor(ctx)
    purity.r_pure(ctx, [BF + 'LocalBioFilter.valid'], floor=1)
    # necessary conditions of sentence 2 for the built-in filter: the whole-sequence verdict is a conjunction over all windows
    misc.r_filter(ctx)


def c03(ctx):
    purity.r_state_closure(ctx, SW + 'connect_coding_graph', GR + 'latter_map_to_accessor', GR + 'remove_useless')
    exc.r_exc(ctx, SW + 'connect_coding_graph', {'ValueError'}, floor=3)
    graph.r_kplumb(ctx, [SW + 'connect_coding_graph'], floor=4)
    graph.r_shift(ctx)
    graph2.r_arc(ctx, [SW + 'connect_coding_graph'], floor=3)
    live.r_live(ctx, [SW + 'connect_coding_graph', GR + 'obtain_vertices'], floor=4)
    graph2.r_ord_threshold(ctx)
    graph2.r_fix(ctx)
    graph2.r_arb(ctx)
    graph2.r_cascade(ctx)
    graph2.r_useless_kept(ctx)
    graph2.r_verts(ctx)         # the returned vertex description lists the vertices that have arcs
    purity.r_pure(ctx, [SW + 'connect_coding_graph', GR + 'remove_useless', GR + 'latter_map_to_accessor'],
                  only_params=('vertices', 'latter_map'), floor=3)


def c11(ctx):
    purity.r_state_closure(ctx, SW + 'find_vertices', SW + 'connect_valid_graph')
    graph.r_iface(ctx)
    graph.r_mask(ctx)
    graph2.r_ord_empty(ctx, SW + 'find_vertices')
    graph2.r_ord_empty(ctx, SW + 'connect_valid_graph')
    graph2.r_arc(ctx, [SW + 'connect_valid_graph'], floor=1)
    graph.r_shift(ctx, ('obtain_latters',))
    graph.r_kplumb(ctx, [SW + 'find_vertices', SW + 'connect_valid_graph'], floor=2)
    exc.r_exc(ctx, SW + 'find_vertices', {'ValueError'}, floor=1)
    exc.r_exc(ctx, SW + 'connect_valid_graph', {'ValueError'}, floor=2)
    exc.r_typed_dispatch(ctx, [SW + 'find_vertices'], floor=1)
    purity.r_monitor(ctx)       # both functions drive the progress monitor; it is in their closure
    misc2.r_conv(ctx)           # index i is judged on number_to_dna(i, k): the rendering must be exact


def c13(ctx):
    purity.r_state_closure(ctx, GR + 'obtain_latters', GR + 'obtain_formers', GR + 'get_complete_accessor', OP + 'number_to_dna', OP + 'dna_to_number', GR + 'latter_map_to_accessor', GR + 'adjacency_matrix_to_accessor', SW + 'connect_valid_graph', SW + 'connect_coding_graph')
    graph.r_shift(ctx, with_latter=True)
    graph.r_kplumb(ctx, None, floor=11)
    graph2.r_arc(ctx, ctx.reachable(), floor=8, derived=False)
    live.r_alpha(ctx, ctx.reachable(), floor=10)
    misc2.r_conv(ctx)
    graph.r_mask(ctx)           # mask entry i is the verdict on the k-mer whose base-4 value is i


def c04(ctx):
    purity.r_state_closure(ctx, SW + 'encode', SW + 'connect_coding_graph')
    live.r_live(ctx, [SW + 'encode'], floor=2)
    walk.r_walk(ctx, [SW + 'encode'], {SW + 'encode': 2})
    walk.r_deg(ctx, ['encode'])
    walk.r_sel(ctx, only=('encode',))
    # termination of everything the encoder calls; the two coder loops themselves are decided per out-degree by R-DEG
    # (every branching step divides the variant / advances the cursor), out-degree-1 chains are graph-dependent
    repair.r_prog(ctx, SW + 'encode', skip_whiles_in=(SW + 'encode',))
    graph2.r_arb(ctx)
    graph2.r_cascade(ctx)
    graph2.r_fix(ctx)
    walk.r_loop_test(ctx)
    walk.r_msg(ctx)
    ctx.run.notes.append('termination on out-degree-1 chains depends on the generated graph (C03) and is not decided')
    graph.r_shift(ctx)           # the cascade that guarantees 'no missing out-degree' enumerates predecessors
    walk.r_raise(ctx, ('encode',))
    walk.r_ahead(ctx)            # encode is total: the look-ahead on the message cursor never leaves the message
    graph2.r_arc(ctx, [SW + 'connect_coding_graph'], floor=3)     # the returned vertex list is not stale
    misc2.r_conv(ctx)           # encode is total for every message: bit_to_number at any length, the empty message included


def c08(ctx):
    purity.r_state_closure(ctx, SW + 'repair_dna')
    fqs = [q for q in ctx.closure(SW + 'repair_dna') if not q.startswith(OP) and not q.endswith('.set_vt')]
    live.r_live(ctx, fqs, floor=3)
    walk.r_walk(ctx, fqs, {SW + 'repair_dna': 1})
    repair.r_tile(ctx)
    repair.r_cand(ctx)
    repair.r_sites(ctx)
    repair.r_recomb(ctx)
    repair.r_fallback(ctx)      # a detected error is never dropped by an early hand-back of the input
    misc.r_vtform(ctx)          # 'also when the check of w is supplied': the check repair recomputes is the documented one
    misc2.r_conv(ctx)           # ... rendered at exactly its length (set_vt -> number_to_dna)


def c09(ctx):
    repair.r_recomb(ctx)
    misc.r_vtform(ctx)          # 'reproduces that check': the check repair recomputes is the documented one
    misc2.r_conv(ctx)
    purity.r_state_closure(ctx, SW + 'repair_dna')
    repair.r_ret(ctx)
    live.r_live(ctx, [SW + 'repair_dna'], floor=1)
    walk.r_walk(ctx, [SW + 'repair_dna'], {SW + 'repair_dna': 1})


def c10(ctx):
    purity.r_state_closure(ctx, SW + 'repair_dna')
    repair.r_prog(ctx, SW + 'repair_dna')
    repair.r_heap_guard(ctx)
    repair.r_arity(ctx, SW + 'repair_dna')
    repair.r_tile_clamp(ctx)
    repair.r_tile(ctx, step_only=True)      # T7: segments and job lists in step (else IndexError in the assembly)
    exc.r_exc(ctx, SW + 'repair_dna', set(), floor=0)
    exc.r_typed_dispatch(ctx, ctx.closure(SW + 'repair_dna'), floor=1)
    exc.r_typed_index(ctx, SW + 'set_vt')
    exc.r_typed_mix(ctx, SW + 'set_vt')     # no fixed-width / arbitrary-precision mix that overflows for long checks


def c07(ctx):
    exc.r_typed_mix(ctx, SW + 'set_vt')
    purity.r_state_closure(ctx, SW + 'set_vt', SW + 'decode')
    misc.r_vtform(ctx)
    exc.r_typed_index(ctx, SW + 'set_vt')
    exc.r_typed_dispatch(ctx, [SW + 'set_vt'], floor=1)
    live.r_alpha(ctx, [SW + 'set_vt', OP + 'number_to_dna'], floor=2)
    misc2.r_conv(ctx)
    walk.r_vtuse(ctx)


def c12(ctx):
    purity.r_state_closure(ctx, BF + 'LocalBioFilter.valid', BF + 'LocalBioFilter.__init__')
    misc.r_filter(ctx)
    purity.r_pure(ctx, [BF + 'LocalBioFilter.valid'], floor=1)


def c14(ctx):
    purity.r_state_closure(ctx, GR + 'accessor_to_adjacency_matrix', GR + 'adjacency_matrix_to_accessor', GR + 'accessor_to_latter_map', GR + 'latter_map_to_accessor', GR + 'obtain_vertices', GR + 'obtain_leaf_vertices')
    conv = [GR + n for n in ('accessor_to_adjacency_matrix', 'adjacency_matrix_to_accessor', 'accessor_to_latter_map',
                             'latter_map_to_accessor', 'obtain_vertices', 'obtain_leaf_vertices')]
    live.r_live(ctx, conv, floor=5)
    graph2.r_arc(ctx, [GR + 'adjacency_matrix_to_accessor', GR + 'latter_map_to_accessor'], floor=2)
    graph.r_kplumb(ctx, [GR + 'adjacency_matrix_to_accessor'], floor=1)
    graph.r_shift(ctx, ('obtain_latters',))
    graph2.r_legal(ctx)
    graph2.r_bfs(ctx)
    graph2.r_verts(ctx)
    misc2.r_repr(ctx)
    exc.r_exc(ctx, GR + 'adjacency_matrix_to_accessor', {'ValueError'}, floor=1)


def c16(ctx):
    purity.r_state_closure(ctx, OP + 'bit_to_number', OP + 'number_to_bit', OP + 'dna_to_number', OP + 'number_to_dna')
    misc2.r_conv(ctx)
    live.r_alpha(ctx, [OP + 'dna_to_number', OP + 'number_to_dna'], floor=2)
    exc.r_typed_dispatch(ctx, ctx.reachable(), floor=5)
    # the two paths of a conversion agree on the empty / zero input too: no path raises where the other returns (the only explicit
    # error of the converters is the ValueError of the type dispatch, which typed call sites never reach)
    for fn in ('bit_to_number', 'number_to_bit', 'dna_to_number', 'number_to_dna'):
        exc.r_exc(ctx, OP + fn, {'ValueError'})


def c18(ctx):
    purity.r_state_closure(ctx, SW + 'create_random_shuffles', SW + 'encode', SW + 'decode')
    misc2.r_shuf(ctx)
    purity.r_pure(ctx, [SW + 'create_random_shuffles'], floor=1)
    purity.r_pure(ctx, [SW + 'encode', SW + 'decode'], only_params=('shuffles',), floor=2)   # the shared table is only read
    walk.r_sel(ctx)
    walk.r_walk(ctx, [SW + 'encode', SW + 'decode'], {SW + 'encode': 2, SW + 'decode': 2})    # with a table the strand still is a walk


def c19(ctx):
    misc2.r_max(ctx)
    graph2.r_bfs(ctx)            # the scores are unions of breadth-first leaf sets
    purity.r_state_closure(ctx, SW + 'remove_nasty_arc')
    misc2.r_pair(ctx)
    graph.r_shift(ctx, ('obtain_latters',), with_latter=True)
    graph.r_kplumb(ctx, [SW + 'remove_nasty_arc'], floor=3)
    live.r_live(ctx, [GR + 'obtain_vertices', SW + 'remove_nasty_arc'], floor=1)
    purity.r_pure(ctx, [GR + 'calculate_intersection_score', GR + 'obtain_leaf_vertices'], floor=2)


def c20(ctx):
    misc2.r_shuf(ctx)           # the same seed gives the same table (fresh-process equality of the randomised call)
    purity.r_pure(ctx, None, floor=100)
    purity.r_state(ctx)
    purity.r_verb(ctx, floor_funcs=10)
    purity.r_monitor(ctx)
    exc.r_typed_dispatch(ctx, ctx.reachable(), floor=5)
    graph2.r_useless_kept(ctx)  # the trimmed map shares no row object with its argument (arc removal edits rows in place)


PROPERTIES = {
    'C07': c07,
    'C12': c12,
    'C14': c14,
    'C16': c16,
    'C18': c18,
    'C19': c19,
    'C20': c20,
    'C04': c04,
    'C08': c08,
    'C09': c09,
    'C10': c10,
    'C02': c02,
    'C03': c03,
    'C11': c11,
    'C13': c13,
    'C01': c01,
    'C05': c05,
    'C06': c06,
}
