"""Repository-specific static analyser for DNASpiderWeb (package ``dsw``).

Nothing under /repo is imported or executed: every verdict is computed from the
source text through ``ast``, a statement-level CFG, reaching definitions, a small
term language and finite abstract domains.
"""
