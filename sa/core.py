"""E0-E2 + E4 base: loader, resolver, statement CFG, reaching definitions, terms.

Terms are nested tuples.  A variable occurrence is resolved through reaching
definitions (SSA-like value numbering): a name with exactly one reaching plain
definition is replaced by the term of its defining expression *evaluated at the
definition*; anything else (loop-carried, multiply defined, mutated in place,
parameter) stays a versioned symbol ``('v', name, version)``.  Two occurrences
with the same version are the same run-time value on every path.
"""
import ast
import builtins
import hashlib
import os


class AnalysisError(Exception):
    """The analyser can no longer decide (exit 2) - never a violation."""


MUTATING_METHODS = {
    'append', 'insert', 'extend', 'pop', 'remove', 'sort', 'reverse', 'clear', 'update', 'setdefault',
    'add', 'discard', 'fill', 'put', 'resize', 'popitem', 'itemset', 'setfield', 'setflags', 'partition',
    'difference_update', 'intersection_update', 'symmetric_difference_update',
}

_BUILTINS = set(dir(builtins))


# ----------------------------------------------------------------------------------------------
# loader
# ----------------------------------------------------------------------------------------------
class _DropAnnotations(ast.NodeTransformer):
    """annotations have no run-time effect on the analysed behaviour: `x: T = v` is `x = v`, a bare `x: T` binds nothing,
    parameter and return annotations are dropped (so that every rule sees one assignment form)"""

    def visit_AnnAssign(self, node):
        self.generic_visit(node)
        if node.value is None:
            return ast.copy_location(ast.Pass(), node)
        return ast.copy_location(ast.Assign(targets=[node.target], value=node.value, type_comment=None), node)

    def visit_arg(self, node):
        node.annotation = None
        return node

    def visit_FunctionDef(self, node):
        self.generic_visit(node)
        node.returns = None
        return node


class Module:
    def __init__(self, name, relpath, source):
        self.name, self.relpath, self.source = name, relpath, source
        self.sha = hashlib.sha256(source.encode()).hexdigest()
        try:
            self.tree = ast.parse(source)
        except SyntaxError as e:
            raise AnalysisError("unit does not parse: %s: %s" % (relpath, e))
        self.tree = _DropAnnotations().visit(self.tree)
        ast.fix_missing_locations(self.tree)
        self.imports = {}      # local name -> qualified name
        self.module_aliases = set()     # qualified names bound by `import X [as Y]`: X.attr is the global X.attr
        self.funcs = {}        # qualified (within module) -> Func
        self.classes = {}      # class name -> ast.ClassDef
        self.globals = {}      # module-level assigned names -> value ast

    def _scan(self):
        for st in self.tree.body:
            if isinstance(st, ast.ImportFrom):
                for a in st.names:
                    self.imports[a.asname or a.name] = (st.module or '') + '.' + a.name
            elif isinstance(st, ast.Import):
                for a in st.names:
                    self.imports[a.asname or a.name.split('.')[0]] = a.name if a.asname else a.name.split('.')[0]
                    self.module_aliases.add(a.name if a.asname else a.name.split('.')[0])
            elif isinstance(st, ast.FunctionDef):
                self.funcs[st.name] = Func(self, st, st.name, None)
            elif isinstance(st, ast.ClassDef):
                self.classes[st.name] = st
                for b in st.body:
                    if isinstance(b, ast.FunctionDef):
                        q = st.name + '.' + b.name
                        self.funcs[q] = Func(self, b, q, st)
            elif isinstance(st, ast.Assign):
                for t in st.targets:
                    if isinstance(t, ast.Name):
                        self.globals[t.id] = st.value
            elif isinstance(st, ast.AnnAssign) and isinstance(st.target, ast.Name) and st.value is not None:
                self.globals[st.target.id] = st.value

    def resolve_global(self, name):
        if name in self.funcs:
            return self.name + '.' + name
        if name in self.classes:
            return self.name + '.' + name
        if name in self.imports:
            return self.imports[name]
        if name in self.globals:
            return self.name + '.' + name
        if name in _BUILTINS:
            return 'builtins.' + name
        return '?.' + name


class Project:
    def __init__(self, root, overlay=None, package='dsw', inline=True):
        self.root, self.package = root, package
        self.modules = {}
        overlay = overlay or {}
        self._overlay, self._inline, self._pristine = overlay, inline, None
        pkgdir = os.path.join(root, package)
        names = set()
        if os.path.isdir(pkgdir):
            for fn in sorted(os.listdir(pkgdir)):
                if fn.endswith('.py'):
                    names.add(package + '/' + fn)
        for rel in overlay:
            if rel.startswith(package + '/') and rel.endswith('.py'):
                names.add(rel)
        if not names:
            raise AnalysisError("no source units found under %s" % pkgdir)
        for rel in sorted(names):
            if rel in overlay:
                src = overlay[rel]
                if src is None:
                    continue
            else:
                with open(os.path.join(root, rel), encoding='utf-8') as fh:
                    src = fh.read()
            modname = rel[:-3].replace('/', '.')
            if modname.endswith('.__init__'):
                modname = modname[:-9]
            self.modules[modname] = Module(modname, rel, src)
            self.modules[modname].project = self
        # public names (re-exported by the package __init__) are anchors; everything else is a private helper and is
        # inlined into its callers before the analysis (sa/inline.py)
        public = set()
        init = self.modules.get(package)
        if init is not None:
            for st in init.tree.body:
                if isinstance(st, ast.ImportFrom):
                    for a in st.names:
                        public.add(a.asname or a.name)
        self.inlined_calls = 0
        if public and inline:
            from .inline import inline_project
            try:
                self.inlined_calls = inline_project({m.name: m.tree for m in self.modules.values()}, public)
            except RecursionError:
                raise AnalysisError("helper inlining exceeded the recursion limit")
        for m in self.modules.values():
            m._scan()
        self.funcs = {}
        for m in self.modules.values():
            for q, f in m.funcs.items():
                self.funcs[m.name + '.' + q] = f
        # re-exports through dsw/__init__.py
        self.exports = {}
        init = self.modules.get(package)
        if init is not None:
            for local, q in init.imports.items():
                self.exports[local] = q

    def pristine(self):
        """the same sources without the normalising pre-pass (for rules about the program text as written)"""
        if not self._inline:
            return self
        if self._pristine is None:
            self._pristine = Project(self.root, self._overlay, self.package, inline=False)
        return self._pristine

    def func(self, qual, required=True):
        f = self.funcs.get(qual)
        if f is None and required:
            raise AnalysisError("anchor lost: function %s not found" % qual)
        return f

    def resolve_func(self, qualified):
        """qualified name (e.g. 'dsw.operation.number_to_dna' or 'dsw.number_to_dna') -> Func or None"""
        seen = set()
        while qualified not in self.funcs and qualified not in seen:
            seen.add(qualified)
            mod, _, name = qualified.rpartition('.')
            m = self.modules.get(mod)
            if m is not None and name in m.imports:
                qualified = m.imports[name]
            else:
                break
        return self.funcs.get(qualified)

    def units(self):
        return [{'file': m.relpath, 'sha256': m.sha, 'lines': m.source.count('\n') + 1}
                for m in self.modules.values()]


# ----------------------------------------------------------------------------------------------
# CFG
# ----------------------------------------------------------------------------------------------
class Def:
    __slots__ = ('id', 'node', 'name', 'kind', 'value', 'path', 'extra')

    def __init__(self, id, node, name, kind, value=None, path=(), extra=None):
        self.id, self.node, self.name, self.kind, self.value, self.path, self.extra = \
            id, node, name, kind, value, path, extra

    def __repr__(self):
        return 'Def(%s#%d %s@%d)' % (self.name, self.id, self.kind, self.node)


class Node:
    __slots__ = ('id', 'kind', 'ast', 'stmt', 'succ', 'pred', 'defs', 'conds', 'loops', 'lineno', 'handlers')

    def __init__(self, id, kind, ast_node, stmt, conds, loops, handlers):
        self.id, self.kind, self.ast, self.stmt = id, kind, ast_node, stmt
        self.succ, self.pred, self.defs = [], [], []
        self.conds, self.loops, self.handlers = conds, loops, handlers
        self.lineno = getattr(stmt, 'lineno', 0) if stmt is not None else 0

    def __repr__(self):
        return 'Node(%d %s L%d)' % (self.id, self.kind, self.lineno)


def always_exits(body):
    """every path through the statement list leaves it by return/raise/break/continue"""
    for st in body:
        if isinstance(st, (ast.Return, ast.Raise, ast.Break, ast.Continue)):
            return True
        if isinstance(st, ast.If) and st.orelse and always_exits(st.body) and always_exits(st.orelse):
            return True
        if isinstance(st, ast.While) and _is_true(st.test) and not _has_break(st.body):
            return True
        if isinstance(st, ast.Try):
            if st.finalbody and always_exits(st.finalbody):
                return True
            if always_exits(st.body) and all(always_exits(h.body) for h in st.handlers):
                return True
    return False


def _is_true(e):
    return isinstance(e, ast.Constant) and bool(e.value) is True


def _has_break(body):
    for st in body:
        for n in _walk_same_loop(st):
            if isinstance(n, ast.Break):
                return True
    return False


def _walk_same_loop(st):
    yield st
    if isinstance(st, (ast.For, ast.While)):
        for s in st.orelse:
            yield from _walk_same_loop(s)
        return
    for f in ('body', 'orelse', 'finalbody'):
        for s in getattr(st, f, []) or []:
            if isinstance(s, ast.AST):
                yield from _walk_same_loop(s)
    for h in getattr(st, 'handlers', []) or []:
        for s in h.body:
            yield from _walk_same_loop(s)


def target_names(t, path=()):
    """yield (name, index path, target ast) for the Name leaves of an assignment target"""
    if isinstance(t, ast.Name):
        yield t.id, path, t
    elif isinstance(t, (ast.Tuple, ast.List)):
        for i, e in enumerate(t.elts):
            yield from target_names(e, path + (i,))
    elif isinstance(t, ast.Starred):
        yield from target_names(t.value, path + ('*',))


def base_name(t):
    """x[...][...].attr -> 'x' (the root Name of a store target), else None"""
    while isinstance(t, (ast.Subscript, ast.Attribute)):
        t = t.value
    return t.id if isinstance(t, ast.Name) else None


class Func:
    def __init__(self, module, node, qual, cls):
        self.module, self.node, self.qual, self.cls = module, node, qual, cls
        self.name = node.name
        a = node.args
        self.params = [x.arg for x in a.posonlyargs + a.args] + ([a.vararg.arg] if a.vararg else []) + \
                      [x.arg for x in a.kwonlyargs] + ([a.kwarg.arg] if a.kwarg else [])
        self.positional = [x.arg for x in a.posonlyargs + a.args]
        pos = a.posonlyargs + a.args
        self.defaults = {}
        for arg, d in zip(pos[len(pos) - len(a.defaults):], a.defaults):
            self.defaults[arg.arg] = d
        for arg, d in zip(a.kwonlyargs, a.kw_defaults):
            if d is not None:
                self.defaults[arg.arg] = d
        self._built = False

    @property
    def fq(self):
        return self.module.name + '.' + self.qual

    def where(self, node_or_line):
        line = node_or_line if isinstance(node_or_line, int) else getattr(node_or_line, 'lineno', 0)
        return '%s:%d' % (self.module.relpath, line)

    # -------------------------------------------------------------------- build
    def build(self):
        if self._built:
            return self
        self._built = True
        self.nodes, self.defs = [], []
        self.stmt_node = {}       # id(ast stmt) -> node id (header node for compound statements)
        self.locals = set(self.params)
        for n in ast.walk(self.node):
            if isinstance(n, ast.Name) and isinstance(n.ctx, (ast.Store, ast.Del)):
                self.locals.add(n.id)
            elif isinstance(n, (ast.FunctionDef, ast.ClassDef)) and n is not self.node:
                self.locals.add(n.name)
            elif isinstance(n, ast.ExceptHandler) and n.name:
                self.locals.add(n.name)
            elif isinstance(n, (ast.Import, ast.ImportFrom)):
                for al in n.names:
                    self.locals.add((al.asname or al.name).split('.')[0])
        # comprehension targets are not function locals
        comp_targets = set()
        for n in ast.walk(self.node):
            if isinstance(n, (ast.ListComp, ast.SetComp, ast.DictComp, ast.GeneratorExp)):
                for g in n.generators:
                    for nm, _, _ in target_names(g.target):
                        comp_targets.add(nm)
            elif isinstance(n, ast.Lambda):
                for x in n.args.args:
                    comp_targets.add(x.arg)
        plain_store = set(self.params)
        for n in self._own_nodes():
            if isinstance(n, ast.Name) and isinstance(n.ctx, (ast.Store, ast.Del)):
                plain_store.add(n.id)
        self.locals = (self.locals - comp_targets) | plain_store
        self.globals_declared = set()
        for n in ast.walk(self.node):
            if isinstance(n, (ast.Global, ast.Nonlocal)):
                self.globals_declared.update(n.names)
        self.locals -= self.globals_declared

        self.entry = self._new('entry', None, None, (), (), ())
        self.exit = self._new('exit', None, None, (), (), ())
        self.raise_exit = self._new('raise_exit', None, None, (), (), ())
        for p in self.params:
            self._add_def(self.entry, p, 'param')
        ends = self._block(self.node.body, [self.entry.id], (), (), (), None)
        for e in ends:
            self._edge(e, self.exit.id)
        self._reaching()
        self._memo = {}
        return self

    def _own_nodes(self):
        """ast nodes of this function excluding nested comprehension/lambda scopes' targets"""
        stack = [self.node]
        while stack:
            n = stack.pop()
            yield n
            for c in ast.iter_child_nodes(n):
                if isinstance(c, (ast.ListComp, ast.SetComp, ast.DictComp, ast.GeneratorExp)):
                    # the iterables are evaluated in this scope but the targets are not ours
                    for g in c.generators:
                        stack.append(g.iter)
                    continue
                if isinstance(c, ast.Lambda):
                    continue
                if isinstance(c, (ast.FunctionDef, ast.ClassDef)) and c is not self.node:
                    continue
                stack.append(c)

    def _new(self, kind, a, stmt, conds, loops, handlers):
        n = Node(len(self.nodes), kind, a, stmt, conds, loops, handlers)
        self.nodes.append(n)
        return n

    def _edge(self, a, b):
        if b not in self.nodes[a].succ:
            self.nodes[a].succ.append(b)
            self.nodes[b].pred.append(a)

    def _add_def(self, node, name, kind, value=None, path=(), extra=None):
        d = Def(len(self.defs), node.id, name, kind, value, path, extra)
        self.defs.append(d)
        node.defs.append(d)
        return d

    def _defs_for_target(self, node, target, value, kind='assign'):
        if isinstance(target, (ast.Tuple, ast.List)) and isinstance(value, (ast.Tuple, ast.List)) \
                and len(target.elts) == len(value.elts) and kind == 'assign' \
                and not any(isinstance(e, ast.Starred) for e in target.elts + value.elts):
            for t, v in zip(target.elts, value.elts):
                self._defs_for_target(node, t, v, kind)
            return
        if isinstance(target, ast.Name) and kind == 'assign' and isinstance(value, ast.BinOp) \
                and isinstance(value.left, ast.Name) and value.left.id == target.id \
                and not any(isinstance(n, ast.Name) and n.id == target.id for n in ast.walk(value.right)):
            self._add_def(node, target.id, 'aug', value.right, (), value.op)
            return
        # x = x + a + b   (left-associated chain of additions starting at x)  is  x += a + b
        if isinstance(target, ast.Name) and kind == 'assign' and isinstance(value, ast.BinOp) and isinstance(value.op, ast.Add):
            chain, cur = [], value
            while isinstance(cur, ast.BinOp) and isinstance(cur.op, ast.Add):
                chain.append(cur.right)
                cur = cur.left
            if isinstance(cur, ast.Name) and cur.id == target.id and len(chain) >= 2 and \
                    not any(isinstance(n, ast.Name) and n.id == target.id for r in chain for n in ast.walk(r)):
                rest = chain[-1]
                for r in reversed(chain[:-1]):
                    rest = ast.copy_location(ast.BinOp(rest, ast.Add(), r), value)
                ast.fix_missing_locations(rest)
                self._add_def(node, target.id, 'aug', rest, (), ast.Add())
                return
        if isinstance(target, (ast.Name, ast.Tuple, ast.List, ast.Starred)):
            for nm, path, _ in target_names(target):
                self._add_def(node, nm, kind, value, path)
            # subscript/attribute leaves inside a tuple target mutate their base
            for sub in ast.walk(target):
                if isinstance(sub, (ast.Subscript, ast.Attribute)) and isinstance(sub.ctx, ast.Store):
                    b = base_name(sub)
                    if b:
                        self._add_def(node, b, 'mutate', value, (), sub)
        elif isinstance(target, (ast.Subscript, ast.Attribute)):
            b = base_name(target)
            if b:
                self._add_def(node, b, 'mutate', value, (), target)

    def _mutations_in_expr(self, node, expr):
        """x.append(..) / random.shuffle(x) inside an expression statement or value"""
        for c in ast.walk(expr):
            if isinstance(c, ast.Call):
                f = c.func
                if isinstance(f, ast.Attribute) and f.attr in MUTATING_METHODS:
                    b = base_name(f.value)
                    if b and b in self.locals:
                        self._add_def(node, b, 'mutate', c, (), f)
                if isinstance(f, ast.Attribute) and f.attr == 'shuffle' and c.args:
                    b = base_name(c.args[0])
                    if b and b in self.locals:
                        self._add_def(node, b, 'mutate', c, (), f)
                if isinstance(f, ast.Name) and f.id in ('shuffle', 'copyto', 'put', 'place', 'fill_diagonal') and c.args:
                    b = base_name(c.args[0])
                    if b and b in self.locals:
                        self._add_def(node, b, 'mutate', c, (), f)
            elif isinstance(c, ast.NamedExpr) and isinstance(c.target, ast.Name):
                self._add_def(node, c.target.id, 'assign', c.value)

    def _block(self, body, preds, conds, loops, handlers, loopctx):
        """returns the list of node ids that fall through the end of the block"""
        cur = list(preds)
        extra = ()
        for st in body:
            cs = conds + extra
            cur = self._stmt(st, cur, cs, loops, handlers, loopctx)
            # early-exit idiom: a sibling `if T: <always exits>` adds not-T to what follows
            if isinstance(st, ast.If):
                if always_exits(st.body) and not (st.orelse and always_exits(st.orelse)):
                    extra = extra + ((st.test, False, self.stmt_node[id(st)]),)
                elif st.orelse and always_exits(st.orelse):
                    extra = extra + ((st.test, True, self.stmt_node[id(st)]),)
        return cur

    def _stmt(self, st, preds, conds, loops, handlers, loopctx):
        def link(n):
            for p in preds:
                self._edge(p, n.id)
            # may-raise edge to every enclosing handler
            for h in handlers:
                self._edge(n.id, h)

        if isinstance(st, ast.If):
            n = self._new('test', st.test, st, conds, loops, handlers)
            self.stmt_node[id(st)] = n.id
            link(n)
            self._mutations_in_expr(n, st.test)
            t_end = self._block(st.body, [n.id], conds + ((st.test, True, n.id),), loops, handlers, loopctx)
            if st.orelse:
                f_end = self._block(st.orelse, [n.id], conds + ((st.test, False, n.id),), loops, handlers, loopctx)
            else:
                f_end = [n.id]
            return t_end + f_end
        if isinstance(st, ast.While):
            n = self._new('while', st.test, st, conds, loops, handlers)
            self.stmt_node[id(st)] = n.id
            link(n)
            ctx = {'breaks': [], 'head': n.id}
            b_end = self._block(st.body, [n.id], conds + ((st.test, True, n.id),), loops + (n.id,), handlers, ctx)
            for e in b_end:
                self._edge(e, n.id)
            out = [] if _is_true(st.test) else [n.id]
            if st.orelse:
                out = self._block(st.orelse, out, conds, loops, handlers, loopctx)
            return out + ctx['breaks']
        if isinstance(st, ast.For):
            n = self._new('for', st.iter, st, conds, loops, handlers)
            self.stmt_node[id(st)] = n.id
            link(n)
            self._defs_for_target(n, st.target, st.iter, 'for')
            self._mutations_in_expr(n, st.iter)
            ctx = {'breaks': [], 'head': n.id}
            b_end = self._block(st.body, [n.id], conds, loops + (n.id,), handlers, ctx)
            for e in b_end:
                self._edge(e, n.id)
            out = [n.id]
            if st.orelse:
                out = self._block(st.orelse, out, conds, loops, handlers, loopctx)
            return out + ctx['breaks']
        if isinstance(st, ast.Try):
            hnodes = []
            for h in st.handlers:
                hn = self._new('except', h.type, h, conds, loops, handlers)
                self.stmt_node[id(h)] = hn.id
                if h.name:
                    self._add_def(hn, h.name, 'except', h.type)
                hnodes.append(hn)
            entry = self._new('try', None, st, conds, loops, handlers)
            self.stmt_node[id(st)] = entry.id
            link(entry)
            inner = handlers + tuple(h.id for h in hnodes)
            b_end = self._block(st.body, [entry.id], conds, loops, inner, loopctx)
            if st.orelse:
                b_end = self._block(st.orelse, b_end, conds, loops, handlers, loopctx)
            ends = list(b_end)
            for h, hn in zip(st.handlers, hnodes):
                self._edge(entry.id, hn.id)
                ends += self._block(h.body, [hn.id], conds, loops, handlers, loopctx)
            if st.finalbody:
                ends = self._block(st.finalbody, ends, conds, loops, handlers, loopctx)
            return ends
        if isinstance(st, ast.With):
            n = self._new('with', st, st, conds, loops, handlers)
            self.stmt_node[id(st)] = n.id
            link(n)
            for it in st.items:
                if it.optional_vars is not None:
                    self._defs_for_target(n, it.optional_vars, it.context_expr, 'with')
            return self._block(st.body, [n.id], conds, loops, handlers, loopctx)
        if isinstance(st, (ast.FunctionDef, ast.ClassDef)):
            n = self._new('stmt', st, st, conds, loops, handlers)
            self.stmt_node[id(st)] = n.id
            link(n)
            self._add_def(n, st.name, 'funcdef', st)
            return [n.id]
        if isinstance(st, ast.Match):
            raise AnalysisError("%s: match statement is outside the analysed fragment" % self.where(st))

        n = self._new('stmt', st, st, conds, loops, handlers)
        self.stmt_node[id(st)] = n.id
        link(n)
        if isinstance(st, ast.Assign):
            for t in st.targets:
                self._defs_for_target(n, t, st.value)
            self._mutations_in_expr(n, st.value)
        elif isinstance(st, ast.AnnAssign):
            if st.value is not None:
                self._defs_for_target(n, st.target, st.value)
        elif isinstance(st, ast.AugAssign):
            if isinstance(st.target, ast.Name):
                self._add_def(n, st.target.id, 'aug', st.value, (), st.op)
            else:
                b = base_name(st.target)
                if b:
                    self._add_def(n, b, 'mutate', st.value, (), st.target)
            self._mutations_in_expr(n, st.value)
        elif isinstance(st, ast.Delete):
            for t in st.targets:
                if isinstance(t, ast.Name):
                    self._add_def(n, t.id, 'delete')
                else:
                    b = base_name(t)
                    if b:
                        self._add_def(n, b, 'mutate', None, (), t)
        elif isinstance(st, ast.Expr):
            self._mutations_in_expr(n, st.value)
        elif isinstance(st, (ast.Import, ast.ImportFrom)):
            for al in st.names:
                self._add_def(n, (al.asname or al.name).split('.')[0], 'import', st)
        elif isinstance(st, ast.Return):
            if st.value is not None:
                self._mutations_in_expr(n, st.value)
            self._edge(n.id, self.exit.id)
            return []
        elif isinstance(st, ast.Raise):
            if not handlers:
                self._edge(n.id, self.raise_exit.id)
            return []
        elif isinstance(st, ast.Break):
            if loopctx is None:
                raise AnalysisError("%s: break outside loop" % self.where(st))
            loopctx['breaks'].append(n.id)
            return []
        elif isinstance(st, ast.Continue):
            if loopctx is None:
                raise AnalysisError("%s: continue outside loop" % self.where(st))
            self._edge(n.id, loopctx['head'])
            return []
        return [n.id]

    # --------------------------------------------------------- reaching definitions
    def _reaching(self):
        n = len(self.nodes)
        by_name = {}
        for d in self.defs:
            by_name.setdefault(d.name, set()).add(d.id)
        gen = [set() for _ in range(n)]
        killnames = [set() for _ in range(n)]
        for nd in self.nodes:
            last = {}
            for d in nd.defs:
                last[d.name] = d.id     # the last def of a name in a node wins
            gen[nd.id] = set(last.values())
            killnames[nd.id] = set(last)
        IN = [frozenset() for _ in range(n)]
        OUT = [frozenset() for _ in range(n)]
        work = list(range(n))
        inwork = set(work)
        while work:
            i = work.pop(0)
            inwork.discard(i)
            nd = self.nodes[i]
            s = set()
            for p in nd.pred:
                s |= OUT[p]
            IN[i] = frozenset(s)
            if killnames[i]:
                s = {d for d in s if self.defs[d].name not in killnames[i]}
            s |= gen[i]
            s = frozenset(s)
            if s != OUT[i]:
                OUT[i] = s
                for q in nd.succ:
                    if q not in inwork:
                        work.append(q)
                        inwork.add(q)
        self.IN, self.OUT = IN, OUT

    def reaching(self, node_id, name, out=False):
        src = self.OUT if out else self.IN
        return tuple(sorted(d for d in src[node_id] if self.defs[d].name == name))

    # --------------------------------------------------------- structure queries
    def stmts(self, types=None):
        for nd in self.nodes:
            if nd.stmt is not None and (types is None or isinstance(nd.stmt, types)):
                yield nd

    def node_of(self, stmt):
        return self.nodes[self.stmt_node[id(stmt)]]

    def enclosing_stmt_node(self, expr):
        """CFG node in whose statement `expr` occurs (identity search)"""
        m = getattr(self, '_expr_owner', None)
        if m is None:
            m = {}
            for nd in self.nodes:
                roots = []
                if nd.kind in ('test', 'while'):
                    roots = [nd.ast]
                elif nd.kind == 'for':
                    roots = [nd.stmt.iter, nd.stmt.target]
                elif nd.kind == 'stmt' and not isinstance(nd.stmt, (ast.FunctionDef, ast.ClassDef)):
                    roots = [nd.stmt]
                elif nd.kind == 'with':
                    roots = [it.context_expr for it in nd.stmt.items]
                elif nd.kind == 'except' and nd.ast is not None:
                    roots = [nd.ast]
                for r in roots:
                    for c in ast.walk(r):
                        m[id(c)] = nd.id
            self._expr_owner = m
        i = m.get(id(expr))
        return self.nodes[i] if i is not None else None

    def dominators(self):
        if hasattr(self, '_dom'):
            return self._dom
        n = len(self.nodes)
        allset = set(range(n))
        dom = [set(allset) for _ in range(n)]
        dom[self.entry.id] = {self.entry.id}
        changed = True
        order = list(range(n))
        while changed:
            changed = False
            for i in order:
                if i == self.entry.id:
                    continue
                preds = self.nodes[i].pred
                if not preds:
                    new = {i}
                else:
                    new = set.intersection(*(dom[p] for p in preds)) | {i}
                if new != dom[i]:
                    dom[i] = new
                    changed = True
        self._dom = dom
        return dom

    def reachable_from(self, start, avoid=()):
        """CFG nodes reachable from node id `start` (exclusive) without passing through `avoid`"""
        seen, stack = set(), list(self.nodes[start].succ)
        avoid = set(avoid)
        while stack:
            i = stack.pop()
            if i in seen or i in avoid:
                continue
            seen.add(i)
            stack.extend(self.nodes[i].succ)
        return seen

    # --------------------------------------------------------- terms
    def term(self, expr, node, out=False):
        """term of expression `expr` evaluated at CFG node `node` (IN state unless out)"""
        return TermBuilder(self, node.id if isinstance(node, Node) else node, out).build(expr)

    def var(self, name, node, out=False):
        return TermBuilder(self, node.id if isinstance(node, Node) else node, out).var(name)

    def alternatives(self, t):
        """for a versioned symbol with several reaching definitions: [(Def, term or None)], else None"""
        if t[0] == 'v' and isinstance(t[2], tuple) and len(t[2]) >= 1:
            out = []
            for di in t[2]:
                d = self.defs[di]
                out.append((d, TermBuilder(self, d.node).def_term(di)))
            return out
        return None


def const(v):
    return ('c', v)


_BINOPS = {ast.Add: '+', ast.Sub: '-', ast.Mult: '*', ast.Div: '/', ast.FloorDiv: '//', ast.Mod: '%',
           ast.Pow: '**', ast.BitAnd: '&', ast.BitOr: '|', ast.BitXor: '^', ast.LShift: '<<', ast.RShift: '>>',
           ast.MatMult: '@'}
_CMPOPS = {ast.Eq: '==', ast.NotEq: '!=', ast.Lt: '<', ast.LtE: '<=', ast.Gt: '>', ast.GtE: '>=',
           ast.Is: 'is', ast.IsNot: 'is not', ast.In: 'in', ast.NotIn: 'not in'}
_UNOPS = {ast.USub: '-', ast.UAdd: '+', ast.Not: 'not', ast.Invert: '~'}


def canon_cmp(op, l, r):
    """canonical comparison: only < and <= (a > b is b < a); for == / != the constant / global goes right"""
    if op == '>':
        return ('cmp', '<', r, l)
    if op == '>=':
        return ('cmp', '<=', r, l)
    if op in ('==', '!='):
        def rank(x):
            return 2 if x[0] == 'c' else (1 if x[0] == 'g' else 0)
        if rank(l) > rank(r) or (rank(l) == rank(r) and repr(l) > repr(r)):
            l, r = r, l
    # S.find(x) < 0, S.find(x) == -1, S.count(x) == 0 ... are `x not in S`; their complements `x in S`
    def _probe(t):
        if t[0] == 'call' and t[1][0] == 'attr' and t[1][2] in ('find', 'count') and len(t[2]) == 1 and not t[3]:
            return t[1][2], t[1][1], t[2][0]
        return None

    def _ci(t):
        return t[1] if t[0] == 'c' and isinstance(t[1], int) and not isinstance(t[1], bool) else None
    pl, pr = _probe(l), _probe(r)
    if pl is not None and _ci(r) is not None:
        kind, S, x = pl
        n = _ci(r)
        absent = {('find', '<', 0), ('find', '==', -1), ('find', '<=', -1), ('count', '==', 0), ('count', '<', 1), ('count', '<=', 0)}
        present = {('find', '!=', -1), ('count', '!=', 0)}
        if (kind, op, n) in absent:
            return ('cmp', 'not in', x, S)
        if (kind, op, n) in present:
            return ('cmp', 'in', x, S)
    if pr is not None and _ci(l) is not None:
        kind, S, x = pr
        n = _ci(l)
        if (kind, op, n) in {('find', '<=', 0), ('find', '<', -1), ('count', '<', 0), ('count', '<=', 1)}:
            return ('cmp', 'in', x, S)
    return ('cmp', op, l, r)


def fold_bin(op, l, r):
    if l[0] == 'c' and r[0] == 'c':
        a, b = l[1], r[1]
        try:
            if isinstance(a, (int, float, str)) and isinstance(b, (int, float, str)) and \
                    not isinstance(a, bool) and not isinstance(b, bool):
                if op == '+':
                    return const(a + b)
                if op == '-':
                    return const(a - b)
                if op == '*' and not (isinstance(a, str) or isinstance(b, str)):
                    return const(a * b)
                if op == '//' and b != 0:
                    return const(a // b)
                if op == '%' and b != 0 and not isinstance(a, str):
                    return const(a % b)
                if op == '**' and isinstance(b, int) and 0 <= b < 64 and isinstance(a, int) and abs(a) < 64:
                    return const(a ** b)
        except TypeError:
            pass
    # (a + c1) - c2 is a + (c1 - c2): integer constants on the right of a sum are combined
    if op in ('+', '-') and r[0] == 'c' and isinstance(r[1], int) and not isinstance(r[1], bool) and l[0] == 'bin' and \
            l[1] in ('+', '-') and l[3][0] == 'c' and isinstance(l[3][1], int) and not isinstance(l[3][1], bool) and l[2][0] != 'c':
        tot = (l[3][1] if l[1] == '+' else -l[3][1]) + (r[1] if op == '+' else -r[1])
        if tot == 0:
            return l[2]
        return ('bin', '+', l[2], ('c', tot)) if tot > 0 else ('bin', '-', l[2], ('c', -tot))
    # a numeric constant operand of + and * is written on the right (1 + i is i + 1, 2 * x is x * 2)
    if op in ('+', '*') and l[0] == 'c' and isinstance(l[1], (int, float)) and not isinstance(l[1], bool) and r[0] != 'c':
        return fold_bin(op, r, l)
    # 0 - x is -x
    if op == '-' and l == ('c', 0) and r[0] != 'c':
        return ('un', '-', r)
    # shifts and masks by powers of two are products / quotients / remainders (exact for every Python and numpy integer)
    def _int(c):
        return c[0] == 'c' and isinstance(c[1], int) and not isinstance(c[1], bool)

    def _twice(t):
        """E when t is 2 * E"""
        if t[0] == 'bin' and t[1] == '*':
            if t[2] == ('c', 2):
                return t[3]
            if t[3] == ('c', 2):
                return t[2]
        return None
    if op == '<<':
        if _int(r) and 0 <= r[1] < 62:
            return fold_bin('*', l, const(2 ** r[1]))
        if l == ('c', 1):
            e = _twice(r)
            return ('bin', '**', const(4), e) if e is not None else ('bin', '**', const(2), r)
    if op == '>>':
        if _int(r) and 0 <= r[1] < 62:
            return fold_bin('//', l, const(2 ** r[1]))
        e = _twice(r)
        if e is not None:
            return ('bin', '//', l, ('bin', '**', const(4), e))
    if op == '&':
        for a_, m_ in ((l, r), (r, l)):
            if _int(m_) and m_[1] >= 1 and (m_[1] + 1) & m_[1] == 0:
                return fold_bin('%', a_, const(m_[1] + 1))
            if m_[0] == 'bin' and m_[1] == '-' and m_[3] == ('c', 1) and m_[2][0] == 'bin' and m_[2][1] == '**' and \
                    m_[2][2] in (('c', 2), ('c', 4)):
                return ('bin', '%', a_, m_[2])
    return ('bin', op, l, r)


_NOFOLD = object()


def fold_constant(e, globals_, depth=0):
    """value of a module-level constant expression (numbers, strings, tuples, len, arithmetic, other constants)"""
    if depth > 8:
        return _NOFOLD
    rec = lambda x: fold_constant(x, globals_, depth + 1)
    if isinstance(e, ast.Constant) and isinstance(e.value, (int, float, str, bool, type(None))):
        return e.value
    if isinstance(e, ast.Name) and e.id in globals_ and globals_[e.id] is not e:
        return rec(globals_[e.id])
    if isinstance(e, ast.Call) and isinstance(e.func, ast.Name) and e.func.id in ('len', 'int', 'str') and len(e.args) == 1 \
            and not e.keywords and e.func.id not in globals_:
        a = rec(e.args[0])
        if a is _NOFOLD:
            return _NOFOLD
        try:
            return {'len': len, 'int': int, 'str': str}[e.func.id](a)
        except Exception:
            return _NOFOLD
    if isinstance(e, ast.BinOp) and type(e.op) in _BINOPS:
        a, b = rec(e.left), rec(e.right)
        if a is _NOFOLD or b is _NOFOLD or isinstance(a, str) != isinstance(b, str):
            return _NOFOLD
        import operator
        ops = {'+': operator.add, '-': operator.sub, '*': operator.mul, '//': operator.floordiv, '%': operator.mod, '**': operator.pow}
        op = _BINOPS[type(e.op)]
        if op not in ops or (op == '**' and (not isinstance(b, int) or abs(b) > 64)):
            return _NOFOLD
        try:
            return ops[op](a, b)
        except Exception:
            return _NOFOLD
    return _NOFOLD


class TermBuilder:
    MAX_DEPTH = 40

    def __init__(self, func, node_id, out=False, bound=None, depth=0, pbound=None, memo=None):
        self.f, self.nid, self.out, self.bound, self.depth = func, node_id, out, bound or {}, depth
        self.pbound = pbound          # parameter bindings while a helper call is inlined
        self.memo = memo if memo is not None else func._memo

    def sub(self, node_id, bound=None):
        return TermBuilder(self.f, node_id, False, bound, self.depth + 1, self.pbound, self.memo)

    def var(self, name):
        f = self.f
        if name in self.bound:
            return self.bound[name]
        if name not in f.locals:
            q = f.module.resolve_global(name)
            # module-level constant strings/numbers are folded (also simple constant expressions: len("ACGT"), 4 ** 2, A + B)
            if name in f.module.globals and isinstance(f.module.globals[name], ast.Constant):
                return const(f.module.globals[name].value)
            if name in f.module.globals:
                v = fold_constant(f.module.globals[name], f.module.globals)
                if v is not _NOFOLD:
                    return const(v)
            return ('g', q)
        ver = f.reaching(self.nid, name, self.out)
        key = (name, ver)
        if key in self.memo:
            return self.memo[key]
        t = ('v', name, ver)
        if len(ver) == 1 and self.depth < self.MAX_DEPTH:
            d = f.defs[ver[0]]
            self.memo[key] = t          # cycle guard
            e = self._expand(d)
            if e is not None:
                t = e
        self.memo[key] = t
        return t

    def _expand(self, d):
        f = self.f
        if d.kind == 'assign' and d.value is not None:
            t = self.sub(d.node).build(d.value)
            for i in d.path:
                t = item(t, i)
            return t
        if d.kind == 'for':
            t = mk_iter(self.sub(d.node).build(d.value), d.node)
            for i in d.path:
                t = item(t, i)
            return t
        if d.kind == 'param':
            if self.pbound is not None and d.name in self.pbound:
                return self.pbound[d.name]
            return ('v', d.name, 'P')
        if d.kind == 'aug' and d.value is not None:
            tb = self.sub(d.node)
            return fold_bin(_BINOPS[type(d.extra)], tb.var(d.name), tb.build(d.value))
        return None

    def def_term(self, def_id):
        """term of one definition (a component of a phi), or None when it has no expression"""
        return self._expand(self.f.defs[def_id])

    def inline_call(self, e, fn_term, args, kws):
        """f(args) -> the term of f's single return expression when f is a straight-line dsw helper"""
        if fn_term[0] != 'g' or self.depth >= self.MAX_DEPTH:
            return None
        project = getattr(self.f.module, 'project', None)
        if project is None:
            return None
        callee = project.resolve_func(fn_term[1])
        if callee is None or callee is self.f or callee.cls is not None:
            return None
        if callee.name in project.exports:
            return None         # public API functions are anchors, never looked through
        body = callee.node.body
        if body and isinstance(body[0], ast.Expr) and isinstance(body[0].value, ast.Constant):
            body = body[1:]
        if not body or not isinstance(body[-1], ast.Return) or body[-1].value is None:
            return None
        if not all(isinstance(st, ast.Assign) for st in body[:-1]) or len(body) > 24:
            return None
        if any(a[0] == 'star' for a in args) or any(k == '**' for k, _ in kws):
            return None
        callee.build()
        binding = {}
        for name, a in zip(callee.positional, args):
            binding[name] = a
        for k, v in kws:
            if k not in callee.params:
                return None
            binding[k] = v
        for p in callee.params:
            if p not in binding:
                if p in callee.defaults and isinstance(callee.defaults[p], ast.Constant):
                    binding[p] = const(callee.defaults[p].value)
                else:
                    return None
        ret = callee.node_of(body[-1])
        tb = TermBuilder(callee, ret.id, False, None, self.depth + 1, binding, {})
        return tb.build(body[-1].value)

    def build(self, e):
        b = self.build
        if isinstance(e, ast.Constant):
            return const(e.value)
        if isinstance(e, ast.Name):
            return self.var(e.id)
        if isinstance(e, ast.Attribute):
            base = b(e.value)
            if base[0] == 'g' and base[1] in self.f.module.module_aliases:
                return ('g', base[1] + '.' + e.attr)            # np.where is numpy.where
            if e.attr == 'size' and base[0] == 'sub' and base[2] == ('c', 0) and base[1][0] == 'call' and \
                    base[1][1][0] == 'g' and base[1][1][1] in ('numpy.where', 'numpy.nonzero'):
                return ('call', ('g', 'builtins.len'), (base,), ())     # where(c)[0].size is len(where(c)[0])
            if e.attr == 'size' and base[0] == 'call' and base[1] == ('g', 'numpy.flatnonzero'):
                return ('call', ('g', 'builtins.len'), (base,), ())
            return ('attr', base, e.attr)
        if isinstance(e, ast.Subscript):
            base, idx = b(e.value), self._index(e.slice)
            return subscript(base, idx)
        if isinstance(e, ast.Call):
            fn = b(e.func)
            args = tuple(('star', b(a.value)) if isinstance(a, ast.Starred) else b(a) for a in e.args)
            kws = tuple(sorted(((k.arg or '**'), b(k.value)) for k in e.keywords))
            if fn[0] == 'attr' and fn[2] in ('sum', 'max', 'min', 'argmax', 'argmin', 'argsort', 'any', 'all') and not args \
                    and fn[1][0] in ('call', 'sub', 'bin', 'v') and not (fn[1][0] == 'v' and fn[1][2] == 'P' and fn[1][1] == 'self'):
                # X.sum() is numpy.sum(X) for the arrays this package handles (lists have no such methods)
                return simplify_call(('call', ('g', 'numpy.' + fn[2]), (fn[1],), kws))
            if fn == ('g', 'numpy.diff') and len(args) == 1 and not kws:
                # diff(X) is X[1:] - X[:-1] for the 1-D arrays this package handles
                nx = ('sub', args[0], ('slice', ('c', 1), ('c', None), ('c', None)))
                cu = ('sub', args[0], ('slice', ('c', None), ('c', -1), ('c', None)))
                return ('bin', '-', nx, cu)
            if fn == ('g', 'numpy.count_nonzero') and len(args) == 1 and not kws and args[0][0] == 'cmp':
                return ('call', ('g', 'builtins.len'), (('sub', ('call', ('g', 'numpy.where'), (args[0],), ()), ('c', 0)),), ())
            inl = self.inline_call(e, fn, args, kws)
            if inl is not None:
                return inl
            return simplify_call(('call', fn, args, kws))
        if isinstance(e, ast.BinOp):
            return fold_bin(_BINOPS[type(e.op)], b(e.left), b(e.right))
        if isinstance(e, ast.UnaryOp):
            x = b(e.operand)
            op = _UNOPS[type(e.op)]
            if op == '-' and x[0] == 'c' and isinstance(x[1], (int, float)) and not isinstance(x[1], bool):
                return const(-x[1])
            if op == '+':
                return x
            if op == 'not' and x[0] == 'cmp' and x[1] in ('<', '<=') and any(
                    (s[0] == 'c' and isinstance(s[1], int) and not isinstance(s[1], bool)) or
                    (s[0] == 'call' and s[1] == ('g', 'builtins.len')) for s in (x[2], x[3])):
                # integers: not (a < b) is b <= a, not (a <= b) is b < a (one side is an int constant or a len())
                return ('cmp', '<=' if x[1] == '<' else '<', x[3], x[2])
            if op == 'not' and x[0] == 'cmp' and x[1] in ('==', '!=', 'in', 'not in', 'is', 'is not'):
                return ('cmp', {'==': '!=', '!=': '==', 'in': 'not in', 'not in': 'in', 'is': 'is not', 'is not': 'is'}[x[1]], x[2], x[3])
            return ('un', op, x)
        if isinstance(e, ast.Compare):
            parts, left = [], b(e.left)
            for op, c in zip(e.ops, e.comparators):
                right = b(c)
                parts.append(canon_cmp(_CMPOPS[type(op)], left, right))
                left = right
            return parts[0] if len(parts) == 1 else ('bool', 'and') + tuple(parts)
        if isinstance(e, ast.BoolOp):
            return ('bool', 'and' if isinstance(e.op, ast.And) else 'or') + tuple(b(v) for v in e.values)
        if isinstance(e, (ast.Tuple, ast.List, ast.Set)):
            kind = {ast.Tuple: 'tuple', ast.List: 'list', ast.Set: 'set'}[type(e)]
            return (kind,) + tuple(('star', b(x.value)) if isinstance(x, ast.Starred) else b(x) for x in e.elts)
        if isinstance(e, ast.Dict):
            return ('dict',) + tuple((b(k) if k is not None else ('c', '**'), b(v)) for k, v in zip(e.keys, e.values))
        if isinstance(e, ast.IfExp):
            return ('ifexp', b(e.test), b(e.body), b(e.orelse))
        if isinstance(e, (ast.ListComp, ast.SetComp, ast.GeneratorExp, ast.DictComp)):
            return self._comp(e)
        if isinstance(e, ast.Lambda):
            bound = dict(self.bound)
            base = len(bound)
            for i, a in enumerate(e.args.args):
                bound[a.arg] = ('b', base + i)
            tb = TermBuilder(self.f, self.nid, self.out, bound, self.depth, self.pbound, self.memo)
            return ('lambda', len(e.args.args), tb.build(e.body))
        if isinstance(e, ast.JoinedStr) and len(e.values) == 1 and isinstance(e.values[0], ast.FormattedValue) and \
                e.values[0].conversion in (-1, 115) and e.values[0].format_spec is None:
            return ('call', ('g', 'builtins.str'), (b(e.values[0].value),), ())       # f"{x}" is str(x)
        if isinstance(e, ast.JoinedStr):
            return ('fstr',) + tuple(b(v) for v in e.values)
        if isinstance(e, ast.FormattedValue):
            return ('fmt', b(e.value))
        if isinstance(e, ast.Starred):
            return ('star', b(e.value))
        if isinstance(e, ast.NamedExpr):
            return b(e.value)
        if isinstance(e, ast.Slice):
            return self._index(e)
        raise AnalysisError("%s: expression kind %s is outside the analysed fragment"
                            % (self.f.where(e), type(e).__name__))

    def _index(self, s):
        if isinstance(s, ast.Slice):
            return ('slice', self.build(s.lower) if s.lower else const(None),
                    self.build(s.upper) if s.upper else const(None),
                    self.build(s.step) if s.step else const(None))
        if isinstance(s, ast.Tuple):
            return ('tuple',) + tuple(self._index(x) for x in s.elts)
        return self.build(s)

    def _comp(self, e):
        bound = dict(self.bound)
        gens = []
        tb = self
        for g in e.generators:
            it = tb.build(g.iter)
            bound = dict(bound)
            base = len(bound)
            itv = mk_iter(it, 'comp%d' % base)
            for k, (nm, path, _) in enumerate(target_names(g.target)):
                t = itv
                for i in path:
                    t = item(t, i)
                bound[nm] = t
            tb = TermBuilder(self.f, self.nid, self.out, bound, self.depth, self.pbound, self.memo)
            conds = tuple(tb.build(c) for c in g.ifs)
            gens.append((it, conds))
        kind = {ast.ListComp: 'list', ast.SetComp: 'set', ast.GeneratorExp: 'gen', ast.DictComp: 'dict'}[type(e)]
        if isinstance(e, ast.DictComp):
            elt = ('tuple', tb.build(e.key), tb.build(e.value))
        else:
            elt = tb.build(e.elt)
        return ('comp', kind, elt, tuple(gens))


def mk_iter(it, tag):
    """element of iterable `it` in loop `tag`; range(len(X)) is the index over X"""
    if it[0] == 'call' and it[1] == ('g', 'builtins.range') and len(it[2]) == 1 and not it[3]:
        a = it[2][0]
        if a[0] == 'call' and a[1] == ('g', 'builtins.len') and len(a[2]) == 1 and not a[3]:
            return ('idx', a[2][0], tag)
    return ('iter', it, tag)


def mk_index(x, tag):
    """index of the elements of x in loop `tag` (enumerate / range(len(x)))"""
    n = simplify_call(('call', ('g', 'builtins.len'), (x,), ()))
    if n[0] == 'c':
        return ('iter', ('call', ('g', 'builtins.range'), (n,), ()), tag)
    return ('idx', x, tag)


def item(t, i):
    """component i of an unpacked value"""
    if t[0] in ('tuple', 'list') and isinstance(i, int) and i < len(t) - 1 and not any(x[0] == 'star' for x in t[1:]):
        return t[1 + i]
    if t[0] == 'iter' and isinstance(i, int):
        src = t[1]
        if src[0] == 'call' and src[1] == ('g', 'builtins.enumerate') and src[2]:
            if i == 1:
                return ('iter', src[2][0], t[2])
            if i == 0:
                start = src[2][1] if len(src[2]) > 1 else dict(src[3]).get('start')
                base = mk_index(src[2][0], t[2])
                return base if start is None or start == ('c', 0) else fold_bin('+', base, start)
        if src[0] == 'call' and src[1] == ('g', 'builtins.zip') and i < len(src[2]):
            # zip(range(len(X)), X): the first component is the index of the iteration over X
            alt = mk_iter(src[2][i], t[2])
            if alt[0] == 'idx' and alt[1] in src[2]:
                return alt
            return ('iter', src[2][i], t[2])
    if t[0] == 'call' and t[1] == ('g', 'builtins.divmod') and len(t[2]) == 2 and not t[3] and i in (0, 1):
        return fold_bin('//' if i == 0 else '%', t[2][0], t[2][1])      # q, r = divmod(a, b)
    if t[0] == 'call' and t[1][0] == 'g' and t[1][1] in ('numpy.where', 'numpy.nonzero') and isinstance(i, int):
        return ('sub', t, ('c', i))     # (rows,) = where(c)  is  where(c)[0]
    return ('item', t, i)


def _evaluates_call(t):
    """evaluating the expression t performs a call (the element of an iteration, or a variable, does not - whatever defined it)"""
    if not isinstance(t, tuple) or not t or not isinstance(t[0], str):
        return False
    if t[0] in ('iter', 'idx', 'v', 'c', 'g'):
        return False
    if t[0] in ('call', 'comp'):
        return True
    return any(_evaluates_call(x) for x in t[1:] if isinstance(x, tuple)) or \
        any(_evaluates_call(y) for x in t[1:] if isinstance(x, tuple) and x and isinstance(x[0], tuple) for y in x)


def _arrayish(t):
    """an index that is certainly not a scalar: a selection by a mask or a slice, a comparison, a display, an array-valued call.
    a[rows, j] pairs the rows with j; a[rows][j] takes the j-th of the selected rows - not the same thing"""
    if t[0] in ('cmp', 'list', 'tuple', 'comp'):
        return True
    if t[0] == 'sub' and t[2][0] in ('cmp', 'slice'):
        return True
    if t[0] == 'call' and t[1][0] == 'g' and t[1][1] in ('numpy.where', 'numpy.nonzero', 'numpy.array', 'numpy.asarray', 'numpy.arange',
                                                         'numpy.argsort', 'numpy.flatnonzero', 'builtins.range', 'builtins.list'):
        return True
    if t[0] == 'sub' and t[1][0] == 'call' and t[1][1][0] == 'g' and t[1][1][1] in ('numpy.where', 'numpy.nonzero'):
        return True
    return False


_TUPLE_RETURNING = ('calculus_division', 'path_matching', 'connect_coding_graph', 'remove_nasty_arc', 'repair_dna')


def subscript(base, idx):
    # r = f(...); r[0], r[1]  is  a, b = f(...)  for the functions that return a tuple
    if base[0] == 'call' and idx[0] == 'c' and isinstance(idx[1], int) and not isinstance(idx[1], bool) and idx[1] >= 0 and \
            base[1][0] == 'g' and (base[1][1].split('.')[-1] in _TUPLE_RETURNING or base[1][1] == 'builtins.divmod'):
        return item(base, idx[1])
    # X[:len(X) - c] is X[:-c]
    if idx[0] == 'slice' and len(idx) == 4 and idx[2][0] == 'bin' and idx[2][1] == '-' and idx[2][3][0] == 'c' and \
            isinstance(idx[2][3][1], int) and idx[2][3][1] >= 1 and idx[2][2] == ('call', ('g', 'builtins.len'), (base,), ()):
        idx = ('slice', idx[1], ('c', -idx[2][3][1]), idx[3])
    # pair[1] for pair in enumerate(X) / zip(X, Y) is the unpacked component
    if base[0] == 'iter' and idx[0] == 'c' and isinstance(idx[1], int) and not isinstance(idx[1], bool) and idx[1] >= 0:
        return item(base, idx[1])          # the same term tuple unpacking of the element gives
    # the same for the first axis of a multi-axis index: X[0:, j], X[:len(X), j]
    if idx[0] == 'tuple' and len(idx) >= 2 and idx[1][0] == 'slice' and len(idx[1]) == 4 and idx[1][3] in (('c', None), ('c', 1)):
        lo, hi = idx[1][1], idx[1][2]
        if hi == ('call', ('g', 'builtins.len'), (base,), ()):
            hi = ('c', None)
        if lo == ('c', 0):
            lo = ('c', None)
        idx = ('tuple', ('slice', lo, hi, ('c', None))) + tuple(idx[2:])
    # X[a:len(X)] is X[a:], X[0:b] is X[:b] (unit step)
    if idx[0] == 'slice' and len(idx) == 4 and idx[3] in (('c', None), ('c', 1)):
        lo, hi = idx[1], idx[2]
        if hi == ('call', ('g', 'builtins.len'), (base,), ()):
            hi = ('c', None)
        if lo == ('c', 0):
            lo = ('c', None)
        idx = ('slice', lo, hi, ('c', None))
    # X[len(X) - 1::-1] and X[-1::-1] are X[::-1]
    if idx[0] == 'slice' and len(idx) == 4 and idx[3] == ('c', -1) and idx[2] == ('c', None) and \
            idx[1] in (('c', -1), ('bin', '-', ('call', ('g', 'builtins.len'), (base,), ()), ('c', 1))):
        idx = ('slice', ('c', None), ('c', None), ('c', -1))
    # X[len(X) - c] is X[-c] (c >= 1): both address the c-th item from the end, both raise IndexError when there is none
    if idx[0] == 'bin' and idx[1] == '-' and idx[3][0] == 'c' and isinstance(idx[3][1], int) and idx[3][1] >= 1 and \
            idx[2] == ('call', ('g', 'builtins.len'), (base,), ()):
        idx = ('c', -idx[3][1])
    # X[i - len(X)] with i the index of an iteration over X is X[i] (the same item addressed from the end)
    if idx[0] == 'bin' and idx[1] == '-' and idx[3] == ('call', ('g', 'builtins.len'), (base,), ()) and idx[2][0] == 'idx' and \
            idx[2][1] == base:
        idx = idx[2]
    # X[where(C)] / X[nonzero(C)] is the boolean selection X[C] (numpy defines x[mask] as x[mask.nonzero()])
    if idx[0] == 'call' and idx[1] in (('g', 'numpy.where'), ('g', 'numpy.nonzero')) and len(idx[2]) == 1 and not idx[3] and \
            idx[2][0][0] == 'cmp':
        idx = idx[2][0]
    # X[a:a + n][i] with constants 0 <= i < n is X[a + i] (a is a position counted from the start; both raise past the end)
    if base[0] == 'sub' and base[2][0] == 'slice' and len(base[2]) == 4 and base[2][3] in (('c', None), ('c', 1)) and \
            idx[0] == 'c' and isinstance(idx[1], int) and not isinstance(idx[1], bool) and idx[1] >= 0 and \
            base[2][1] != ('c', None) and base[2][2] != ('c', None):
        lo_, hi_ = base[2][1], base[2][2]
        d_ = fold_bin('-', hi_, lo_) if lo_[0] == 'c' else None
        if hi_[0] == 'bin' and hi_[1] == '+' and hi_[2] == lo_ and hi_[3][0] == 'c' and isinstance(hi_[3][1], int):
            width = hi_[3][1]
        elif d_ is not None and d_[0] == 'c' and isinstance(d_[1], int) and lo_[1] is not None and isinstance(lo_[1], int) and lo_[1] >= 0:
            width = d_[1]
        else:
            width = None
        if width is not None and idx[1] < width and not (lo_[0] == 'c' and (not isinstance(lo_[1], int) or lo_[1] < 0)) and \
                not (lo_[0] == 'un'):
            return subscript(base[1], lo_ if idx[1] == 0 else fold_bin('+', lo_, idx))
    # (A, B)[test] with a comparison as the index is `B if test else A`
    if base[0] in ('tuple', 'list') and len(base) == 3 and idx[0] == 'cmp' and \
            not any(_evaluates_call(b_) for b_ in base[1:]):
        return ('ifexp', idx, base[2], base[1])      # both items are evaluated: only when evaluating them does nothing (no call)
    # a[i, :] with scalar i is the row a[i]
    if idx[0] == 'tuple' and len(idx) == 3 and idx[1][0] != 'slice' and idx[2] == ('slice', ('c', None), ('c', None), ('c', None)):
        return subscript(base, idx[1])
    # a[i, j] with scalar (non-slice) i  ==  a[i][j]
    if idx[0] == 'tuple' and len(idx) == 3 and idx[1][0] != 'slice' and not _arrayish(idx[1]):
        return subscript(subscript(base, idx[1]), idx[2])
    if base[0] == 'c' and isinstance(base[1], str) and idx[0] == 'c' and isinstance(idx[1], int):
        try:
            return const(base[1][idx[1]])
        except IndexError:
            pass
    if base[0] in ('tuple', 'list') and idx[0] == 'c' and isinstance(idx[1], int) \
            and not any(x[0] == 'star' for x in base[1:]):
        try:
            return base[1:][idx[1]]
        except IndexError:
            pass
    return ('sub', base, idx)


def simplify_call(t):
    _, fn, args, kws = t
    # next(iter(X)) is X[0]
    if fn == ('g', 'builtins.next') and len(args) == 1 and not kws and args[0][0] == 'call' and args[0][1] == ('g', 'builtins.iter') \
            and len(args[0][2]) == 1:
        return subscript(args[0][2][0], ('c', 0))
    # range(0, n) and range(0, n, 1) are range(n)
    if fn == ('g', 'builtins.range') and not kws and len(args) in (2, 3) and args[0] == ('c', 0) and (len(args) == 2 or args[2] == ('c', 1)):
        return simplify_call(('call', fn, (args[1],), kws))
    # numpy.full(shape, 0, dtype) is zeros(shape, dtype); full(shape, -1, dtype) is -ones(shape, dtype); full(shape, 1, ..) is ones
    if fn == ('g', 'numpy.full') and not any(a[0] == 'star' for a in args):
        kw = dict(kws)
        shape = args[0] if args else kw.get('shape')
        fill = args[1] if len(args) > 1 else kw.get('fill_value')
        dt = args[2] if len(args) > 2 else kw.get('dtype')
        if shape is not None and fill is not None and fill[0] == 'c' and fill[1] in (0, 1, -1) and not isinstance(fill[1], bool) \
                and set(kw) <= {'shape', 'fill_value', 'dtype'}:
            nk = (('dtype', dt),) if dt is not None else ()
            nk = tuple(sorted(nk + (('shape', shape),)))
            base = ('call', ('g', 'numpy.zeros' if fill[1] == 0 else 'numpy.ones'), (), nk)
            return ('un', '-', base) if fill[1] == -1 else base
    # list(<generator>) is the list comprehension; tuple / sorted / set of a generator take a list comprehension
    if fn[0] == 'g' and fn[1] in ('builtins.list', 'builtins.tuple', 'builtins.sorted', 'builtins.set', 'builtins.frozenset') and \
            len(args) == 1 and not kws and args[0][0] == 'comp' and args[0][1] == 'gen':
        lc = ('comp', 'list') + args[0][2:]
        if fn[1] == 'builtins.list':
            return lc
        return ('call', fn, (lc,), kws)
    if fn == ('g', 'builtins.len') and len(args) == 1 and not kws:
        a = args[0]
        if a[0] == 'c' and isinstance(a[1], str):
            return const(len(a[1]))
        if a[0] in ('tuple', 'list') and not any(x[0] == 'star' for x in a[1:]):
            return const(len(a) - 1)
    if fn == ('g', 'builtins.int') and len(args) == 1 and not kws and args[0][0] == 'c' \
            and isinstance(args[0][1], int):
        return args[0]
    if fn == ('g', 'builtins.int') and len(args) == 1 and not kws and args[0][0] == 'call' and \
            args[0][1] in (('g', 'builtins.len'), ('g', 'builtins.int')):
        return args[0]          # int(len(x)) is len(x)
    if fn == ('g', 'builtins.str') and len(args) == 1 and not kws and args[0][0] == 'c' \
            and isinstance(args[0][1], (int, str)) and not isinstance(args[0][1], bool):
        return const(str(args[0][1]))
    return t


# ----------------------------------------------------------------------------------------------
# term helpers
# ----------------------------------------------------------------------------------------------
def children(t):
    """direct sub-terms of a term"""
    k = t[0]
    if k in ('c', 'v', 'g', 'b'):
        return ()
    if k == 'call':
        return (t[1],) + tuple(t[2]) + tuple(v for _, v in t[3])
    if k == 'attr':
        return (t[1],)
    if k in ('sub',):
        return (t[1], t[2])
    if k == 'slice':
        return (t[1], t[2], t[3])
    if k in ('tuple', 'list', 'set', 'fstr'):
        return tuple(t[1:])
    if k == 'dict':
        return tuple(x for kv in t[1:] for x in kv)
    if k in ('bin', 'cmp'):
        return (t[2], t[3])
    if k == 'un':
        return (t[2],)
    if k == 'bool':
        return tuple(t[2:])
    if k == 'ifexp':
        return (t[1], t[2], t[3])
    if k == 'comp':
        out = [t[2]]
        for it, cs in t[3]:
            out.append(it)
            out.extend(cs)
        return tuple(out)
    if k == 'lambda':
        return (t[2],)
    if k in ('item', 'iter', 'idx', 'star', 'fmt'):
        return (t[1],)
    return ()


def walk_term(t):
    yield t
    for c in children(t):
        yield from walk_term(c)


_TAGS = {'c', 'v', 'g', 'b', 'call', 'attr', 'sub', 'slice', 'tuple', 'list', 'set', 'dict', 'bin', 'un', 'cmp',
         'bool', 'ifexp', 'comp', 'lambda', 'item', 'iter', 'idx', 'star', 'fstr', 'fmt'}


def is_call(t, *quals):
    return t[0] == 'call' and t[1][0] == 'g' and (not quals or t[1][1] in quals)


def call_name(t):
    if t[0] == 'call' and t[1][0] == 'g':
        return t[1][1]
    return None


def call_arg(t, pos, kw=None):
    """positional argument `pos` or keyword `kw` of a call term, else None"""
    if kw is not None:
        for k, v in t[3]:
            if k == kw:
                return v
    if pos is not None and pos < len(t[2]):
        return t[2][pos]
    return None


def show(t, depth=0):
    """compact human-readable rendering of a term (for evidence and reports)"""
    if not isinstance(t, tuple) or not t:
        return repr(t)
    k = t[0]
    if depth > 12:
        return '...'
    s = lambda x: show(x, depth + 1)
    if k == 'c':
        return repr(t[1])
    if k == 'v':
        if t[2] == 'P':
            return t[1]
        return '%s#%s' % (t[1], '.'.join(map(str, t[2])) if t[2] else 'undef')
    if k == 'g':
        return t[1].split('.')[-1]
    if k == 'b':
        return '_%d' % t[1]
    if k == 'call':
        parts = [s(a) for a in t[2]] + ['%s=%s' % (kk, s(v)) for kk, v in t[3]]
        return '%s(%s)' % (s(t[1]), ', '.join(parts))
    if k == 'attr':
        return '%s.%s' % (s(t[1]), t[2])
    if k == 'sub':
        return '%s[%s]' % (s(t[1]), s(t[2]))
    if k == 'slice':
        f = lambda x: '' if x == ('c', None) else s(x)
        r = '%s:%s' % (f(t[1]), f(t[2]))
        return r + (':' + f(t[3]) if t[3] != ('c', None) else '')
    if k in ('tuple', 'list', 'set'):
        o, c = {'tuple': '()', 'list': '[]', 'set': '{}'}[k]
        return o + ', '.join(s(x) for x in t[1:]) + c
    if k == 'bin':
        return '(%s %s %s)' % (s(t[2]), t[1], s(t[3]))
    if k == 'un':
        return '(%s %s)' % (t[1], s(t[2]))
    if k == 'cmp':
        return '(%s %s %s)' % (s(t[2]), t[1], s(t[3]))
    if k == 'bool':
        return '(' + (' %s ' % t[1]).join(s(x) for x in t[2:]) + ')'
    if k == 'ifexp':
        return '(%s if %s else %s)' % (s(t[2]), s(t[1]), s(t[3]))
    if k == 'comp':
        g = ' '.join('for %s%s' % (s(it), ''.join(' if ' + s(c) for c in cs)) for it, cs in t[3])
        return '[%s %s]' % (s(t[2]), g)
    if k == 'lambda':
        return 'lambda/%d: %s' % (t[1], s(t[2]))
    if k == 'item':
        return '%s.%s' % (s(t[1]), t[2])
    if k == 'iter':
        return 'each(%s)' % s(t[1])
    if k == 'idx':
        return 'index_of_each(%s)' % s(t[1])
    if k == 'star':
        return '*' + s(t[1])
    if k == 'dict':
        return '{' + ', '.join('%s: %s' % (s(a), s(b)) for a, b in t[1:]) + '}'
    return str(t)
