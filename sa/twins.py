"""Behaviour-preserving source-to-source rewrites (benign twins).  Each takes a module's source and
returns new source (through ast.unparse, so layout and comments are lost as well)."""
import ast
import copy


def _locals_of(fn):
    params = {a.arg for a in fn.args.posonlyargs + fn.args.args + fn.args.kwonlyargs}
    if fn.args.vararg:
        params.add(fn.args.vararg.arg)
    if fn.args.kwarg:
        params.add(fn.args.kwarg.arg)
    stored = set()
    for n in ast.walk(fn):
        if isinstance(n, ast.Name) and isinstance(n.ctx, (ast.Store, ast.Del)):
            stored.add(n.id)
        elif isinstance(n, ast.arg) and n.arg not in params:
            stored.add(n.arg)        # lambda parameters
    return stored - params, params


def unparse_only(src):
    return ast.unparse(ast.parse(src)) + '\n'


def rename_locals(src):
    tree = ast.parse(src)
    for fn in [n for n in ast.walk(tree) if isinstance(n, ast.FunctionDef)]:
        loc, params = _locals_of(fn)
        mapping = {n: 'zz_%s_r' % n for n in loc}

        class R(ast.NodeTransformer):
            def visit_Name(self, n):
                if n.id in mapping:
                    return ast.copy_location(ast.Name(mapping[n.id], n.ctx), n)
                return n

            def visit_arg(self, n):
                if n.arg in mapping:
                    n.arg = mapping[n.arg]
                return n

            def visit_FunctionDef(self, n):
                if n is fn:
                    self.generic_visit(n)
                return n
        R().visit(fn)
    return ast.unparse(tree) + '\n'


def _negate(test):
    if isinstance(test, ast.UnaryOp) and isinstance(test.op, ast.Not):
        return test.operand
    return ast.UnaryOp(ast.Not(), test)


def swap_if_else(src):
    tree = ast.parse(src)

    class S(ast.NodeTransformer):
        def visit_If(self, n):
            self.generic_visit(n)
            if n.orelse:
                return ast.copy_location(ast.If(_negate(n.test), n.orelse, n.body), n)
            return n
    return ast.unparse(ast.fix_missing_locations(S().visit(tree))) + '\n'


def aug_to_assign(src):
    tree = ast.parse(src)

    class S(ast.NodeTransformer):
        def visit_AugAssign(self, n):
            if isinstance(n.target, ast.Name):
                return ast.copy_location(
                    ast.Assign([ast.Name(n.target.id, ast.Store())],
                               ast.BinOp(ast.Name(n.target.id, ast.Load()), n.op, n.value)), n)
            return n
    return ast.unparse(ast.fix_missing_locations(S().visit(tree))) + '\n'


def assign_to_aug(src):
    tree = ast.parse(src)

    class S(ast.NodeTransformer):
        def visit_Assign(self, n):
            if len(n.targets) == 1 and isinstance(n.targets[0], ast.Name) and isinstance(n.value, ast.BinOp) \
                    and isinstance(n.value.left, ast.Name) and n.value.left.id == n.targets[0].id \
                    and isinstance(n.value.op, (ast.Add, ast.Sub, ast.Mult, ast.FloorDiv)):
                return ast.copy_location(ast.AugAssign(ast.Name(n.targets[0].id, ast.Store()), n.value.op,
                                                       n.value.right), n)
            return n
    return ast.unparse(ast.fix_missing_locations(S().visit(tree))) + '\n'


def subscript_pair_to_tuple(src):
    """accessor[i][j] -> accessor[i, j] (numpy arrays indexed by a scalar first index)"""
    tree = ast.parse(src)

    class S(ast.NodeTransformer):
        def visit_Subscript(self, n):
            self.generic_visit(n)
            v = n.value
            if isinstance(v, ast.Subscript) and isinstance(v.value, ast.Name) and v.value.id in ('accessor', 'shuffles') \
                    and not isinstance(v.slice, (ast.Slice, ast.Tuple)) and not isinstance(n.slice, (ast.Slice, ast.Tuple)):
                return ast.copy_location(ast.Subscript(v.value, ast.Tuple([v.slice, n.slice], ast.Load()), n.ctx), n)
            return n
    return ast.unparse(ast.fix_missing_locations(S().visit(tree))) + '\n'


def subscript_tuple_to_pair(src):
    tree = ast.parse(src)

    class S(ast.NodeTransformer):
        def visit_Subscript(self, n):
            self.generic_visit(n)
            if isinstance(n.value, ast.Name) and n.value.id in ('accessor', 'shuffles') and isinstance(n.slice, ast.Tuple) \
                    and len(n.slice.elts) == 2 and not isinstance(n.slice.elts[0], ast.Slice) \
                    and isinstance(n.slice.elts[0], ast.Name):
                inner = ast.Subscript(n.value, n.slice.elts[0], ast.Load())
                return ast.copy_location(ast.Subscript(inner, n.slice.elts[1], n.ctx), n)
            return n
    return ast.unparse(ast.fix_missing_locations(S().visit(tree))) + '\n'


def ge0_to_gt_minus1(src):
    """x >= 0 -> x > -1 (identical on integers)"""
    tree = ast.parse(src)

    class S(ast.NodeTransformer):
        def visit_Compare(self, n):
            self.generic_visit(n)
            if len(n.ops) == 1 and isinstance(n.ops[0], ast.GtE) and isinstance(n.comparators[0], ast.Constant) \
                    and n.comparators[0].value == 0 and type(n.comparators[0].value) is int:
                return ast.copy_location(ast.Compare(n.left, [ast.Gt()], [ast.UnaryOp(ast.USub(), ast.Constant(1))]), n)
            return n
    return ast.unparse(ast.fix_missing_locations(S().visit(tree))) + '\n'


def live_ne_minus1(src):
    """accessor-ish >= 0 -> != -1 on the where(accessor[..] >= 0) forms (entries are >= -1)"""
    tree = ast.parse(src)

    class S(ast.NodeTransformer):
        def visit_Compare(self, n):
            self.generic_visit(n)
            if len(n.ops) == 1 and isinstance(n.ops[0], ast.GtE) and isinstance(n.comparators[0], ast.Constant) \
                    and n.comparators[0].value == 0 and isinstance(n.left, ast.Subscript) \
                    and isinstance(n.left.value, ast.Name) and n.left.value.id == 'accessor':
                return ast.copy_location(ast.Compare(n.left, [ast.NotEq()], [ast.UnaryOp(ast.USub(), ast.Constant(1))]), n)
            return n
    return ast.unparse(ast.fix_missing_locations(S().visit(tree))) + '\n'


def len_gt1_to_ge2(src):
    tree = ast.parse(src)

    class S(ast.NodeTransformer):
        def visit_Compare(self, n):
            self.generic_visit(n)
            if len(n.ops) == 1 and isinstance(n.ops[0], ast.Gt) and isinstance(n.comparators[0], ast.Constant) \
                    and type(n.comparators[0].value) is int and isinstance(n.left, ast.Call) \
                    and isinstance(n.left.func, ast.Name) and n.left.func.id == 'len':
                return ast.copy_location(ast.Compare(n.left, [ast.GtE()], [ast.Constant(n.comparators[0].value + 1)]), n)
            return n
    return ast.unparse(ast.fix_missing_locations(S().visit(tree))) + '\n'


def hoist_alphabet(src):
    tree = ast.parse(src)
    doc = set()
    for n in ast.walk(tree):
        if isinstance(n, (ast.FunctionDef, ast.ClassDef, ast.Module)) and n.body and isinstance(n.body[0], ast.Expr) \
                and isinstance(n.body[0].value, ast.Constant):
            doc.add(id(n.body[0].value))
    used = [False]

    class S(ast.NodeTransformer):
        def visit_Constant(self, n):
            if n.value == 'ACGT' and id(n) not in doc:
                used[0] = True
                return ast.copy_location(ast.Name('ALPHABET_LETTERS', ast.Load()), n)
            return n
    tree = S().visit(tree)
    if used[0]:
        i = 0
        while i < len(tree.body) and (isinstance(tree.body[i], (ast.Import, ast.ImportFrom)) or
                                      (isinstance(tree.body[i], ast.Expr) and isinstance(tree.body[i].value, ast.Constant))):
            i += 1
        tree.body.insert(i, ast.Assign([ast.Name('ALPHABET_LETTERS', ast.Store())], ast.Constant('ACGT')))
    return ast.unparse(ast.fix_missing_locations(tree)) + '\n'


def split_tuple_assign(src):
    tree = ast.parse(src)

    def names(e, ctx):
        return {n.id for n in ast.walk(e) if isinstance(n, ast.Name) and isinstance(n.ctx, ctx)}

    class S(ast.NodeTransformer):
        def _block(self, body):
            out = []
            for st in body:
                if isinstance(st, ast.Assign) and len(st.targets) == 1 and isinstance(st.targets[0], ast.Tuple) \
                        and isinstance(st.value, ast.Tuple) and len(st.targets[0].elts) == len(st.value.elts) \
                        and all(isinstance(t, ast.Name) for t in st.targets[0].elts):
                    ts, vs = st.targets[0].elts, st.value.elts
                    safe = True
                    for i in range(len(ts)):
                        for j in range(i + 1, len(vs)):
                            if ts[i].id in names(vs[j], ast.Load):
                                safe = False
                    if safe:
                        for t, v in zip(ts, vs):
                            out.append(ast.copy_location(ast.Assign([t], v), st))
                        continue
                out.append(st)
            return out

        def generic_visit(self, node):
            super().generic_visit(node)
            for f in ('body', 'orelse', 'finalbody'):
                b = getattr(node, f, None)
                if isinstance(b, list) and b and isinstance(b[0], ast.stmt):
                    setattr(node, f, self._block(b))
            return node
    return ast.unparse(ast.fix_missing_locations(S().visit(tree))) + '\n'


def extra_verbose_print(src):
    tree = ast.parse(src)
    for fn in [n for n in ast.walk(tree) if isinstance(n, ast.FunctionDef)]:
        if any(a.arg == 'verbose' for a in fn.args.args):
            stmt = ast.parse('if verbose:\n    print("progress output enabled")').body[0]
            i = 1 if fn.body and isinstance(fn.body[0], ast.Expr) and isinstance(fn.body[0].value, ast.Constant) else 0
            fn.body.insert(i, stmt)
    return ast.unparse(ast.fix_missing_locations(tree)) + '\n'


def new_public_function(src):
    return src + '\n\ndef describe_version():\n    """unrelated helper"""\n    label = "1.1"\n    return "DNASpiderWeb " + label\n'


def strip_docstrings(src):
    tree = ast.parse(src)
    for n in ast.walk(tree):
        if isinstance(n, (ast.FunctionDef, ast.ClassDef)) and n.body and isinstance(n.body[0], ast.Expr) \
                and isinstance(n.body[0].value, ast.Constant) and isinstance(n.body[0].value.value, str):
            n.body = n.body[1:] or [ast.Pass()]
    return ast.unparse(ast.fix_missing_locations(tree)) + '\n'


def where_to_nonzero(src):
    tree = ast.parse(src)
    has = [False]

    class S(ast.NodeTransformer):
        def visit_Subscript(self, n):
            self.generic_visit(n)
            v = n.value
            if isinstance(v, ast.Call) and isinstance(v.func, ast.Name) and v.func.id == 'where' and len(v.args) == 1 \
                    and isinstance(n.slice, ast.Constant) and n.slice.value == 0:
                has[0] = True
                return ast.copy_location(ast.Subscript(ast.Call(ast.Name('nonzero', ast.Load()), v.args, []),
                                                       n.slice, n.ctx), n)
            return n
    tree = S().visit(tree)
    if has[0]:
        for st in tree.body:
            if isinstance(st, ast.ImportFrom) and st.module == 'numpy':
                st.names.append(ast.alias('nonzero'))
                break
    return ast.unparse(ast.fix_missing_locations(tree)) + '\n'


def extract_live_helper(src):
    """the live-arc computation where(accessor[v] >= 0)[0] becomes a call of a module-level helper"""
    tree = ast.parse(src)
    has = [False]

    class S(ast.NodeTransformer):
        def visit_Subscript(self, n):
            self.generic_visit(n)
            v = n.value
            if isinstance(v, ast.Call) and isinstance(v.func, ast.Name) and v.func.id == 'where' and len(v.args) == 1 \
                    and isinstance(n.slice, ast.Constant) and n.slice.value == 0 and isinstance(v.args[0], ast.Compare):
                c = v.args[0]
                if isinstance(c.left, ast.Subscript) and isinstance(c.left.value, ast.Name) \
                        and c.left.value.id == 'accessor' and isinstance(c.ops[0], ast.GtE) and len(c.ops) == 1 \
                        and isinstance(c.comparators[0], ast.Constant) and c.comparators[0].value == 0:
                    has[0] = True
                    return ast.copy_location(ast.Call(ast.Name('live_arcs_of', ast.Load()),
                                                      [ast.Name('accessor', ast.Load()), c.left.slice], []), n)
            return n
    tree = S().visit(tree)
    if has[0]:
        helper = ast.parse('def live_arcs_of(accessor, vertex):\n    return where(accessor[vertex] >= 0)[0]\n').body[0]
        tree.body.append(helper)
    return ast.unparse(ast.fix_missing_locations(tree)) + '\n'


def flip_compare_operands(src):
    """a < b  ->  b > a   (single comparisons of side-effect-free operands)"""
    tree = ast.parse(src)
    flip = {ast.Lt: ast.Gt, ast.Gt: ast.Lt, ast.LtE: ast.GtE, ast.GtE: ast.LtE, ast.Eq: ast.Eq, ast.NotEq: ast.NotEq}

    class S(ast.NodeTransformer):
        def visit_Compare(self, n):
            self.generic_visit(n)
            if len(n.ops) == 1 and type(n.ops[0]) in flip:
                return ast.copy_location(ast.Compare(n.comparators[0], [flip[type(n.ops[0])]()], [n.left]), n)
            return n
    return ast.unparse(ast.fix_missing_locations(S().visit(tree))) + '\n'


def early_raise(src):
    """if C: A  else: raise E   ->   if not C: raise E ; A"""
    tree = ast.parse(src)

    class S(ast.NodeTransformer):
        def _block(self, body):
            out = []
            for st in body:
                if isinstance(st, ast.If) and len(st.orelse) == 1 and isinstance(st.orelse[0], ast.Raise) \
                        and not any(isinstance(x, ast.If) for x in st.orelse):
                    out.append(ast.copy_location(ast.If(_negate(st.test), st.orelse, []), st))
                    out.extend(st.body)
                else:
                    out.append(st)
            return out

        def generic_visit(self, node):
            super().generic_visit(node)
            for f in ('body', 'orelse', 'finalbody'):
                b = getattr(node, f, None)
                if isinstance(b, list) and b and isinstance(b[0], ast.stmt):
                    # an elif chain lives in orelse as a single If: leave those alone
                    if f == 'orelse' and len(b) == 1 and isinstance(b[0], ast.If):
                        continue
                    setattr(node, f, self._block(b))
            return node
    return ast.unparse(ast.fix_missing_locations(S().visit(tree))) + '\n'


def where_to_flatnonzero(src):
    tree = ast.parse(src)
    has = [False]

    class S(ast.NodeTransformer):
        def visit_Subscript(self, n):
            self.generic_visit(n)
            v = n.value
            if isinstance(v, ast.Call) and isinstance(v.func, ast.Name) and v.func.id == 'where' and len(v.args) == 1 \
                    and isinstance(n.slice, ast.Constant) and n.slice.value == 0 and isinstance(v.args[0], ast.Compare) \
                    and isinstance(v.args[0].left, ast.Subscript):
                has[0] = True
                return ast.copy_location(ast.Call(ast.Name('flatnonzero', ast.Load()), v.args, []), n)
            return n
    tree = S().visit(tree)
    if has[0]:
        for st in tree.body:
            if isinstance(st, ast.ImportFrom) and st.module == 'numpy':
                st.names.append(ast.alias('flatnonzero'))
                break
    return ast.unparse(ast.fix_missing_locations(tree)) + '\n'


def swap_exclusive_elif(src):
    """if radix == 4: A elif radix == 2: B ...  ->  if radix == 2: B elif radix == 4: A ...  (mutually exclusive tests)"""
    tree = ast.parse(src)

    def is_eq_const(t):
        return isinstance(t, ast.Compare) and len(t.ops) == 1 and isinstance(t.ops[0], ast.Eq) and \
            isinstance(t.left, ast.Name) and isinstance(t.comparators[0], ast.Constant)

    class S(ast.NodeTransformer):
        def visit_If(self, n):
            self.generic_visit(n)
            if is_eq_const(n.test) and len(n.orelse) == 1 and isinstance(n.orelse[0], ast.If) and is_eq_const(n.orelse[0].test) \
                    and n.test.left.id == n.orelse[0].test.left.id:
                inner = n.orelse[0]
                new_inner = ast.If(n.test, n.body, inner.orelse)
                return ast.copy_location(ast.If(inner.test, inner.body, [new_inner]), n)
            return n
    return ast.unparse(ast.fix_missing_locations(S().visit(tree))) + '\n'


def range_len_to_enumerate(src):
    """for i in range(len(xs)): ... -> for i, _unused in enumerate(xs): ...  (xs a plain name not rebound in the body)"""
    tree = ast.parse(src)

    class S(ast.NodeTransformer):
        def visit_For(self, n):
            self.generic_visit(n)
            it = n.iter
            if isinstance(n.target, ast.Name) and isinstance(it, ast.Call) and isinstance(it.func, ast.Name) and it.func.id == 'range' \
                    and len(it.args) == 1 and isinstance(it.args[0], ast.Call) and isinstance(it.args[0].func, ast.Name) \
                    and it.args[0].func.id == 'len' and isinstance(it.args[0].args[0], ast.Name):
                xs = it.args[0].args[0].id
                stored = any(isinstance(x, ast.Name) and x.id == xs and isinstance(x.ctx, ast.Store) for b in n.body for x in ast.walk(b))
                if not stored:
                    n.iter = ast.Call(ast.Name('enumerate', ast.Load()), [ast.Name(xs, ast.Load())], [])
                    n.target = ast.Tuple([n.target, ast.Name('_unused_item', ast.Store())], ast.Store())
            return n
    return ast.unparse(ast.fix_missing_locations(S().visit(tree))) + '\n'


_PURE_CALLS = {'len', 'where', 'zeros', 'ones', 'str', 'int', 'Monitor', 'list', 'set', 'argsort', 'array'}


def _simple_pure_assign(st):
    if not (isinstance(st, ast.Assign) and len(st.targets) == 1 and isinstance(st.targets[0], ast.Name)):
        return False
    for n in ast.walk(st.value):
        if isinstance(n, ast.Call) and not (isinstance(n.func, ast.Name) and n.func.id in _PURE_CALLS):
            return False
        if isinstance(n, (ast.NamedExpr, ast.Lambda, ast.ListComp, ast.GeneratorExp, ast.SetComp, ast.DictComp)):
            return False
    return True


def swap_independent_assignments(src):
    """x = e1; y = e2  ->  y = e2; x = e1   when neither reads the other's target"""
    tree = ast.parse(src)

    def reads(e):
        return {n.id for n in ast.walk(e) if isinstance(n, ast.Name) and isinstance(n.ctx, ast.Load)}

    class S(ast.NodeTransformer):
        def _block(self, body):
            out = list(body)
            i = 0
            while i + 1 < len(out):
                a, b = out[i], out[i + 1]
                if _simple_pure_assign(a) and _simple_pure_assign(b):
                    ta, tb = a.targets[0].id, b.targets[0].id
                    if ta != tb and ta not in reads(b.value) and tb not in reads(a.value):
                        out[i], out[i + 1] = b, a
                        i += 2
                        continue
                i += 1
            return out

        def generic_visit(self, node):
            super().generic_visit(node)
            for f in ('body', 'orelse', 'finalbody'):
                b = getattr(node, f, None)
                if isinstance(b, list) and b and isinstance(b[0], ast.stmt):
                    setattr(node, f, self._block(b))
            return node
    return ast.unparse(ast.fix_missing_locations(S().visit(tree))) + '\n'


def hoist_len_tests(src):
    """if len(x) > c: ...   ->   n_x = len(x); if n_x > c: ...   (first test of an if statement in a block only)"""
    tree = ast.parse(src)
    counter = [0]

    class S(ast.NodeTransformer):
        def _block(self, body):
            out = []
            for st in body:
                if isinstance(st, ast.If) and isinstance(st.test, ast.Compare) and isinstance(st.test.left, ast.Call) \
                        and isinstance(st.test.left.func, ast.Name) and st.test.left.func.id == 'len' \
                        and len(st.test.left.args) == 1 and isinstance(st.test.left.args[0], ast.Name):
                    counter[0] += 1
                    name = 'hoisted_length_%d' % counter[0]
                    out.append(ast.copy_location(ast.Assign([ast.Name(name, ast.Store())], st.test.left), st))
                    st.test = ast.Compare(ast.Name(name, ast.Load()), st.test.ops, st.test.comparators)
                    # the same length is usually tested again in the elif chain
                    cur = st
                    while len(cur.orelse) == 1 and isinstance(cur.orelse[0], ast.If):
                        cur = cur.orelse[0]
                        t = cur.test
                        if isinstance(t, ast.Compare) and isinstance(t.left, ast.Call) and ast.dump(t.left) == ast.dump(out[-1].value):
                            cur.test = ast.Compare(ast.Name(name, ast.Load()), t.ops, t.comparators)
                out.append(st)
            return out

        def generic_visit(self, node):
            super().generic_visit(node)
            for f in ('body', 'orelse', 'finalbody'):
                b = getattr(node, f, None)
                if isinstance(b, list) and b and isinstance(b[0], ast.stmt):
                    if f == 'orelse' and len(b) == 1 and isinstance(b[0], ast.If):
                        continue
                    setattr(node, f, self._block(b))
            return node
    return ast.unparse(ast.fix_missing_locations(S().visit(tree))) + '\n'


def _simple(e):
    return isinstance(e, (ast.Name, ast.Constant)) or \
        (isinstance(e, ast.Attribute) and _simple(e.value)) or \
        (isinstance(e, ast.Subscript) and _simple(e.value) and _simple(e.slice)) or \
        (isinstance(e, ast.Call) and isinstance(e.func, ast.Name) and e.func.id == 'len' and len(e.args) == 1 and _simple(e.args[0])) or \
        (isinstance(e, ast.BinOp) and _simple(e.left) and _simple(e.right))


def _is_num(e):
    return isinstance(e, ast.Constant) and isinstance(e.value, int) and not isinstance(e.value, bool)


def const_left(src):
    """x + 1 -> 1 + x, x * 2 -> 2 * x  (numeric constant operand, the other operand free of side effects)"""
    tree = ast.parse(src)

    class S(ast.NodeTransformer):
        def visit_BinOp(self, n):
            self.generic_visit(n)
            if isinstance(n.op, (ast.Add, ast.Mult)) and _is_num(n.right) and not isinstance(n.left, ast.Constant) and _simple(n.left) \
                    and not isinstance(n.left, (ast.List, ast.Tuple)):
                return ast.copy_location(ast.BinOp(n.right, n.op, n.left), n)
            return n
    return ast.unparse(ast.fix_missing_locations(S().visit(tree))) + '\n'


def range_explicit_start(src):
    """range(n) -> range(0, n)"""
    tree = ast.parse(src)

    class S(ast.NodeTransformer):
        def visit_Call(self, n):
            self.generic_visit(n)
            if isinstance(n.func, ast.Name) and n.func.id == 'range' and len(n.args) == 1 and not n.keywords:
                n.args = [ast.Constant(0), n.args[0]]
            return n
    return ast.unparse(ast.fix_missing_locations(S().visit(tree))) + '\n'


def last_by_len(src):
    """X[-1] -> X[len(X) - 1]  for a plain name X (load context)"""
    tree = ast.parse(src)

    class S(ast.NodeTransformer):
        def visit_Subscript(self, n):
            self.generic_visit(n)
            if isinstance(n.ctx, ast.Load) and isinstance(n.value, ast.Name) and \
                    ((isinstance(n.slice, ast.UnaryOp) and isinstance(n.slice.op, ast.USub) and _is_num(n.slice.operand) and
                      n.slice.operand.value == 1) or (_is_num(n.slice) and n.slice.value == -1)):
                n.slice = ast.BinOp(ast.Call(ast.Name('len', ast.Load()), [ast.Name(n.value.id, ast.Load())], []), ast.Sub(),
                                    ast.Constant(1))
            return n
    return ast.unparse(ast.fix_missing_locations(S().visit(tree))) + '\n'


def shift_strict_bound(src):
    """a + c < b  ->  a < b - c   for int constant c and side-effect-free operands (integers)"""
    tree = ast.parse(src)

    class S(ast.NodeTransformer):
        def visit_Compare(self, n):
            self.generic_visit(n)
            if len(n.ops) == 1 and isinstance(n.ops[0], (ast.Lt, ast.LtE)) and isinstance(n.left, ast.BinOp) and \
                    isinstance(n.left.op, ast.Add) and _is_num(n.left.right) and _simple(n.left.left) and _simple(n.comparators[0]) \
                    and isinstance(n.comparators[0], ast.Call):
                return ast.copy_location(ast.Compare(n.left.left, n.ops,
                                                     [ast.BinOp(n.comparators[0], ast.Sub(), n.left.right)]), n)
            return n
    return ast.unparse(ast.fix_missing_locations(S().visit(tree))) + '\n'


def len_zero_forms(src):
    """len(x) == 0 -> len(x) < 1 ; len(x) > 0 -> len(x) >= 1"""
    tree = ast.parse(src)

    class S(ast.NodeTransformer):
        def visit_Compare(self, n):
            self.generic_visit(n)
            if len(n.ops) == 1 and isinstance(n.left, ast.Call) and isinstance(n.left.func, ast.Name) and n.left.func.id == 'len' \
                    and _is_num(n.comparators[0]) and n.comparators[0].value == 0:
                if isinstance(n.ops[0], ast.Eq):
                    return ast.copy_location(ast.Compare(n.left, [ast.Lt()], [ast.Constant(1)]), n)
                if isinstance(n.ops[0], ast.Gt):
                    return ast.copy_location(ast.Compare(n.left, [ast.GtE()], [ast.Constant(1)]), n)
            return n
    return ast.unparse(ast.fix_missing_locations(S().visit(tree))) + '\n'


def while_true_break(src):
    """while C: body   ->   while True: if not C: break; body     (loops without else)"""
    tree = ast.parse(src)

    class S(ast.NodeTransformer):
        def visit_While(self, n):
            self.generic_visit(n)
            if n.orelse or (isinstance(n.test, ast.Constant)):
                return n
            guard = ast.If(_negate(n.test), [ast.Break()], [])
            return ast.copy_location(ast.While(ast.Constant(True), [guard] + n.body, []), n)
    return ast.unparse(ast.fix_missing_locations(S().visit(tree))) + '\n'


def split_and_into_nested_if(src):
    """if a and b: X   (no else)  ->  if a: if b: X"""
    tree = ast.parse(src)

    class S(ast.NodeTransformer):
        def visit_If(self, n):
            self.generic_visit(n)
            if not n.orelse and isinstance(n.test, ast.BoolOp) and isinstance(n.test.op, ast.And) and len(n.test.values) == 2:
                inner = ast.If(n.test.values[1], n.body, [])
                return ast.copy_location(ast.If(n.test.values[0], [inner], []), n)
            return n
    return ast.unparse(ast.fix_missing_locations(S().visit(tree))) + '\n'


def demorgan_or_tests(src):
    """if a or b: X else: Y  ->  if not a and not b: Y else: X   (both arms present)"""
    tree = ast.parse(src)

    class S(ast.NodeTransformer):
        def visit_If(self, n):
            self.generic_visit(n)
            if n.orelse and isinstance(n.test, ast.BoolOp) and isinstance(n.test.op, ast.Or) and len(n.test.values) == 2 and \
                    not (len(n.orelse) == 1 and isinstance(n.orelse[0], ast.If)):
                t = ast.BoolOp(ast.And(), [_negate(n.test.values[0]), _negate(n.test.values[1])])
                return ast.copy_location(ast.If(t, n.orelse, n.body), n)
            return n
    return ast.unparse(ast.fix_missing_locations(S().visit(tree))) + '\n'


def unpack_by_subscript(src):
    """for a, b in X: ...  ->  for zz_p in X: a = zz_p[0]; b = zz_p[1]; ...   (X not an enumerate / zip call; flat 2-tuples)"""
    tree = ast.parse(src)
    counter = [0]

    class S(ast.NodeTransformer):
        def visit_For(self, n):
            self.generic_visit(n)
            if isinstance(n.target, ast.Tuple) and len(n.target.elts) == 2 and all(isinstance(e, ast.Name) for e in n.target.elts) \
                    and not (isinstance(n.iter, ast.Call) and isinstance(n.iter.func, ast.Name) and n.iter.func.id in ('enumerate', 'zip')):
                counter[0] += 1
                p = 'zz_pair%d' % counter[0]
                pre = [ast.Assign([ast.Name(e.id, ast.Store())], ast.Subscript(ast.Name(p, ast.Load()), ast.Constant(i), ast.Load()))
                       for i, e in enumerate(n.target.elts)]
                return ast.copy_location(ast.For(ast.Name(p, ast.Store()), n.iter, pre + n.body, n.orelse), n)
            return n
    return ast.unparse(ast.fix_missing_locations(S().visit(tree))) + '\n'


def reversed_by_index(src):
    """for a in X[::-1]: body  ->  for zz_i in range(len(X)): a = X[len(X) - 1 - zz_i]; body   (X a plain name, a a plain name or
    a flat tuple of names)"""
    tree = ast.parse(src)
    counter = [0]

    class S(ast.NodeTransformer):
        def visit_For(self, n):
            self.generic_visit(n)
            it = n.iter
            if isinstance(it, ast.Subscript) and isinstance(it.value, ast.Name) and isinstance(it.slice, ast.Slice) and \
                    it.slice.lower is None and it.slice.upper is None and isinstance(it.slice.step, ast.UnaryOp) and \
                    isinstance(it.slice.step.op, ast.USub) and _is_num(it.slice.step.operand) and it.slice.step.operand.value == 1:
                counter[0] += 1
                i = 'zz_rev%d' % counter[0]
                x = it.value.id
                ln = ast.Call(ast.Name('len', ast.Load()), [ast.Name(x, ast.Load())], [])
                idx = ast.BinOp(ast.BinOp(ln, ast.Sub(), ast.Constant(1)), ast.Sub(), ast.Name(i, ast.Load()))
                bind = ast.Assign([n.target], ast.Subscript(ast.Name(x, ast.Load()), idx, ast.Load()))
                rng = ast.Call(ast.Name('range', ast.Load()), [ast.Call(ast.Name('len', ast.Load()), [ast.Name(x, ast.Load())], [])], [])
                return ast.copy_location(ast.For(ast.Name(i, ast.Store()), rng, [bind] + n.body, n.orelse), n)
            return n
    return ast.unparse(ast.fix_missing_locations(S().visit(tree))) + '\n'


def negated_complement_tests(src):
    """in if / while tests: a < b -> not a >= b, a >= b -> not a < b ... for side-effect-free integer-looking operands (a len() call or
    an int constant on one side)"""
    tree = ast.parse(src)
    comp = {ast.Lt: ast.GtE, ast.LtE: ast.Gt, ast.Gt: ast.LtE, ast.GtE: ast.Lt}

    def rewrite(t):
        if isinstance(t, ast.Compare) and len(t.ops) == 1 and type(t.ops[0]) in comp and _simple(t.left) and _simple(t.comparators[0]) \
                and any(_is_num(x) or (isinstance(x, ast.Call) and isinstance(x.func, ast.Name) and x.func.id == 'len')
                        for x in (t.left, t.comparators[0])):
            return ast.UnaryOp(ast.Not(), ast.Compare(t.left, [comp[type(t.ops[0])]()], t.comparators))
        return t

    class S(ast.NodeTransformer):
        def visit_If(self, n):
            self.generic_visit(n)
            n.test = rewrite(n.test)
            return n

        def visit_While(self, n):
            self.generic_visit(n)
            n.test = rewrite(n.test)
            return n
    return ast.unparse(ast.fix_missing_locations(S().visit(tree))) + '\n'


TWINS = {
    'unparse': unparse_only,
    'rename-locals': rename_locals,
    'swap-if-else': swap_if_else,
    'aug-to-assign': aug_to_assign,
    'assign-to-aug': assign_to_aug,
    'sub-pair-to-tuple': subscript_pair_to_tuple,
    'sub-tuple-to-pair': subscript_tuple_to_pair,
    'ge0-to-gt-minus1': ge0_to_gt_minus1,
    'live-ne-minus1': live_ne_minus1,
    'len-gt1-to-ge2': len_gt1_to_ge2,
    'hoist-alphabet': hoist_alphabet,
    'split-tuple-assign': split_tuple_assign,
    'extra-verbose-print': extra_verbose_print,
    'new-public-function': new_public_function,
    'strip-docstrings': strip_docstrings,
    'where-to-nonzero': where_to_nonzero,
    'extract-live-helper': extract_live_helper,
    'flip-compare-operands': flip_compare_operands,
    'early-raise': early_raise,
    'where-to-flatnonzero': where_to_flatnonzero,
    'swap-exclusive-elif': swap_exclusive_elif,
    'range-len-to-enumerate': range_len_to_enumerate,
    'swap-independent-assignments': swap_independent_assignments,
    'hoist-len-tests': hoist_len_tests,
    'const-left': const_left,
    'range-explicit-start': range_explicit_start,
    'last-by-len': last_by_len,
    'shift-strict-bound': shift_strict_bound,
    'len-zero-forms': len_zero_forms,
    'while-true-break': while_true_break,
    'split-and-into-nested-if': split_and_into_nested_if,
    'demorgan-or-tests': demorgan_or_tests,
    'unpack-by-subscript': unpack_by_subscript,
    'reversed-by-index': reversed_by_index,
    'negated-complement-tests': negated_complement_tests,
}
