"""setup_cmd: byte-compile the analyser and run its positive controls (no network, no install)."""
import compileall
import os
import sys


def main():
    here = os.path.dirname(os.path.abspath(__file__))
    ok = compileall.compile_dir(here, quiet=1, force=False)
    if not ok:
        print("setup: byte-compilation failed")
        return 1
    from . import core, ctx, kinds, finite, report, props, selftest, variants, twins  # noqa: F401
    print("setup: analyser imports; %d properties have checks; %d self-validation variants"
          % (len(props.PROPERTIES), len(variants.VARIANTS)))
    return 0


if __name__ == '__main__':
    sys.exit(main())
